(* DeserProofs.v — C03: decoding the specification's encoding of a value, from a stream positioned
   anywhere (an arbitrary suffix follows) and given the exact scope, yields exactly the backing tree
   the constructor builds and leaves the suffix untouched.  Part 1: stream and offset helpers. *)
Require Import RM.Base RM.Gindex RM.Tree RM.TreeProofs RM.Types RM.Spec RM.ModelViews RM.ModelCodec
               RM.SerLen RM.FactsProofs RM.MerkleProofs RM.PackProofs RM.CtorProofs RM.PathProofs RM.CRepProofs
               RM.ListProofs RM.SerProofs RM.CodecBasicProofs RM.SerProofs2 RM.BitProofs RM.ChunkProofs.
From Coq Require Import ZifyBool ZifyNat ZifyN.
Local Open Scope N_scope.

(* ---- the stream ---- *)
Lemma read_app (b sfx : bytes) : read (lenN b) (b ++ sfx) = (b, sfx).
Proof. unfold read, lenN. rewrite Nat2N.id, firstn_app_exact, skipn_app_exact by reflexivity. reflexivity. Qed.

Lemma read_app_n (k : N) (b sfx : bytes) : lenN b = k -> read k (b ++ sfx) = (b, sfx).
Proof. intros <-. apply read_app. Qed.

Lemma decode_offset_app o rest : o < 2 ^ 32 -> decode_offset (le_bytes 4 o ++ rest) = (o, rest).
Proof.
  intros Ho. unfold decode_offset. rewrite (read_app_n 4 (le_bytes 4 o) rest) by (rewrite le_bytes_lenN; reflexivity).
  rewrite le_val_le_bytes; [reflexivity|]. exact Ho.
Qed.

(* ---- offsets of a run of variable-size parts ---- *)
Fixpoint var_offsets (start : N) (lens : list N) : list N :=
  match lens with [] => [] | l :: r => start :: var_offsets (start + l) r end.

Lemma var_offsets_length start lens : length (var_offsets start lens) = length lens.
Proof. revert start; induction lens as [|l r IH]; intros start; cbn; [reflexivity|now rewrite IH]. Qed.

Lemma ser_go_var : forall (bs : list bytes) off,
  ser_go (map (fun b => (false, b)) bs) off = (concat (map (le_bytes 4) (var_offsets off (map lenN bs))), concat bs).
Proof.
  induction bs as [|b bs IH]; intros off; [reflexivity|].
  cbn [map ser_go var_offsets concat]. rewrite IH. reflexivity.
Qed.

Lemma var_offsets_bound : forall lens start, Forall (fun o => o <= start + sumN lens) (var_offsets start lens).
Proof.
  induction lens as [|l r IH]; intros start; cbn [var_offsets]; constructor.
  - unfold sumN. cbn [fold_right]. lia.
  - specialize (IH (start + l)). unfold sumN in *. cbn [fold_right]. eapply Forall_impl; [|exact IH]. cbn. intros; lia.
Qed.

(* reading k offsets *)
Definition rdloop : nat -> bytes -> list N * bytes :=
  fix rd (k : nat) (s : bytes) : list N * bytes :=
     match k with
     | O => ([], s)
     | S k' => let '(o, s') := decode_offset s in
               let '(os, s'') := rd k' s' in (o :: os, s'')
     end.
Lemma rd_offsets : forall (os : list N) rest, Forall (fun o => o < 2 ^ 32) os ->
  rdloop (length os) (concat (map (le_bytes 4) os) ++ rest) = (os, rest).
Proof.
  unfold rdloop.
  induction os as [|o os IH]; intros rest Hall; [reflexivity|].
  inversion Hall as [|? ? Ho Hos]; subst. cbn [length map concat]. rewrite <- app_assoc.
  rewrite decode_offset_app by exact Ho. rewrite IH by exact Hos. reflexivity.
Qed.

(* fixed-size legal types have a positive size *)
Lemma fsize_pos : forall t, wf_ty t = true -> is_fixed t = true -> 1 <= fsize t.
Proof.
  induction t as [k| |n|l|n|l|e n IHe|e l IHe|fs Hfs|b os Hos] using ty_ind'; intros Hty Hf; cbn [is_fixed] in Hf; try discriminate; cbn [fsize wf_ty] in *.
  - destruct (uint_size_cases k Hty) as [ -> | [ -> | [ -> | [ -> | [ -> | -> ]]]]]; lia.
  - apply andb_true_iff in Hty as [H1 _]. apply N.leb_le in H1. lia.
  - apply andb_true_iff in Hty as [H1 _]. apply N.leb_le in H1. lia.
  - apply andb_true_iff in Hty as [Hty _]. apply andb_true_iff in Hty as [Hte H1]. apply N.leb_le in H1.
    specialize (IHe Hte Hf). nia.
  - apply andb_true_iff in Hty as [Hne Htys]. destruct fs as [|f fs]; [discriminate|].
    inversion Hfs as [|? ? Hf0 _]; subst. cbn [forallb] in Htys, Hf.
    apply andb_true_iff in Htys as [Htf _]. apply andb_true_iff in Hf as [Hff _].
    specialize (Hf0 Htf Hff). cbn [map]. unfold sumN. cbn [fold_right]. lia.
Qed.

Lemma seq_res_Forall2 {A B} (f : A -> result B) : forall (l : list A) (rs : list B),
  seq_res (map f l) = Ok rs -> Forall2 (fun x y => f x = Ok y) l rs.
Proof.
  induction l as [|a l IH]; intros rs Hs; cbn [map seq_res] in Hs.
  - inversion Hs. constructor.
  - destruct (f a) as [b|] eqn:Ea; [|discriminate]. cbn [bind] in Hs.
    destruct (seq_res (map f l)) as [r|] eqn:Er; [|discriminate]. cbn [bind] in Hs. inversion Hs; subst rs.
    constructor; [exact Ea|now apply IH].
Qed.

(* a part is no longer than the whole *)
Lemma part_le_parts (parts : list (bool * bytes)) p : In p parts -> lenN (snd p) <= lenN (ser_parts parts).
Proof.
  intros Hin. rewrite ser_parts_len. induction parts as [|q parts IH]; [destruct Hin|].
  cbn [map]. unfold sumN in *. cbn [fold_right]. destruct Hin as [->|Hin].
  - unfold part_len. destruct (fst p); lia.
  - specialize (IH Hin). lia.
Qed.

Lemma ser_fixed_seq e vs : wf_ty e = true -> is_fixed e = true -> forallb (wf e) vs = true ->
  ser_parts (map (fun x => (true, ser e x)) vs) = concat (map (ser e) vs) /\
  lenN (concat (map (ser e) vs)) = fsize e * lenN vs.
Proof.
  intros Hw Hf Hall.
  destruct (seq_fixed_ser (map (fun x => (ser e x, 0%N)) vs) (fsize e)) as [H1 H2].
  { intros x Hx. apply in_map_iff in Hx as (y & <- & Hy). cbn [fst].
    apply ser_len_fixed; auto. rewrite forallb_forall in Hall. now apply Hall. }
  rewrite !map_map in H1. rewrite !map_map in H2. cbn [fst] in H1, H2. split; [symmetry; exact H1|].
  unfold lenN in *. rewrite map_length in H2. exact H2.
Qed.
Lemma ser_parts_var (bs : list bytes) :
  ser_parts (map (fun b => (false, b)) bs)
  = concat (map (le_bytes 4) (var_offsets (4 * lenN bs) (map lenN bs))) ++ concat bs.
Proof.
  unfold ser_parts.
  assert (sumN (map fixed_part_len (map (fun b : bytes => (false, b)) bs)) = 4 * lenN bs) as ->.
  { induction bs as [|b bs IH]; [reflexivity|]. cbn [map]. unfold sumN in *. cbn [fold_right]. rewrite IH.
    unfold fixed_part_len at 1. cbn [fst]. unfold OFFSET. rewrite lenN_cons. lia. }
  rewrite ser_go_var. reflexivity.
Qed.
Lemma lenN_concat (bs : list bytes) : lenN (concat bs) = sumN (map lenN bs).
Proof. induction bs as [|b bs IH]; [reflexivity|]. cbn [concat map]. rewrite lenN_app, IH. reflexivity. Qed.
Lemma lenN_offsets (os : list N) : lenN (concat (map (le_bytes 4) os)) = 4 * lenN os.
Proof. induction os as [|o os IH]; [reflexivity|]. cbn [concat map]. rewrite lenN_app, IH, le_bytes_lenN, lenN_cons. lia. Qed.

Section WithHash.
Variable H : bytes -> bytes -> bytes.
Notation deser_impl := (deser_impl H).
Notation mk := (mk H).

Definition deser_ok (t : ty) (v : val) (n : node) : Prop :=
  forall sfx, deser_impl t (ser t v ++ sfx) (lenN (ser t v)) = Ok (n, sfx).

(* the element loop over consecutive offsets (variable-size elements) *)
Definition vloop (e : ty) (emin emax : N) : list N -> bytes -> result (list node * bytes) :=
  fix loop (offsets : list N) (s : bytes) : result (list node * bytes) :=
     match offsets with
     | start :: ((end_ :: _) as rest) =>
         if end_ <? start then Err EOther
         else
           let sz := end_ - start in
           if negb ((emin <=? sz) && (sz <=? emax)) then Err EOther
           else do x <- deser_impl e s sz;
                do r <- loop rest (snd x);
                Ok (fst x :: fst r, snd r)
     | _ => Ok ([], s)
     end.
Lemma var_loop (e : ty) (emin emax : N) : forall (vs : list val) (ns : list node),
  Forall2 (fun x n => deser_ok e x n /\ emin <= lenN (ser e x) <= emax) vs ns ->
  forall start sfx,
  vloop e emin emax (var_offsets start (map (fun x => lenN (ser e x)) vs) ++ [start + sumN (map (fun x => lenN (ser e x)) vs)])
          (concat (map (ser e) vs) ++ sfx) = Ok (ns, sfx).
Proof.
  induction 1 as [|x n vs ns [Hx Hb] Hrest IH]; intros start sfx; [reflexivity|].
  specialize (IH (start + lenN (ser e x)) sfx).
  set (loop := vloop e emin emax) in *.
  cbn [map var_offsets app concat].
  set (l := lenN (ser e x)) in *.
  assert (exists tl, var_offsets (start + l) (map (fun x => lenN (ser e x)) vs) ++
                     [start + sumN (l :: map (fun x => lenN (ser e x)) vs)] = (start + l) :: tl) as (tl & Etl).
  { destruct vs as [|y vs]; cbn [map var_offsets app]; eexists; [|reflexivity].
    unfold sumN. cbn [fold_right]. rewrite N.add_0_r. reflexivity. }
  replace (start + l + sumN (map (fun x => lenN (ser e x)) vs)) with (start + sumN (l :: map (fun x => lenN (ser e x)) vs)) in IH
    by (unfold sumN; cbn [fold_right]; lia).
  assert (forall a b tl s, loop (a :: b :: tl) s =
            if b <? a then Err EOther
            else if negb ((emin <=? b - a) && (b - a <=? emax)) then Err EOther
                 else do x <- deser_impl e s (b - a); do r <- loop (b :: tl) (snd x); Ok (fst x :: fst r, snd r)) as Hstep
    by reflexivity.
  rewrite Etl, Hstep, <- Etl.
  assert ((start + l <? start) = false) as -> by (apply N.ltb_ge; lia).
  replace (start + l - start) with l by lia.
  assert ((emin <=? l) && (l <=? emax) = true) as -> by (apply andb_true_iff; split; apply N.leb_le; lia).
  cbn [negb]. rewrite <- app_assoc. unfold l. rewrite Hx. cbn [bind fst snd].
  fold l. rewrite IH. reflexivity.
Qed.

(* the element loop for fixed-size elements *)
Definition floop (e : ty) (ebl : N) : nat -> bytes -> result (list node * bytes) :=
  fix loop (k : nat) (s : bytes) : result (list node * bytes) :=
     match k with
     | O => Ok ([], s)
     | S k' => do x <- deser_impl e s ebl;
               do r <- loop k' (snd x);
               Ok (fst x :: fst r, snd r)
     end.
Lemma fixed_loop (e : ty) (ebl : N) : forall (vs : list val) (ns : list node),
  Forall2 (fun x n => deser_ok e x n /\ lenN (ser e x) = ebl) vs ns ->
  forall sfx, floop e ebl (length vs) (concat (map (ser e) vs) ++ sfx) = Ok (ns, sfx).
Proof.
  unfold floop.
  induction 1 as [|x n vs ns [Hx Hb] Hrest IH]; intros sfx; [reflexivity|].
  cbn [length map concat]. rewrite <- app_assoc. rewrite <- Hb at 1. rewrite Hx. cbn [bind fst snd].
  rewrite IH. reflexivity.
Qed.

(* per-element facts for a constructed sequence *)
Lemma elems_Forall2 (e : ty) (vs : list val) (ns : list node) (P : val -> Prop) :
  (forall x nx, wf e x = true -> lenN (ser e x) < 2 ^ 32 -> mk e x = Ok nx -> deser_ok e x nx) ->
  forallb (wf e) vs = true ->
  (forall x, In x vs -> lenN (ser e x) < 2 ^ 32) ->
  (forall x, In x vs -> wf e x = true -> P x) ->
  seq_res (map (mk e) vs) = Ok ns ->
  Forall2 (fun x n => deser_ok e x n /\ P x) vs ns.
Proof.
  intros IHe Hall Hb HP Hns. apply seq_res_Forall2 in Hns.
  induction Hns as [|x n vs ns Hx Hrest IH]; [constructor|].
  cbn [forallb] in Hall. apply andb_true_iff in Hall as [Hwx Hall].
  constructor.
  - split; [apply IHe; auto; apply Hb; now left|apply HP; [now left|exact Hwx]].
  - apply IH; auto; intros y Hy; [apply Hb|apply HP]; now right.
Qed.

(* deser_impl for homogeneous sequences, with the loops named *)
Definition seq_build (t : ty) (nodes : list node) (count : N) : result node :=
  match nodes with
  | [] => default_node H t
  | _ => do c <- fill_to_contents H nodes (contents_depth t);
         Ok (match t with TList _ _ => PairN c (len_node count) | _ => c end)
  end.
Definition seq_deser (t e : ty) (valid_count : N -> bool) (s : bytes) (scope : N) : result (node * bytes) :=
  if is_fixed_impl e then
    let ebl := min_impl e in
    if negb (scope mod ebl =? 0) then Err EOther
    else
      let count := scope / ebl in
      if negb (valid_count count) then Err EOther
      else
        do r <- floop e ebl (N.to_nat count) s;
        let '(els, s') := r in
        do nd <- match basic_size e with
                 | Some sz =>
                     seq_build t (map RootN (pack_ints sz (map (fun x => le_val (firstn (N.to_nat sz) (root H x))) els))) count
                 | None => seq_build t els count
                 end;
        Ok (nd, s')
  else
    if scope =? 0 then
      if valid_count 0 then do nd <- default_node H t; Ok (nd, s) else Err EOther
    else
      let '(first_offset, s1) := decode_offset s in
      if scope <? first_offset then Err EOther
      else if negb (first_offset mod 4 =? 0) then Err EOther
      else
        let count := first_offset / 4 in
        if negb (valid_count count) then Err EOther
        else if count =? 0 then Err EValue
        else
          let '(offs, s2) := rdloop (N.to_nat (count - 1)) s1 in
          let offsets := first_offset :: offs ++ [scope] in
          do r <- vloop e (min_impl e) (max_impl e) offsets s2;
          let '(els, s') := r in
          do nd <- seq_build t els count;
          Ok (nd, s').

Lemma deser_list_unfold e l s scope :
  deser_impl (TList e l) s scope = seq_deser (TList e l) e (fun c => c <=? l) s scope.
Proof. reflexivity. Qed.
Lemma deser_vector_unfold e k s scope :
  deser_impl (TVector e k) s scope = seq_deser (TVector e k) e (fun c => c =? k) s scope.
Proof. reflexivity. Qed.

Definition seq_nodes (t e : ty) (ns : list node) (count : N) : result node :=
  match basic_size e with
  | Some sz => seq_build t (map RootN (pack_ints sz (map (fun x => le_val (firstn (N.to_nat sz) (root H x))) ns))) count
  | None => seq_build t ns count
  end.

Lemma seq_deser_ok (t e : ty) (valid : N -> bool) (vs : list val) (ns : list node) :
  wf_ty e = true ->
  (forall x nx, wf e x = true -> lenN (ser e x) < 2 ^ 32 -> mk e x = Ok nx -> deser_ok e x nx) ->
  forallb (wf e) vs = true -> vs <> [] -> valid (lenN vs) = true ->
  lenN (ser_parts (map (fun x => (is_fixed e, ser e x)) vs)) < 2 ^ 32 ->
  seq_res (map (mk e) vs) = Ok ns ->
  forall sfx,
  seq_deser t e valid (ser_parts (map (fun x => (is_fixed e, ser e x)) vs) ++ sfx)
            (lenN (ser_parts (map (fun x => (is_fixed e, ser e x)) vs)))
  = do nd <- seq_nodes t e ns (lenN vs); Ok (nd, sfx).
Proof.
  intros Hte IHe Hall Hne Hvalid Hb32 Hns sfx.
  unfold seq_deser, seq_nodes. rewrite is_fixed_impl_eq, min_impl_eq, max_impl_eq.
  set (parts := map (fun x => (is_fixed e, ser e x)) vs) in *.
  assert (forall x, In x vs -> lenN (ser e x) < 2 ^ 32) as Hxb.
  { intros x Hx. pose proof (part_le_parts parts (is_fixed e, ser e x)) as Hp. cbn [snd] in Hp.
    assert (In (is_fixed e, ser e x) parts) as Hin by (unfold parts; apply in_map_iff; exists x; auto). specialize (Hp Hin). lia. }
  assert (1 <= lenN vs) as Hc1 by (destruct vs; [congruence|rewrite lenN_cons; lia]).
  destruct (is_fixed e) eqn:Efx.
  - destruct (ser_fixed_seq e vs Hte Efx Hall) as [Es El]. unfold parts. rewrite Es, El.
    destruct (fixed_min_eq_fsize e Efx) as [Emin _]. rewrite Emin.
    pose proof (fsize_pos e Hte Efx) as Hpos.
    rewrite N.mul_comm, N.mod_mul, N.div_mul by lia. cbn [N.eqb negb].
    rewrite Hvalid. cbn [negb].
    replace (N.to_nat (lenN vs)) with (length vs) by (unfold lenN; lia).
    rewrite (fixed_loop e (fsize e) vs ns).
    2:{ apply (elems_Forall2 e vs ns (fun x => lenN (ser e x) = fsize e) IHe Hall Hxb); [|exact Hns].
        intros x _ Hwx. now apply ser_len_fixed. }
    cbn [bind]. reflexivity.
  - assert (basic_size e = None) as -> by (destruct e; cbn in Efx |- *; congruence).
    assert (parts = map (fun b => (false, b)) (map (ser e) vs)) as Eparts by (unfold parts; now rewrite map_map).
    pose proof (ser_parts_var (map (ser e) vs)) as Esp. rewrite <- Eparts in Esp.
    assert (lenN (ser_parts parts) = 4 * lenN vs + sumN (map lenN (map (ser e) vs))) as Elen.
    { rewrite Esp, lenN_app, lenN_offsets, lenN_concat. unfold lenN. rewrite var_offsets_length, !map_length. reflexivity. }
    rewrite Elen in Hb32 |- *. rewrite Esp.
    set (lens := map lenN (map (ser e) vs)) in *.
    assert (lenN (map (ser e) vs) = lenN vs) as Elv by (unfold lenN; now rewrite map_length). rewrite Elv.
    assert ((4 * lenN vs + sumN lens =? 0) = false) as -> by (apply N.eqb_neq; lia).
    (* the first offset *)
    assert (exists x0 vs0, vs = x0 :: vs0) as (x0 & vs0 & Evs) by (destruct vs; [congruence|eauto]).
    assert (exists l0 ls, lens = l0 :: ls /\ length ls = length vs0) as (l0 & ls & Elens & Hlls).
    { unfold lens. rewrite Evs. cbn [map]. eexists _, _. split; [reflexivity|]. now rewrite !map_length. }
    rewrite Elens. cbn [var_offsets map concat]. rewrite <- !app_assoc.
    rewrite decode_offset_app by (rewrite Elens in Hb32; lia).
    assert ((4 * lenN vs + sumN (l0 :: ls) <? 4 * lenN vs) = false) as -> by (apply N.ltb_ge; lia).
    rewrite N.mul_comm, N.mod_mul, N.div_mul by lia. cbn [N.eqb negb].
    rewrite Hvalid. cbn [negb].
    assert ((lenN vs =? 0) = false) as -> by (apply N.eqb_neq; lia).
    replace (N.to_nat (lenN vs - 1)) with (length (var_offsets (lenN vs * 4 + l0) ls))
      by (rewrite var_offsets_length, Hlls, Evs; unfold lenN; cbn [length]; lia).
    rewrite rd_offsets.
    2:{ pose proof (var_offsets_bound ls (lenN vs * 4 + l0)) as Hbd. eapply Forall_impl; [|exact Hbd]. cbn.
        intros o Ho. rewrite Elens in Hb32. unfold sumN in *. cbn [fold_right] in Hb32. lia. }
    replace (lenN vs * 4 :: var_offsets (lenN vs * 4 + l0) ls ++ [lenN vs * 4 + sumN (l0 :: ls)])
      with (var_offsets (lenN vs * 4) (map (fun x => lenN (ser e x)) vs) ++ [lenN vs * 4 + sumN (map (fun x => lenN (ser e x)) vs)]).
    2:{ assert (map (fun x => lenN (ser e x)) vs = l0 :: ls) as -> by (rewrite <- Elens; unfold lens; now rewrite map_map). reflexivity. }
    rewrite (var_loop e (min_len e) (max_len e) vs ns).
    2:{ apply (elems_Forall2 e vs ns (fun x => min_len e <= lenN (ser e x) <= max_len e) IHe Hall Hxb); [|exact Hns].
        intros x _ Hwx. now apply ser_len_bounds. }
    cbn [bind]. reflexivity.
Qed.

(* the decoded basic element nodes carry the coerced integer values *)
Lemma basic_nodes_values e sz : wf_ty e = true -> basic_size e = Some sz -> forall vs ns,
  seq_res (map (mk e) vs) = Ok ns ->
  seq_res (map (mk_basic e) vs) = Ok (map (fun x => le_val (firstn (N.to_nat sz) (root H x))) ns).
Proof.
  intros Hw E. induction vs as [|x vs IH]; intros ns Hns; cbn [map seq_res] in *.
  - inversion Hns. reflexivity.
  - destruct (mk e x) as [nx|] eqn:Ex; [|discriminate]. cbn [bind] in Hns.
    destruct (seq_res (map (mk e) vs)) as [r|] eqn:Er; [|discriminate]. cbn [bind] in Hns. inversion Hns; subst ns.
    rewrite (IH r eq_refl). cbn [map].
    assert (exists v, mk_basic e x = Ok v /\ le_val (firstn (N.to_nat sz) (root H nx)) = v) as (v & Hv & Hval).
    { destruct e; cbn [basic_size] in E; inversion E; subst; cbn [ModelViews.mk] in Ex;
        destruct (mk_basic _ x) as [v|] eqn:Ev; try discriminate; cbn [bind] in Ex; inversion Ex; subst nx;
        exists v; (split; [reflexivity|]); cbn [Tree.root].
      - assert (v < 256 ^ N.of_nat (N.to_nat sz)) as Hb.
        { destruct x; cbn [mk_basic] in Ev; try discriminate. destruct (n <? 2 ^ (8 * sz)) eqn:Hlt; [|discriminate].
          inversion Ev; subst. apply N.ltb_lt in Hlt. rewrite N2Nat.id. change 256 with (2 ^ 8). now rewrite <- N.pow_mul_r. }
        pose proof (firstn_pad32 (le_bytes (N.to_nat sz) v)) as Hp. rewrite le_bytes_length in Hp.
        cbn [wf_ty] in Hw. destruct (uint_size_cases sz Hw) as [ -> | [ -> | [ -> | [ -> | [ -> | -> ]]]]];
          (rewrite Hp by (cbn; lia)); now apply le_val_le_bytes.
      - assert (v < 2) as Hb.
        { destruct x; cbn [mk_basic] in Ev; try discriminate.
          - destruct (n <? 2) eqn:Hlt; [|discriminate]. inversion Ev; subst. now apply N.ltb_lt in Hlt.
          - inversion Ev. destruct b; lia. }
        assert (v = 0 \/ v = 1) as [ -> | -> ] by lia; reflexivity. }
    rewrite Hv. cbn [bind]. now rewrite Hval.
Qed.

Lemma pack_ints_nonempty sz xs : (sz = 1 \/ sz = 2 \/ sz = 4 \/ sz = 8 \/ sz = 16 \/ sz = 32) -> xs <> [] -> pack_ints sz xs <> [].
Proof.
  intros Hs Hne Hp. rewrite (pack_ints_chunks sz xs Hs) in Hp. apply (f_equal (@length bytes)) in Hp.
  rewrite chunks_length in Hp. cbn [length] in Hp.
  rewrite (concat_uniform_length (N.to_nat sz)) in Hp.
  2:{ apply Forall_forall. intros b Hb. apply in_map_iff in Hb as (x & <- & _). apply le_bytes_length. }
  rewrite map_length in Hp. destruct xs as [|x xs]; [congruence|]. cbn [length] in Hp.
  apply Nat.div_small_iff in Hp; [|lia]. destruct Hs as [ -> | [ -> | [ -> | [ -> | [ -> | -> ]]]]]; cbn in Hp; lia.
Qed.

(* all elements of a well-formed sequence can be constructed *)
Lemma mk_elems e vs : wf_ty e = true -> forallb (wf e) vs = true -> exists ns, seq_res (map (mk e) vs) = Ok ns.
Proof.
  intros Hw Hall. destruct (mk_all H e vs) as (ns & Hns & _); [|eauto].
  apply Forall_forall. intros x Hx. apply mk_root; [exact Hw|]. rewrite forallb_forall in Hall. now apply Hall.
Qed.

Lemma deser_list e l vs n :
  wf_ty (TList e l) = true ->
  (forall x nx, wf e x = true -> lenN (ser e x) < 2 ^ 32 -> mk e x = Ok nx -> deser_ok e x nx) ->
  wf (TList e l) (VSeq vs) = true -> lenN (ser (TList e l) (VSeq vs)) < 2 ^ 32 ->
  mk (TList e l) (VSeq vs) = Ok n -> deser_ok (TList e l) (VSeq vs) n.
Proof.
  intros Hty IHe Hwf Hb32 Hmk sfx. cbn [wf] in Hwf. apply andb_true_iff in Hwf as [Hn Hall]. apply N.leb_le in Hn.
  pose proof Hty as Hty0. cbn [wf_ty] in Hty. apply andb_true_iff in Hty as [Hte Hlb].
  cbn [ModelViews.mk] in Hmk. cbn [Spec.ser] in *. rewrite deser_list_unfold.
  destruct vs as [|x0 vs0] eqn:Evs.
  - (* empty *)
    unfold seq_deser. rewrite is_fixed_impl_eq, min_impl_eq.
    cbn [map]. change (ser_parts []) with (@nil byte). cbn [app lenN length N.of_nat].
    assert ((0 <=? l) = true) as E0 by (apply N.leb_le; lia).
    destruct (is_fixed e).
    + cbn [N.modulo N.div N.div_eucl fst snd N.eqb negb N.to_nat bind floop seq_build map]. rewrite E0. cbn [negb].
      destruct (basic_size e) as [sz|]; [change (pack_ints sz []) with (@nil bytes); cbn [map]|]; unfold seq_build; rewrite Hmk; reflexivity.
    + cbn [N.eqb]. rewrite E0, Hmk. reflexivity.
  - rewrite <- Evs in *. assert (vs <> []) as Hne by (rewrite Evs; discriminate).
    destruct (mk_elems e vs Hte Hall) as (ns & Hns).
    rewrite (seq_deser_ok (TList e l) e _ vs ns Hte IHe Hall Hne); [|now apply N.leb_le|exact Hb32|exact Hns].
    assert ((l <? lenN vs) = false) as Hlt by (apply N.ltb_ge; exact Hn). rewrite Hlt in Hmk.
    unfold seq_nodes. destruct (basic_size e) as [sz|] eqn:Eb.
    + rewrite (basic_nodes_values e sz Hte Eb vs ns Hns) in Hmk. cbn [bind] in Hmk.
      unfold seq_build.
      destruct (map RootN (pack_ints sz (map (fun x => le_val (firstn (N.to_nat sz) (root H x))) ns))) as [|a r] eqn:Ep.
      * exfalso. apply map_eq_nil in Ep. revert Ep. apply pack_ints_nonempty; [exact (basic_size_ok e sz Hte Eb)|].
        destruct (seq_res_map_ok (mk e) vs ns Hns) as [Hlen _]. intros Em. apply map_eq_nil in Em. subst ns. subst vs. discriminate.
      * destruct (fill_to_contents H (a :: r) (contents_depth (TList e l))) as [c|]; [|discriminate]. cbn [bind] in Hmk |- *.
        inversion Hmk. reflexivity.
    + rewrite Hns in Hmk. cbn [bind] in Hmk. unfold seq_build.
      destruct ns as [|a r]; [destruct (seq_res_map_ok (mk e) vs [] Hns) as [Hlen _]; subst vs; discriminate|].
      destruct (fill_to_contents H (a :: r) (contents_depth (TList e l))) as [c|]; [|discriminate]. cbn [bind] in Hmk |- *.
      inversion Hmk. reflexivity.
Qed.

Lemma deser_vector e k vs n :
  wf_ty (TVector e k) = true ->
  (forall x nx, wf e x = true -> lenN (ser e x) < 2 ^ 32 -> mk e x = Ok nx -> deser_ok e x nx) ->
  wf (TVector e k) (VSeq vs) = true -> lenN (ser (TVector e k) (VSeq vs)) < 2 ^ 32 ->
  mk (TVector e k) (VSeq vs) = Ok n -> deser_ok (TVector e k) (VSeq vs) n.
Proof.
  intros Hty IHe Hwf Hb32 Hmk sfx. cbn [wf] in Hwf. apply andb_true_iff in Hwf as [Hn Hall]. apply N.eqb_eq in Hn.
  pose proof Hty as Hty0. cbn [wf_ty] in Hty. apply andb_true_iff in Hty as [Hty Hkb]. apply andb_true_iff in Hty as [Hte Hk1]. apply N.leb_le in Hk1.
  cbn [ModelViews.mk] in Hmk. cbn [Spec.ser] in *. rewrite deser_vector_unfold.
  destruct vs as [|x0 vs0] eqn:Evs; [unfold lenN in Hn; cbn in Hn; lia|].
  rewrite <- Evs in *. assert (vs <> []) as Hne by (rewrite Evs; discriminate).
  destruct (mk_elems e vs Hte Hall) as (ns & Hns).
  rewrite (seq_deser_ok (TVector e k) e _ vs ns Hte IHe Hall Hne); [|now apply N.eqb_eq|exact Hb32|exact Hns].
  assert ((lenN vs =? k) = true) as Hlt by (now apply N.eqb_eq). rewrite Hlt in Hmk. cbn [negb] in Hmk.
  unfold seq_nodes. destruct (basic_size e) as [sz|] eqn:Eb.
  + rewrite (basic_nodes_values e sz Hte Eb vs ns Hns) in Hmk. cbn [bind] in Hmk.
    unfold seq_build.
    destruct (map RootN (pack_ints sz (map (fun x => le_val (firstn (N.to_nat sz) (root H x))) ns))) as [|a r] eqn:Ep.
    * exfalso. apply map_eq_nil in Ep. revert Ep. apply pack_ints_nonempty; [exact (basic_size_ok e sz Hte Eb)|].
      destruct (seq_res_map_ok (mk e) vs ns Hns) as [Hlen _]. intros Em. apply map_eq_nil in Em. subst ns. subst vs. discriminate.
    * destruct (fill_to_contents H (a :: r) (contents_depth (TVector e k))) as [c|]; [|discriminate]. cbn [bind] in Hmk |- *.
      inversion Hmk. reflexivity.
  + rewrite Hns in Hmk. cbn [bind] in Hmk. unfold seq_build.
    destruct ns as [|a r]; [destruct (seq_res_map_ok (mk e) vs [] Hns) as [Hlen _]; subst vs; discriminate|].
    destruct (fill_to_contents H (a :: r) (contents_depth (TVector e k))) as [c|]; [|discriminate]. cbn [bind] in Hmk |- *.
    inversion Hmk. reflexivity.
Qed.

(* ---- containers: the loops named ---- *)
Definition cfloop : list ty -> bytes -> result (list node * bytes) :=
  fix loop (fs : list ty) (s : bytes) : result (list node * bytes) :=
    match fs with
    | [] => Ok ([], s)
    | f :: fs' => do x <- deser_impl f s (min_impl f);
                  do r <- loop fs' (snd x);
                  Ok (fst x :: fst r, snd r)
    end.
Definition cpass1 : list ty -> bytes -> N -> result (list (option node * N) * bytes * N) :=
  fix loop (fs : list ty) (s : bytes) (fixed_size : N) : result (list (option node * N) * bytes * N) :=
    match fs with
    | [] => Ok ([], s, fixed_size)
    | f :: fs' =>
        if is_fixed_impl f then
          do x <- deser_impl f s (min_impl f);
          do r <- loop fs' (snd x) (fixed_size + min_impl f);
          let '(l, s', fz) := r in Ok ((Some (fst x), 0) :: l, s', fz)
        else
          let '(o, s1) := decode_offset s in
          do r <- loop fs' s1 (fixed_size + OFFSET);
          let '(l, s', fz) := r in Ok ((None, o) :: l, s', fz)
    end.
Definition cpass2 (scope : N) : list ty -> list (option node * N) -> list N -> bytes -> result (list node * bytes) :=
  fix loop (fs : list ty) (slots : list (option node * N)) (offs : list N) (s : bytes) : result (list node * bytes) :=
    match fs, slots with
    | f :: fs', (Some nd, _) :: slots' =>
        do r <- loop fs' slots' offs s; Ok (nd :: fst r, snd r)
    | f :: fs', (None, foffset) :: slots' =>
        let offs' := tl offs in
        let next := match offs' with o :: _ => o | [] => scope end in
        if next <? foffset then Err EOther
        else
          let fsz := next - foffset in
          if negb ((min_impl f <=? fsz) && (fsz <=? max_impl f)) then Err EOther
          else do x <- deser_impl f s fsz;
               do r <- loop fs' slots' offs' (snd x);
               Ok (fst x :: fst r, snd r)
    | _, _ => Ok ([], s)
    end.
Definition cont_deser (fs : list ty) (s : bytes) (scope : N) : result (node * bytes) :=
  let t := TContainer fs in
  let finish (nodes : list node) := fill_to_contents H nodes (contents_depth t) in
  if is_fixed_impl t then
    if negb (scope =? min_impl t) then Err EOther
    else do r <- cfloop fs s; do nd <- finish (fst r); Ok (nd, snd r)
  else
    do p1 <- cpass1 fs s 0;
    let '(slots, s1, fixed_size) := p1 in
    let dyn_offsets := map snd (filter (fun x => match fst x with None => true | _ => false end) slots) in
    match dyn_offsets with
    | [] => do nd <- finish (map (fun x => match fst x with Some nd => nd | None => RootN zero32 end) slots);
            Ok (nd, s1)
    | o0 :: _ =>
        if negb (o0 =? fixed_size) then Err EOther
        else do r <- cpass2 scope fs slots dyn_offsets s1; do nd <- finish (fst r); Ok (nd, snd r)
    end.
Lemma deser_container_unfold fs s scope : deser_impl (TContainer fs) s scope = cont_deser fs s scope.
Proof. reflexivity. Qed.

Inductive F3 (P : ty -> val -> node -> Prop) : list ty -> list val -> list node -> Prop :=
| F3_nil : F3 P [] [] []
| F3_cons f x n fs vs ns : P f x n -> F3 P fs vs ns -> F3 P (f :: fs) (x :: vs) (n :: ns).

Lemma F3_impl (P Q : ty -> val -> node -> Prop) fs vs ns :
  (forall f x n, In f fs -> In x vs -> P f x n -> Q f x n) -> F3 P fs vs ns -> F3 Q fs vs ns.
Proof.
  intros HPQ HF. induction HF as [|f x n fs vs ns Hp HF IH]; constructor.
  - apply HPQ; [now left|now left|exact Hp].
  - apply IH. intros f' x' n' Hf Hx. apply HPQ; now right.
Qed.

Fixpoint cparts (fs : list ty) (vs : list val) : list (bool * bytes) :=
  match fs, vs with f :: fs', x :: vs' => (is_fixed f, ser f x) :: cparts fs' vs' | _, _ => [] end.
Lemma ser_container fs vs : ser (TContainer fs) (VCont vs) = ser_parts (cparts fs vs).
Proof. reflexivity. Qed.

Fixpoint cslots (fs : list ty) (vs : list val) (ns : list node) (off : N) : list (option node * N) :=
  match fs, vs, ns with
  | f :: fs', x :: vs', n :: ns' =>
      if is_fixed f then (Some n, 0) :: cslots fs' vs' ns' off
      else (None, off) :: cslots fs' vs' ns' (off + lenN (ser f x))
  | _, _, _ => []
  end.
Fixpoint cdyn (fs : list ty) (vs : list val) (off : N) : list N :=
  match fs, vs with
  | f :: fs', x :: vs' => if is_fixed f then cdyn fs' vs' off else off :: cdyn fs' vs' (off + lenN (ser f x))
  | _, _ => []
  end.

Lemma cdyn_slots fs vs ns off : F3 (fun _ _ _ => True) fs vs ns ->
  map snd (filter (fun x : option node * N => match fst x with None => true | _ => false end) (cslots fs vs ns off)) = cdyn fs vs off.
Proof.
  intros HF. revert off. induction HF as [|f x n fs vs ns _ HF IH]; intros off; [reflexivity|].
  cbn [cslots cdyn]. destruct (is_fixed f); cbn [filter fst map snd]; now rewrite IH.
Qed.

Lemma cdyn_head fs vs off :
  (cdyn fs vs off = [] /\ sumN (map var_part_len (cparts fs vs)) = 0) \/ exists tl, cdyn fs vs off = off :: tl.
Proof.
  revert vs off. induction fs as [|f fs IH]; intros vs off; [left; split; reflexivity|].
  destruct vs as [|x vs]; [left; split; reflexivity|]. cbn [cdyn cparts map].
  destruct (is_fixed f) eqn:Ef; [|right; eauto].
  destruct (IH vs off) as [[E1 E2]|[tl E]]; [left|right; eauto].
  split; [exact E1|]. unfold sumN in *. cbn [fold_right]. unfold var_part_len at 1. cbn [fst]. lia.
Qed.

Lemma cdyn_bound : forall fs vs off, Forall (fun o => o <= off + sumN (map var_part_len (cparts fs vs))) (cdyn fs vs off).
Proof.
  induction fs as [|f fs IH]; intros vs off; [constructor|]. destruct vs as [|x vs]; [constructor|].
  cbn [cdyn cparts map].
  change (sumN (var_part_len (is_fixed f, ser f x) :: map var_part_len (cparts fs vs)))
    with (var_part_len (is_fixed f, ser f x) + sumN (map var_part_len (cparts fs vs))).
  cbn [var_part_len fst snd].
  destruct (is_fixed f).
  - specialize (IH vs off). eapply Forall_impl; [|exact IH]. cbn. intros; lia.
  - constructor; [lia|]. specialize (IH vs (off + lenN (ser f x))). eapply Forall_impl; [|exact IH]. cbn. intros; lia.
Qed.

(* fixed-size container: fields back to back *)
Lemma cfloop_ok : forall fs vs ns,
  F3 (fun f x n => deser_ok f x n /\ lenN (ser f x) = min_impl f /\ is_fixed f = true) fs vs ns ->
  forall off sfx, cfloop fs (fst (ser_go (cparts fs vs) off) ++ sfx) = Ok (ns, sfx).
Proof.
  induction 1 as [|f x n fs vs ns (Hx & Hl & Hf) HF IH]; intros off sfx; [reflexivity|].
  cbn [cparts ser_go]. rewrite Hf. specialize (IH off sfx).
  destruct (ser_go (cparts fs vs) off) as [fx vr]. cbn [fst] in *.
  unfold cfloop at 1. fold cfloop. rewrite <- app_assoc, <- Hl, Hx. cbn [bind fst snd]. rewrite IH. reflexivity.
Qed.

(* first pass: fixed fields decoded in place, offsets of variable-size fields collected *)
Lemma cpass1_ok : forall fs vs ns,
  F3 (fun f x n => is_fixed f = true -> deser_ok f x n /\ lenN (ser f x) = min_impl f) fs vs ns ->
  forall off fz rest, Forall (fun o => o < 2 ^ 32) (cdyn fs vs off) ->
  cpass1 fs (fst (ser_go (cparts fs vs) off) ++ rest) fz
  = Ok (cslots fs vs ns off, rest, fz + sumN (map fixed_part_len (cparts fs vs))).
Proof.
  induction 1 as [|f x n fs vs ns Hp HF IH]; intros off fz rest Hbd.
  - cbn. rewrite N.add_0_r. reflexivity.
  - cbn [cparts ser_go cslots cdyn map] in *.
    change (sumN (fixed_part_len (is_fixed f, ser f x) :: map fixed_part_len (cparts fs vs)))
      with (fixed_part_len (is_fixed f, ser f x) + sumN (map fixed_part_len (cparts fs vs))).
    cbn [fixed_part_len fst snd].
    unfold cpass1 at 1. fold cpass1. rewrite is_fixed_impl_eq.
    destruct (is_fixed f) eqn:Ef.
    + destruct (Hp eq_refl) as [Hx Hl]. specialize (IH off (fz + min_impl f) rest Hbd).
      destruct (ser_go (cparts fs vs) off) as [fx vr]. cbn [fst] in *.
      rewrite <- app_assoc, <- Hl at 1. rewrite Hx. cbn [bind fst snd]. rewrite IH. cbn [bind].
      f_equal. f_equal. cbn [fixed_part_len fst snd]. lia.
    + inversion Hbd as [|? ? Ho Hrest]; subst.
      specialize (IH (off + lenN (ser f x)) (fz + OFFSET) rest Hrest).
      destruct (ser_go (cparts fs vs) (off + lenN (ser f x))) as [fx vr]. cbn [fst] in *.
      rewrite <- app_assoc. rewrite decode_offset_app by exact Ho. rewrite IH. cbn [bind].
      f_equal. f_equal. cbn [fixed_part_len fst snd]. lia.
Qed.

(* second pass: the variable-size fields, each with the scope between consecutive offsets *)
Lemma cpass2_ok (scope : N) : forall fs vs ns,
  F3 (fun f x n => is_fixed f = false -> deser_ok f x n /\ min_impl f <= lenN (ser f x) <= max_impl f) fs vs ns ->
  forall off sfx, scope = off + sumN (map var_part_len (cparts fs vs)) ->
  cpass2 scope fs (cslots fs vs ns off) (cdyn fs vs off) (snd (ser_go (cparts fs vs) off) ++ sfx) = Ok (ns, sfx).
Proof.
  induction 1 as [|f x n fs vs ns Hp HF IH]; intros off sfx Hsc; [reflexivity|].
  cbn [cparts ser_go cslots cdyn map] in *.
  change (sumN (var_part_len (is_fixed f, ser f x) :: map var_part_len (cparts fs vs)))
    with (var_part_len (is_fixed f, ser f x) + sumN (map var_part_len (cparts fs vs))) in Hsc.
  destruct (is_fixed f) eqn:Ef; cbn [var_part_len fst snd] in Hsc.
  - specialize (IH off sfx Hsc). destruct (ser_go (cparts fs vs) off) as [fx vr]. cbn [snd] in *.
    unfold cpass2 at 1. fold (cpass2 scope). rewrite IH. reflexivity.
  - destruct (Hp eq_refl) as [Hx Hb]. set (l := lenN (ser f x)) in *.
    specialize (IH (off + l) sfx ltac:(lia)).
    unfold cpass2 at 1. fold (cpass2 scope). cbn [tl].
    assert (match cdyn fs vs (off + l) with o :: _ => o | [] => scope end = off + l) as ->.
    { destruct (cdyn_head fs vs (off + l)) as [[E1 E2]|[tl0 E]]; rewrite ?E1, ?E; [lia|reflexivity]. }
    assert ((off + l <? off) = false) as -> by (apply N.ltb_ge; lia).
    replace (off + l - off) with l by lia.
    assert ((min_impl f <=? l) && (l <=? max_impl f) = true) as -> by (apply andb_true_iff; split; apply N.leb_le; lia).
    cbn [negb]. destruct (ser_go (cparts fs vs) (off + l)) as [fx vr]. cbn [snd] in *.
    rewrite <- app_assoc. unfold l. rewrite Hx. cbn [bind fst snd]. fold l. rewrite IH. reflexivity.
Qed.

Lemma mk_fields : forall fs vs ns,
  (fix go (fs : list ty) (vs : list val) : result (list node) :=
     match fs, vs with
     | [], [] => Ok []
     | f :: fs', x :: vs' => do a <- mk f x; do r <- go fs' vs'; Ok (a :: r)
     | _, _ => Err EAttr
     end) fs vs = Ok ns ->
  (fix go (fs : list ty) (vs : list val) : bool :=
     match fs, vs with
     | [], [] => true
     | f :: fs', x :: vs' => wf f x && go fs' vs'
     | _, _ => false
     end) fs vs = true ->
  forallb wf_ty fs = true ->
  F3 (fun f x n => wf_ty f = true /\ wf f x = true /\ mk f x = Ok n) fs vs ns.
Proof.
  induction fs as [|f fs IH]; intros vs ns Hgo Hwf Hty; destruct vs as [|x vs]; try discriminate.
  - inversion Hgo. constructor.
  - destruct (mk f x) as [a|] eqn:Ea; [|discriminate]. cbn [bind] in Hgo.
    match type of Hgo with (do r <- ?G; _) = _ => destruct G as [r|] eqn:Er; [|discriminate] end.
    cbn [bind] in Hgo. inversion Hgo; subst ns.
    apply andb_true_iff in Hwf as [Hx Hrest]. cbn [forallb] in Hty. apply andb_true_iff in Hty as [Htf Htys].
    constructor; [auto|]. now apply IH.
Qed.

Lemma fields_ok : forall fs vs ns,
  F3 (fun f x n => wf_ty f = true /\ wf f x = true /\ mk f x = Ok n) fs vs ns ->
  Forall (fun f => forall x nx, wf_ty f = true -> wf f x = true -> lenN (ser f x) < 2 ^ 32 -> mk f x = Ok nx -> deser_ok f x nx) fs ->
  (forall p, In p (cparts fs vs) -> lenN (snd p) < 2 ^ 32) ->
  F3 (fun f x n => deser_ok f x n /\ min_impl f <= lenN (ser f x) <= max_impl f /\
                   (is_fixed f = true -> lenN (ser f x) = min_impl f)) fs vs ns.
Proof.
  induction 1 as [|f x n fs vs ns (Htf & Hx & Hm) HF IH]; intros Hall Hb; [constructor|].
  inversion Hall as [|? ? Hf Hfs]; subst. cbn [cparts] in Hb. constructor.
  - split; [apply Hf; auto; apply (Hb (is_fixed f, ser f x)); now left|].
    rewrite min_impl_eq, max_impl_eq. pose proof (ser_len_bounds f x Htf Hx). split; [lia|].
    intros Hfx. rewrite (ser_len_fixed f x Htf Hx Hfx). destruct (fixed_min_eq_fsize f Hfx). lia.
  - apply IH; [exact Hfs|]. intros p Hp. apply Hb. now right.
Qed.

Lemma all_fixed_no_var : forall fs vs off, forallb is_fixed fs = true -> snd (ser_go (cparts fs vs) off) = [].
Proof.
  induction fs as [|f fs IH]; intros vs off Hf; [reflexivity|]. destruct vs as [|x vs]; [reflexivity|].
  cbn [forallb] in Hf. apply andb_true_iff in Hf as [Hf1 Hf2]. cbn [cparts ser_go]. rewrite Hf1.
  specialize (IH vs off Hf2). destruct (ser_go (cparts fs vs) off). cbn [snd] in *. exact IH.
Qed.

Lemma cdyn_nonempty : forall fs vs ns off (P : ty -> val -> node -> Prop), F3 P fs vs ns -> forallb is_fixed fs = false -> cdyn fs vs off <> [].
Proof.
  induction 1 as [|f x n fs vs ns _ HF IH]; intros Hf; [discriminate|].
  cbn [forallb] in Hf. cbn [cdyn]. destruct (is_fixed f); [|discriminate]. cbn [andb] in Hf. now apply IH.
Qed.

Lemma deser_container fs vs n :
  wf_ty (TContainer fs) = true ->
  Forall (fun f => forall x nx, wf_ty f = true -> wf f x = true -> lenN (ser f x) < 2 ^ 32 -> mk f x = Ok nx -> deser_ok f x nx) fs ->
  wf (TContainer fs) (VCont vs) = true -> lenN (ser (TContainer fs) (VCont vs)) < 2 ^ 32 ->
  mk (TContainer fs) (VCont vs) = Ok n -> deser_ok (TContainer fs) (VCont vs) n.
Proof.
  intros Hty IH Hwf Hb32 Hmk sfx. pose proof Hty as Hty0. cbn [wf_ty] in Hty. apply andb_true_iff in Hty as [Hne Htys].
  cbn [wf] in Hwf. cbn [ModelViews.mk] in Hmk.
  match type of Hmk with (do ns <- ?G; _) = _ => destruct G as [ns|] eqn:Hgo; [|discriminate] end. cbn [bind] in Hmk.
  pose proof (mk_fields fs vs ns Hgo Hwf Htys) as HF0.
  rewrite ser_container in *. set (parts := cparts fs vs) in *.
  pose proof (ser_go_len parts (sumN (map fixed_part_len parts))) as [Hfl Hvl].
  assert (ser_parts parts = fst (ser_go parts (sumN (map fixed_part_len parts))) ++ snd (ser_go parts (sumN (map fixed_part_len parts)))) as Esp
    by (unfold ser_parts; destruct (ser_go parts (sumN (map fixed_part_len parts))); reflexivity).
  assert (lenN (ser_parts parts) = sumN (map fixed_part_len parts) + sumN (map var_part_len parts)) as Elen
    by (rewrite Esp, lenN_app, Hfl, Hvl; reflexivity).
  pose proof (fields_ok fs vs ns HF0 IH) as HF.
  specialize (HF ltac:(intros p Hp; pose proof (part_le_parts parts p Hp); lia)).
  rewrite deser_container_unfold. unfold cont_deser. rewrite is_fixed_impl_eq, min_impl_eq. cbn [is_fixed].
  destruct (forallb is_fixed fs) eqn:Efx.
  - (* fixed-size container *)
    assert (lenN (ser_parts parts) = min_len (TContainer fs)) as Hsc.
    { pose proof (ser_len_fixed (TContainer fs) (VCont vs) Hty0 Hwf Efx) as E1. rewrite ser_container in E1. fold parts in E1.
      destruct (fixed_min_eq_fsize (TContainer fs) Efx). lia. }
    rewrite Hsc, N.eqb_refl. cbn [negb]. rewrite Esp, <- app_assoc.
    rewrite (cfloop_ok fs vs ns).
    2:{ eapply F3_impl; [|exact HF]. intros f x n0 Hin _ (Hx & _ & Hl). rewrite forallb_forall in Efx. specialize (Efx f Hin). auto. }
    cbn [bind fst snd]. unfold parts. rewrite (all_fixed_no_var fs vs _ Efx). cbn [app]. rewrite Hmk. reflexivity.
  - (* variable-size container *)
    rewrite Elen. rewrite Esp, <- app_assoc.
    rewrite (cpass1_ok fs vs ns).
    2:{ eapply F3_impl; [|exact HF]. intros f x n0 _ _ (Hx & _ & Hl). auto. }
    2:{ pose proof (cdyn_bound fs vs (sumN (map fixed_part_len parts))) as Hbd. eapply Forall_impl; [|exact Hbd]. cbn. fold parts. intros o Ho. lia. }
    cbn [bind]. rewrite (cdyn_slots fs vs ns).
    2:{ eapply F3_impl; [|exact HF]. auto. }
    destruct (cdyn_head fs vs (sumN (map fixed_part_len parts))) as [[E1 _]|[tl0 E]];
      [exfalso; revert E1; apply (cdyn_nonempty fs vs ns _ _ HF Efx)|].
    rewrite E. rewrite N.add_0_l. fold parts. rewrite N.eqb_refl. cbn [negb]. rewrite <- E.
    rewrite (cpass2_ok _ fs vs ns).
    2:{ eapply F3_impl; [|exact HF]. intros f x n0 _ _ (Hx & Hb & _). auto. }
    2:{ fold parts. reflexivity. }
    cbn [bind fst snd]. rewrite Hmk. reflexivity.
Qed.

Lemma deser_union b os sel ov n :
  wf_ty (TUnion b os) = true ->
  Forall (fun f => forall x nx, wf_ty f = true -> wf f x = true -> lenN (ser f x) < 2 ^ 32 -> mk f x = Ok nx -> deser_ok f x nx) os ->
  wf (TUnion b os) (VUnion sel ov) = true -> lenN (ser (TUnion b os) (VUnion sel ov)) < 2 ^ 32 ->
  mk (TUnion b os) (VUnion sel ov) = Ok n -> deser_ok (TUnion b os) (VUnion sel ov) n.
Proof.
  intros Hty IH Hwf Hb32 Hmk sfx. cbn [wf_ty] in Hty. apply andb_true_iff in Hty as [Hty Hcount]. apply andb_true_iff in Hty as [Htys Hne].
  apply N.leb_le in Hcount. cbn [wf] in Hwf. cbn [ModelViews.mk] in Hmk.
  destruct (lenN os + (if b then 1 else 0) <=? N.of_nat sel) eqn:Hin; [discriminate|].
  assert (N.of_nat sel < 256) as Hs256 by (apply N.leb_gt in Hin; destruct b; lia).
  assert (le_val [byte_of_N (N.of_nat sel)] = N.of_nat sel) as Hsel by (apply (le_val_le_bytes 1); exact Hs256).
  cbn [Spec.ser] in *.
  destruct ov as [x|].
  - apply andb_true_iff in Hwf as [Hselok Hpick].
    assert ((b && (sel =? 0)%nat) = false) as Hbs.
    { destruct b; [|reflexivity]. cbn [andb negb] in *. destruct sel; [discriminate|reflexivity]. }
    rewrite Hbs in Hmk.
    set (i := if b then pred sel else sel) in *.
    assert (exists o, wf o x = true /\ wf_ty o = true /\
              (forall nx, wf o x = true -> lenN (ser o x) < 2 ^ 32 -> mk o x = Ok nx -> deser_ok o x nx) /\
              (forall (A : Type) (F : ty -> A) (dflt : A),
                 (fix pick (os : list ty) (i : nat) : A :=
                    match os, i with o :: _, O => F o | _ :: os', S i' => pick os' i' | [], _ => dflt end) os i = F o))
      as (o & Hwo & Hto & Hio & Hpk).
    { clear Hmk Hne Hcount Hselok Hin Hb32. clearbody i. revert i Hpick.
      induction IH as [|o os Ho Hos IHos]; intros i Hpick; [destruct i; discriminate|].
      cbn [forallb] in Htys. apply andb_true_iff in Htys as [Hto Htys].
      destruct i as [|i].
      - exists o. repeat split; auto.
      - destruct (IHos Htys i Hpick) as (o' & H1 & H2 & H4 & H5). exists o'. repeat split; auto. }
    rewrite (Hpk _ (fun o => mk o x) (Err EIndex)) in Hmk.
    rewrite (Hpk _ (fun o => ser o x) []) in *.
    destruct (mk o x) as [c|] eqn:Hc; [|discriminate]. cbn [bind] in Hmk. inversion Hmk; subst n. clear Hmk.
    rewrite lenN_cons in *.
    cbn [ModelCodec.deser_impl]. assert ((1 + lenN (ser o x) <? 1) = false) as -> by (apply N.ltb_ge; lia).
    change (read 1 ((byte_of_N (N.of_nat sel) :: ser o x) ++ sfx)) with ([byte_of_N (N.of_nat sel)], ser o x ++ sfx).
    cbv beta iota zeta. rewrite Hsel, Hin.
    assert ((b && (N.of_nat sel =? 0)) = false) as ->.
    { destruct b; [|reflexivity]. cbn [andb]. destruct sel; [cbn in Hbs; discriminate|]. apply N.eqb_neq. lia. }
    replace (N.to_nat (if b then N.of_nat sel - 1 else N.of_nat sel)) with i by (unfold i; destruct b; lia).
    rewrite (Hpk _ (fun o' => deser_impl o' (ser o x ++ sfx) (1 + lenN (ser o x) - 1)) (Err EIndex)).
    replace (1 + lenN (ser o x) - 1) with (lenN (ser o x)) by lia.
    rewrite (Hio c Hwo ltac:(lia) eq_refl sfx). reflexivity.
  - apply andb_true_iff in Hwf as [Hb Hsel0]. apply Nat.eqb_eq in Hsel0. subst b sel.
    cbn [andb Nat.eqb bind] in Hmk. inversion Hmk; subst n. clear Hmk.
    cbn [N.of_nat] in *. cbn [ModelCodec.deser_impl app].
    change (lenN [byte_of_N 0]) with 1. cbn [N.ltb N.compare Pos.compare Pos.compare_cont].
    change (read 1 (byte_of_N 0 :: sfx)) with ([byte_of_N 0], sfx). cbv beta iota zeta.
    rewrite Hsel, Hin. reflexivity.
Qed.

Lemma deser_uint k v n : wf_ty (TUint k) = true -> wf (TUint k) v = true -> mk (TUint k) v = Ok n -> deser_ok (TUint k) v n.
Proof.
  intros Hty Hwf Hmk sfx. destruct v; cbn [wf] in Hwf; try discriminate. apply N.ltb_lt in Hwf.
  assert (lenN (ser (TUint k) (VUint n0)) = k) as -> by (cbn [Spec.ser]; rewrite le_bytes_lenN; lia).
  rewrite (deser_uint_roundtrip H k n0 sfx Hty Hwf).
  cbn [ModelViews.mk mk_basic] in Hmk. apply N.ltb_lt in Hwf. rewrite Hwf in Hmk. cbn [bind] in Hmk. now inversion Hmk.
Qed.
Lemma deser_bool v n : wf TBool v = true -> mk TBool v = Ok n -> deser_ok TBool v n.
Proof.
  intros Hwf Hmk sfx. destruct v; cbn [wf] in Hwf; try discriminate.
  cbn [ModelViews.mk mk_basic bind] in Hmk. inversion Hmk; subst n. destruct b; reflexivity.
Qed.
Lemma deser_bytevector k bs n : wf (TByteVector k) (VBytes bs) = true -> mk (TByteVector k) (VBytes bs) = Ok n ->
  deser_ok (TByteVector k) (VBytes bs) n.
Proof.
  intros Hwf Hmk sfx. cbn [wf] in Hwf. cbn [ModelViews.mk] in Hmk. rewrite Hwf in Hmk. cbn [negb] in Hmk.
  cbn [Spec.ser ModelCodec.deser_impl]. rewrite N.eqb_sym, Hwf. cbn [negb]. apply N.eqb_eq in Hwf.
  rewrite (read_app_n k bs sfx Hwf). rewrite Hwf, N.eqb_refl. cbn [negb]. rewrite Hmk. reflexivity.
Qed.
Lemma deser_bytelist l bs n : wf (TByteList l) (VBytes bs) = true -> mk (TByteList l) (VBytes bs) = Ok n ->
  deser_ok (TByteList l) (VBytes bs) n.
Proof.
  intros Hwf Hmk sfx. cbn [wf] in Hwf. cbn [ModelViews.mk] in Hmk. apply N.leb_le in Hwf.
  assert ((l <? lenN bs) = false) as Hlt by (apply N.ltb_ge; exact Hwf). rewrite Hlt in Hmk.
  cbn [Spec.ser ModelCodec.deser_impl]. rewrite read_app, Hlt.
  destruct (fill_to_contents H (map RootN (pack_bytes bs)) (contents_depth (TByteList l))) as [c|]; [|discriminate].
  cbn [bind] in *. inversion Hmk. reflexivity.
Qed.

(* ---- chunk structure ---- *)
Lemma chunks_unfold (bs : bytes) : bs <> [] -> chunks bs = pad32 (firstn 32 bs) :: chunks (skipn 32 bs).
Proof.
  intros Hne. rewrite !chunks_group. rewrite (group_unfold 32 bs) by (lia || exact Hne). reflexivity.
Qed.
Lemma chunks_small (bs : bytes) : (0 < length bs <= 32)%nat -> chunks bs = [pad32 bs].
Proof. intros Hl. rewrite chunks_group, group_small by exact Hl. reflexivity. Qed.

Lemma chunks_app_full : forall (cs : list bytes) (q : bytes), Forall (fun c => length c = 32%nat) cs -> (length q <= 32)%nat ->
  chunks (concat cs ++ q) = cs ++ (match q with [] => [] | _ => [pad32 q] end).
Proof.
  induction cs as [|c cs IH]; intros q Hall Hq.
  - cbn [concat app]. destruct q as [|b q]; [reflexivity|]. apply chunks_small. cbn [length] in *. lia.
  - inversion Hall as [|? ? Hc Hcs]; subst. cbn [concat]. rewrite <- app_assoc.
    rewrite chunks_unfold by (destruct c; [discriminate|discriminate]).
    rewrite firstn_app_exact, skipn_app_exact by exact Hc. rewrite pad32_full by exact Hc.
    cbn [app]. f_equal. now apply IH.
Qed.

(* the `while scope > 32` loop: all chunks but the last *)
Lemma rfc_spec : forall fuel (B sfx : bytes), (1 <= length B <= 32 * (fuel + 1))%nat ->
  exists cs lastp, read_full_chunks fuel (lenN B) (B ++ sfx) = (map RootN cs, lenN lastp, lastp ++ sfx) /\
    (1 <= length lastp <= 32)%nat /\ B = concat cs ++ lastp /\ Forall (fun c => length c = 32%nat) cs.
Proof.
  induction fuel as [|fuel IH]; intros B sfx Hl.
  - exists [], B. cbn [read_full_chunks map concat app]. repeat split; try lia. constructor.
  - cbn [read_full_chunks]. destruct (32 <? lenN B) eqn:Hlt.
    + apply N.ltb_lt in Hlt. unfold lenN in Hlt.
      assert (read 32 (B ++ sfx) = (firstn 32 B, skipn 32 B ++ sfx)) as ->.
      { unfold read. change (N.to_nat 32) with 32%nat. rewrite firstn_app, skipn_app.
        replace (32 - length B)%nat with 0%nat by lia. cbn [firstn skipn]. now rewrite app_nil_r. }
      destruct (IH (skipn 32 B) sfx) as (cs & lastp & Hr & Hlp & HB & Hcs); [rewrite skipn_length; lia|].
      assert (lenN B - 32 = lenN (skipn 32 B)) as -> by (unfold lenN; rewrite skipn_length; lia).
      rewrite Hr. exists (firstn 32 B :: cs), lastp. cbn [map concat]. repeat split; try lia.
      * rewrite <- app_assoc, <- HB. now rewrite firstn_skipn.
      * constructor; [rewrite firstn_length; lia|exact Hcs].
    + apply N.ltb_ge in Hlt. unfold lenN in Hlt. exists [], B. cbn [map concat app]. repeat split; try lia. constructor.
Qed.

Lemma last_byte_split (cs : list bytes) (lastp p : bytes) (z : byte) :
  (1 <= length lastp)%nat -> concat cs ++ lastp = p ++ [z] ->
  exists lp', lastp = lp' ++ [z] /\ p = concat cs ++ lp'.
Proof.
  intros Hl E. destruct (exists_last (l := lastp)) as (lp' & z' & ->); [intros ->; cbn in Hl; lia|].
  rewrite app_assoc in E. apply app_inj_tail in E as [E1 E2]. subst z'. exists lp'. auto.
Qed.

Lemma deser_bitvector k bs n : wf_ty (TBitvector k) = true -> wf (TBitvector k) (VBits bs) = true ->
  mk (TBitvector k) (VBits bs) = Ok n -> deser_ok (TBitvector k) (VBits bs) n.
Proof.
  intros Hty Hwf Hmk sfx. cbn [wf] in Hwf. cbn [ModelViews.mk] in Hmk. rewrite Hwf in Hmk. cbn [negb] in Hmk. apply N.eqb_eq in Hwf.
  cbn [wf_ty] in Hty. apply andb_true_iff in Hty as [Hk1 Hkb]. apply N.leb_le in Hk1.
  rewrite pack_bits_chunks in Hmk. cbn [Spec.ser]. set (B := bits_to_bytes bs) in *.
  pose proof (bits_to_bytes_lenN bs) as HB. fold B in HB.
  cbn [ModelCodec.deser_impl]. rewrite HB, Hwf, N.eqb_refl. cbn [negb].
  assert (lenN B = (k + 7) / 8) as HBk by (rewrite HB, Hwf; reflexivity). rewrite <- HBk.
  destruct (rfc_spec (N.to_nat (lenN B / 32)) B sfx) as (cs & lastp & Hr & Hlp & HBs & Hcs).
  { unfold lenN in *. lia. }
  rewrite Hr. rewrite read_app.
  destruct (bits_last_group bs) as (a & t & Ebs & Ht & Ha & Hbytes); [unfold lenN in Hwf; lia|]. fold B in Hbytes.
  destruct (last_byte_split cs lastp _ _ (proj1 Hlp) (eq_trans (eq_sym HBs) Hbytes)) as (lp' & -> & HP).
  replace (N.to_nat (lenN (lp' ++ [bits_byte t]) - 1)) with (length lp') by (unfold lenN; rewrite app_length; cbn [length]; lia).
  rewrite nth_error_app2, Nat.sub_diag by lia. cbn [nth_error].
  assert ((k <? (lenN B - 1) * 8 + bit_length_byte (bits_byte t)) = false) as ->.
  { apply N.ltb_ge. pose proof (bits_byte_size t (proj2 Ht)) as Hsz.
    assert (lenN bs = N.of_nat (length a + length t)) as El by (rewrite Ebs; unfold lenN; now rewrite app_length).
    unfold lenN in *. lia. }
  assert (cs ++ [pad32 (lp' ++ [bits_byte t])] = chunks B) as Ech.
  { rewrite HBs. rewrite chunks_app_full by (exact Hcs || lia). destruct (lp' ++ [bits_byte t]) eqn:E; [destruct lp'; discriminate|reflexivity]. }
  rewrite <- Ech, map_app in Hmk. cbn [map] in Hmk. rewrite Hmk. reflexivity.
Qed.

Lemma pad32_snoc_zero (l : bytes) : (length l < 32)%nat -> pad32 (l ++ [x00]) = pad32 l.
Proof.
  intros Hl. unfold pad32, pad_to, zero_bytes. rewrite app_length. cbn [length].
  replace (32 - length l)%nat with (S (32 - (length l + 1))) by lia. cbn [repeat]. now rewrite <- app_assoc.
Qed.

Lemma deser_bitlist l bs n : wf_ty (TBitlist l) = true -> wf (TBitlist l) (VBits bs) = true ->
  mk (TBitlist l) (VBits bs) = Ok n -> deser_ok (TBitlist l) (VBits bs) n.
Proof.
  intros Hty Hwf Hmk sfx. cbn [wf] in Hwf. cbn [ModelViews.mk] in Hmk. apply N.leb_le in Hwf.
  assert ((l <? lenN bs) = false) as Hlt by (apply N.ltb_ge; exact Hwf). rewrite Hlt in Hmk.
  rewrite pack_bits_chunks in Hmk. cbn [Spec.ser]. set (B := bits_to_bytes (bs ++ [true])).
  pose proof (bits_to_bytes_lenN (bs ++ [true])) as HB. fold B in HB. rewrite lenN_app in HB. change (lenN [true]) with 1 in HB.
  cbn [ModelCodec.deser_impl].
  assert ((lenN B <? 1) = false) as -> by (apply N.ltb_ge; lia).
  assert (((l + 7 + 1) / 8 <? lenN B) = false) as -> by (apply N.ltb_ge; lia).
  destruct (rfc_spec (N.to_nat (lenN B / 32)) B sfx) as (cs & lastp & Hr & Hlp & HBs & Hcs).
  { unfold lenN in *. lia. }
  rewrite Hr. rewrite read_app.
  destruct (delimiter_split bs) as (ba & t & Ht & Hba & HB1 & HB0). fold B in HB1.
  pose proof (Nat.mod_upper_bound (length bs) 8 ltac:(lia)) as Hm.
  destruct (last_byte_split cs lastp _ _ (proj1 Hlp) (eq_trans (eq_sym HBs) HB1)) as (lp' & -> & HP).
  replace (N.to_nat (lenN (lp' ++ [bits_byte (t ++ [true])]) - 1)) with (length lp') by (unfold lenN; rewrite app_length; cbn [length]; lia).
  rewrite nth_error_app2, Nat.sub_diag by lia. cbn [nth_error].
  destruct (bits_byte_delim t ltac:(lia)) as (Hnz & Hsz & Hxor). rewrite Hnz, Hsz.
  assert ((lenN B - 1) * 8 + N.of_nat (length t) = lenN bs) as Ebl.
  { pose proof (Nat.div_mod (length bs) 8 ltac:(lia)). unfold lenN in *. lia. }
  rewrite Ebl, Hlt.
  rewrite firstn_app_exact by reflexivity. rewrite Hxor.
  assert ((if lenN bs mod 256 =? 0 then map RootN cs else map RootN cs ++ [RootN (pad32 (lp' ++ [bits_byte t]))])
          = map RootN (chunks (bits_to_bytes bs))) as ->.
  { rewrite HB0, HP. assert (length lp' <= 31)%nat as Hl31 by (destruct Hlp as [_ Hl2]; rewrite app_length in Hl2; cbn [length] in Hl2; lia).
    assert (length ba = length (concat cs) + length lp')%nat as Hlba by (rewrite HP, app_length; reflexivity).
    rewrite (concat_uniform_length 32 cs Hcs) in Hlba.
    destruct t as [|b0 t0] eqn:Et.
    - (* no partial last group *)
      rewrite app_nil_r. cbn [length] in Ht.
      rewrite chunks_app_full by (exact Hcs || lia).
      destruct (lenN bs mod 256 =? 0) eqn:E256.
      + apply N.eqb_eq in E256. assert (lp' = []) as -> by (destruct lp'; [reflexivity|exfalso; cbn [length] in *; unfold lenN in E256; pose proof (Nat.div_mod (length bs) 8 ltac:(lia)); lia]).
        now rewrite app_nil_r.
      + apply N.eqb_neq in E256. destruct lp' as [|b1 lp1] eqn:Elp.
        * exfalso. cbn [length] in *. unfold lenN in E256. pose proof (Nat.div_mod (length bs) 8 ltac:(lia)). lia.
        * rewrite map_app. cbn [map]. change (bits_byte []) with x00. rewrite pad32_snoc_zero by (cbn [length] in *; lia). reflexivity.
    - rewrite <- Et in *. assert (length t <> 0)%nat as Htne by (rewrite Et; discriminate).
      assert ((lenN bs mod 256 =? 0) = false) as -> by (apply N.eqb_neq; unfold lenN; lia).
      rewrite <- app_assoc. rewrite chunks_app_full by (exact Hcs || (rewrite app_length; cbn [length]; lia)).
      rewrite map_app. destruct (lp' ++ [bits_byte t]) eqn:E; [destruct lp'; discriminate|reflexivity]. }
  destruct (fill_to_contents H (map RootN (chunks (bits_to_bytes bs))) (contents_depth (TBitlist l))) as [c|]; [|discriminate].
  cbn [bind] in *. inversion Hmk. reflexivity.
Qed.

(* ---- the round trip, every type ---- *)
Theorem deser_constructed : forall t v n, wf_ty t = true -> wf t v = true -> lenN (ser t v) < 2 ^ 32 ->
  mk t v = Ok n -> deser_ok t v n.
Proof.
  induction t as [k| |nn|l|nn|l|e nn IHe|e l IHe|fs Hfs|b os Hos] using ty_ind'; intros v n0 Hty Hwf Hb Hmk.
  - now apply deser_uint.
  - now apply deser_bool.
  - destruct v; try (cbn [wf] in Hwf; discriminate). now apply deser_bitvector.
  - destruct v; try (cbn [wf] in Hwf; discriminate). now apply deser_bitlist.
  - destruct v; try (cbn [wf] in Hwf; discriminate). now apply deser_bytevector.
  - destruct v; try (cbn [wf] in Hwf; discriminate). now apply deser_bytelist.
  - destruct v; try (cbn [wf] in Hwf; discriminate).
    apply deser_vector; auto. intros x nx Hx Hbx Hmx. apply IHe; auto.
    cbn [wf_ty] in Hty. apply andb_true_iff in Hty as [Hty _]. now apply andb_true_iff in Hty as [Hte _].
  - destruct v; try (cbn [wf] in Hwf; discriminate).
    apply deser_list; auto. intros x nx Hx Hbx Hmx. apply IHe; auto.
    cbn [wf_ty] in Hty. now apply andb_true_iff in Hty as [Hte _].
  - destruct v; try (cbn [wf] in Hwf; discriminate).
    apply deser_container; auto.
  - destruct v; try (cbn [wf] in Hwf; discriminate).
    apply deser_union; auto.
Qed.

(* every well-formed value can be constructed, encoded and decoded back to the very same backing *)
Corollary roundtrip_total : forall t v, wf_ty t = true -> wf t v = true -> lenN (ser t v) < 2 ^ 32 ->
  exists n, mk t v = Ok n /\ root H n = htr H t v /\
    (forall sfx, deser_impl t (ser t v ++ sfx) (lenN (ser t v)) = Ok (n, sfx)) /\
    decode_bytes H t (ser t v) = Ok n.
Proof.
  intros t v Hty Hwf Hb. destruct (mk_root H t v Hty Hwf) as (n & Hn & Hr). exists n. split; [exact Hn|]. split; [exact Hr|].
  pose proof (deser_constructed t v n Hty Hwf Hb Hn) as Hd. split; [exact Hd|].
  unfold decode_bytes. specialize (Hd []). rewrite app_nil_r in Hd. rewrite Hd. reflexivity.
Qed.

End WithHash.
