(* PartialViews.v — C17 at view level: every model view operation (element / field read and write, append, pop, bit read / write, Bitlist append / pop, union selector / value) that succeeds on a partial tree succeeds on the complete tree with the same data and again related (equally rooted) nodes, so operations compose into histories.  Premises: collision-free pair hash (for expanding writes), materialised complete tree. *)
Require Import RM.Base RM.Gindex RM.Tree RM.TreeProofs RM.Types RM.Spec RM.ModelViews RM.ModelCodec RM.ModelMut RM.PartialProofs.
From Coq Require Import ZifyBool ZifyNat ZifyN.
Local Open Scope N_scope.
Section WithHash.
Variable H : bytes -> bytes -> bytes.
Variable src : bytes -> option (bytes * bytes).
Notation root := (root H).
Notation getter := (getter src).
Notation setter_below := (setter_below H src).
Notation setter := (setter H src).
Notation summ := (summ H).
Notation zero_hash := (zero_hash H).
Notation zero_node := (zero_node H).
Notation Hinj := (Hinj H).
(* ---- the primitives, with the results again related (so that operations compose) ---- *)
Lemma novirt_set_below e : forall p n v n', novirt n -> novirt v -> setter_below e n p v = Ok n' -> novirt n'.
Proof.
  induction p as [|b p IH]; intros n v n' Hn Hv Hs; cbn [Tree.setter_below] in Hs; [inversion Hs; subst; exact Hv|].
  destruct (children src n) as [[l r]|] eqn:Hc.
  - destruct n as [r0|nl nr|r0]; cbn in Hc, Hn; try discriminate; try contradiction. inversion Hc; subst l r. destruct Hn as [Hl Hr].
    apply rebuild_ok in Hs as (c & Hc' & ->). destruct b; cbn; split; auto; [exact (IH nr v c Hr Hv Hc')|exact (IH nl v c Hl Hv Hc')].
  - destruct (e && bytes_eqb (root n) (zero_hash (length (b :: p)))); [|discriminate].
    apply rebuild_ok in Hs as (c & Hc' & ->). assert (novirt (zero_node (length p))) as Hz by exact I.
    destruct b; cbn; split; auto; exact (IH (zero_node (length p)) v c Hz Hv Hc').
Qed.

Lemma expand_zero_summ (Hi : Hinj) : forall p c v, novirt c -> root c = zero_hash (length p) ->
  exists c' z', setter_below true c p v = Ok c' /\ setter_below true (zero_node (length p)) p v = Ok z' /\ summ z' c'.
Proof.
  induction p as [|b p IH]; intros c v Hnv Hr.
  - exists v, v. repeat split. constructor.
  - destruct (expand_zero_ok H src (b :: p) v) as (z' & Hz'). pose proof Hz' as Hz''.
    cbn [Tree.setter_below length] in Hz'. unfold Tree.zero_node at 1 2 in Hz'.
    cbn [Tree.children Tree.root] in Hz'. rewrite bytes_eqb_rfl in Hz'. cbn [andb] in Hz'.
    fold (zero_node (length p)) in Hz'. apply rebuild_ok in Hz' as (zc & Hzc & Ez').
    destruct c as [r0|cl cr|r0]; cbn in Hnv; try contradiction.
    + cbn [Tree.root] in Hr. subst r0. exists z', z'. repeat split; try exact Hz''. constructor.
    + destruct Hnv as [Hnl Hnr]. cbn [Tree.root length Tree.zero_hash] in Hr. apply Hi in Hr as [Hrl Hrr].
      cbn [Tree.setter_below Tree.children].
      destruct (IH (if b then cr else cl) v ltac:(destruct b; assumption) ltac:(destruct b; assumption))
        as (c' & z2 & Hc' & Hz2 & Hsc).
      rewrite Hc'. cbn [rebuild]. rewrite Hz2 in Hzc. inversion Hzc; subst zc.
      exists (if b then PairN cl c' else PairN c' cr), z'. repeat split; [exact Hz''|].
      subst z'. unfold Tree.zero_node. destruct b; constructor; auto.
      * rewrite <- Hrl. constructor.
      * rewrite <- Hrr. constructor.
Qed.

Theorem summ_set_expand_s (Hi : Hinj) : forall p n m v n', novirt m -> summ n m ->
  setter_below true n p v = Ok n' -> exists m', setter_below true m p v = Ok m' /\ summ n' m'.
Proof.
  induction p as [|b p IH]; intros n m v n' Hnv Hs Hset.
  - cbn in *. inversion Hset; subst. exists n'. split; [reflexivity|constructor].
  - inversion Hs as [n0|m0|l r l' r' Hl Hr]; subst.
    + exists n'. split; [exact Hset|constructor].
    + pose proof Hset as Hset0. cbn [Tree.setter_below Tree.children Tree.root] in Hset.
      destruct (bytes_eqb (root m) (zero_hash (length (b :: p)))) eqn:E; [|discriminate].
      apply bytes_eqb_eq in E.
      destruct (expand_zero_summ Hi (b :: p) m v Hnv E) as (c' & z' & Hc' & Hz' & Hsz).
      exists c'. split; [exact Hc'|].
      (* the partial tree's write is literally the write on the zero summary of that height *)
      assert (setter_below true (RootN (root m)) (b :: p) v = setter_below true (zero_node (length (b :: p))) (b :: p) v) as Eq.
      { unfold Tree.zero_node. rewrite E. reflexivity. }
      rewrite Eq, Hz' in Hset0. inversion Hset0; subst. exact Hsz.
    + cbn in Hnv. destruct Hnv as [Hnl Hnr]. cbn [Tree.setter_below Tree.children] in *.
      apply rebuild_ok in Hset as (c & Hc & ->). destruct b.
      * destruct (IH r r' v c Hnr Hr Hc) as (c' & Hc' & Hsc). rewrite Hc'. cbn [rebuild]. eexists; split; [reflexivity|now constructor].
      * destruct (IH l l' v c Hnl Hl Hc) as (c' & Hc' & Hsc). rewrite Hc'. cbn [rebuild]. eexists; split; [reflexivity|now constructor].
Qed.

Hypothesis Hi : Hinj.

Lemma summ_setter e p n m v n' : novirt m -> summ n m -> setter e n p v = Ok n' ->
  exists m', setter e m p v = Ok m' /\ summ n' m'.
Proof.
  intros Hnv Hs Hset. apply setter_as_below in Hset.
  assert (exists m', setter_below e m p v = Ok m' /\ summ n' m') as (m' & Hm' & Hsm).
  { destruct e; [now apply (summ_set_expand_s Hi p n m v n')|now apply (summ_set_below H src p n m v n')]. }
  exists m'. split; [|exact Hsm]. rewrite setter_unfold. destruct p as [|b p]; [exact Hm'|]. destruct m; try exact Hm'. cbn in Hnv. contradiction.
Qed.

Lemma novirt_setter e p n v n' : novirt n -> novirt v -> setter e n p v = Ok n' -> novirt n'.
Proof. intros Hn Hv Hs. apply setter_as_below in Hs. now apply (novirt_set_below e p n v n'). Qed.

Lemma summ_children n m l r : summ n m -> children src n = Some (l, r) ->
  exists l' r', children src m = Some (l', r') /\ summ l l' /\ summ r r'.
Proof.
  intros Hs Hc. inversion Hs as [n0|m0|a b a' b' Ha Hb]; subst.
  - exists l, r. repeat split; auto; constructor.
  - discriminate.
  - cbn in Hc. inversion Hc; subst. exists a', b'. repeat split; auto.
Qed.

Lemma novirt_children' m l r : novirt m -> children src m = Some (l, r) -> novirt l /\ novirt r.
Proof. destruct m; cbn; intros Hn E; try discriminate; try contradiction. inversion E; subst; exact Hn. Qed.

Notation getter_i := (getter_i src).
Notation getter_g := (getter_g src).
Notation setter_i := (setter_i H src).
Notation setter_g := (setter_g H src).
Notation mixin_value := (mixin_value H src).

Lemma summ_getter_g n m g x : summ n m -> getter_g n g = Ok x -> exists y, getter_g m g = Ok y /\ summ x y.
Proof. unfold Tree.getter_g. destruct (path_of_gindex g); [apply summ_get|discriminate]. Qed.
Lemma summ_getter_i n m i d x : summ n m -> getter_i n i d = Ok x -> exists y, getter_i m i d = Ok y /\ summ x y.
Proof.
  unfold ModelCodec.getter_i. intros Hs Hg. destruct (to_gindex i d) as [g|]; [|discriminate]. cbn [bind] in *. now apply (summ_getter_g n m g x).
Qed.
Lemma summ_setter_g e n m g v n' : novirt m -> summ n m -> setter_g e n g v = Ok n' -> exists m', setter_g e m g v = Ok m' /\ summ n' m'.
Proof. unfold Tree.setter_g. destruct (path_of_gindex g); [apply summ_setter|discriminate]. Qed.
Lemma summ_setter_i e n m i d v n' : novirt m -> summ n m -> setter_i e n i d v = Ok n' -> exists m', setter_i e m i d v = Ok m' /\ summ n' m'.
Proof.
  unfold ModelMut.setter_i. intros Hnv Hs Hg. destruct (to_gindex i d) as [g|]; [|discriminate]. cbn [bind] in *. now apply (summ_setter_g e n m g v n').
Qed.
Lemma novirt_setter_g e n g v n' : novirt n -> novirt v -> setter_g e n g v = Ok n' -> novirt n'.
Proof. unfold Tree.setter_g. destruct (path_of_gindex g); [apply novirt_setter|discriminate]. Qed.
Lemma novirt_setter_i e n i d v n' : novirt n -> novirt v -> setter_i e n i d v = Ok n' -> novirt n'.
Proof. unfold ModelMut.setter_i. intros Hn Hv Hs. destruct (to_gindex i d) as [g|]; [|discriminate]. cbn [bind] in Hs. now apply (novirt_setter_g e n g v n'). Qed.

Lemma summ_mixin n m k : summ n m -> mixin_value n = Ok k -> mixin_value m = Ok k.
Proof.
  unfold ModelCodec.mixin_value, get_right. intros Hs Hm. destruct (children src n) as [[l r]|] eqn:Hc; [|discriminate].
  destruct (summ_children n m l r Hs Hc) as (l' & r' & Hc' & _ & Hr). rewrite Hc'. cbn [bind] in *. now rewrite <- (summ_root H r r' Hr).
Qed.
Lemma summ_rebind_right n m v n' : summ n m -> rebind_right src n v = Ok n' -> exists m', rebind_right src m v = Ok m' /\ summ n' m'.
Proof.
  unfold rebind_right. intros Hs Hm. destruct (children src n) as [[l r]|] eqn:Hc; [|discriminate].
  destruct (summ_children n m l r Hs Hc) as (l' & r' & Hc' & Hl & _). rewrite Hc'. inversion Hm; subst. eexists; split; [reflexivity|]. constructor; [exact Hl|constructor].
Qed.
Lemma summ_get_left n m x : summ n m -> get_left src n = Ok x -> exists y, get_left src m = Ok y /\ summ x y.
Proof.
  unfold get_left. intros Hs Hm. destruct (children src n) as [[l r]|] eqn:Hc; [|discriminate].
  destruct (summ_children n m l r Hs Hc) as (l' & r' & Hc' & Hl & _). rewrite Hc'. inversion Hm; subst. eauto.
Qed.
Lemma novirt_rebind_right m v m' : novirt m -> novirt v -> rebind_right src m v = Ok m' -> novirt m'.
Proof.
  unfold rebind_right. intros Hn Hv Hm. destruct (children src m) as [[l r]|] eqn:Hc; [|discriminate].
  destruct (novirt_children' m l r Hn Hc). inversion Hm; subst. split; auto.
Qed.
Lemma summ_summarize_g n m g n' : novirt m -> summ n m -> summarize_into_g H src n g = Ok n' ->
  exists m', summarize_into_g H src m g = Ok m' /\ summ n' m'.
Proof.
  unfold summarize_into_g, summarize_into. intros Hnv Hs Hm. destruct (path_of_gindex g) as [p|]; [|discriminate].
  destruct (getter n p) as [x|] eqn:Hg; [|discriminate]. cbn [bind] in Hm.
  destruct (summ_get H src p n m x Hs Hg) as (y & Hy & Hxy). rewrite Hy. cbn [bind]. rewrite <- (summ_root H x y Hxy).
  now apply (summ_setter false p n m _ n').
Qed.

(* ---- view operations: whatever succeeds on the partial tree succeeds on the complete tree, with the same data and
   related (hence equally rooted) nodes ---- *)
Notation view_len := (view_len H src).
Notation check_index := (check_index H src).
Notation sub_get := (sub_get H src).
Notation sub_set := (sub_set H src).
Notation view_get := (view_get H src).
Notation view_set := (view_set H src).

Lemma summ_view_len t n m k : summ n m -> view_len t n = Ok k -> view_len t m = Ok k.
Proof. intros Hs. destruct t; cbn [ModelCodec.view_len]; auto; now apply summ_mixin. Qed.

Lemma summ_check_index t n m i k : summ n m -> check_index t n i = Ok k -> check_index t m i = Ok k.
Proof.
  intros Hs. unfold ModelMut.check_index. destruct t; auto;
    (destruct (view_len _ n) as [ll|] eqn:Hl; [|discriminate]; rewrite (summ_view_len _ n m ll Hs Hl); auto).
Qed.

Lemma summ_sub_get t n m i x : summ n m -> sub_get t n i = Ok x -> exists y, sub_get t m i = Ok y /\ summ x y.
Proof.
  intros Hs. unfold ModelMut.sub_get. destruct (elem_ty t i) as [e|]; [|discriminate]. cbn [bind].
  destruct (match t with TContainer _ => None | _ => basic_size e end) as [sz|].
  - destruct (getter_i n (i / elems_per_chunk sz) (tree_depth t)) as [c|] eqn:Hg; [|discriminate]. cbn [bind].
    destruct (summ_getter_i _ m _ _ c Hs Hg) as (c' & Hg' & Hc). rewrite Hg'. cbn [bind].
    assert (packed_elem_bytes H e c' (i mod elems_per_chunk sz) = packed_elem_bytes H e c (i mod elems_per_chunk sz)) as ->.
    { unfold packed_elem_bytes. now rewrite (summ_root H c c' Hc). }
    destruct (packed_elem_bytes H e c (i mod elems_per_chunk sz)); [|discriminate]. cbn [bind]. intros E; inversion E; subst. eexists; split; [reflexivity|constructor].
  - now apply summ_getter_i.
Qed.

Lemma summ_sub_set t n m i x n' : novirt m -> summ n m -> sub_set t n i x = Ok n' -> exists m', sub_set t m i x = Ok m' /\ summ n' m'.
Proof.
  intros Hnv Hs. unfold ModelMut.sub_set. destruct (elem_ty t i) as [e|]; [|discriminate]. cbn [bind].
  destruct (match t with TContainer _ => None | _ => basic_size e end) as [sz|].
  - destruct (setter_i false n (i / elems_per_chunk sz) (tree_depth t) (RootN zero32)) as [pr|] eqn:Hp; [|discriminate]. cbn [bind].
    destruct (summ_setter_i false n m _ _ _ pr Hnv Hs Hp) as (pr' & Hp' & _). rewrite Hp'. cbn [bind].
    destruct (getter_i n (i / elems_per_chunk sz) (tree_depth t)) as [c|] eqn:Hg; [|discriminate]. cbn [bind].
    destruct (summ_getter_i _ m _ _ c Hs Hg) as (c' & Hg' & Hc). rewrite Hg'. cbn [bind]. rewrite <- (summ_root H c c' Hc).
    now apply summ_setter_i.
  - now apply summ_setter_i.
Qed.

Theorem summ_view_get t n m i x : summ n m -> view_get t n i = Ok x -> exists y, view_get t m i = Ok y /\ summ x y.
Proof.
  intros Hs. unfold ModelMut.view_get. destruct (check_index t n i) as [k|] eqn:Hk; [|discriminate]. rewrite (summ_check_index t n m i k Hs Hk). cbn [bind].
  now apply summ_sub_get.
Qed.
Theorem summ_view_set t n m i x n' : novirt m -> summ n m -> view_set t n i x = Ok n' -> exists m', view_set t m i x = Ok m' /\ summ n' m'.
Proof.
  intros Hnv Hs. unfold ModelMut.view_set. destruct (check_index t n i) as [k|] eqn:Hk; [|discriminate]. rewrite (summ_check_index t n m i k Hs Hk). cbn [bind].
  now apply summ_sub_set.
Qed.

Notation list_append := (list_append H src).
Notation list_pop := (list_pop H src).
Notation bits_get := (bits_get H src).
Notation bits_set := (bits_set H src).
Notation bitlist_append := (bitlist_append H src).
Notation bitlist_pop := (bitlist_pop H src).
Notation summarize_up := (summarize_up H src).

Lemma summ_summarize_up n m g n' : novirt m -> summ n m -> summarize_up n g = Ok n' -> exists m', summarize_up m g = Ok m' /\ summ n' m'.
Proof. unfold ModelMut.summarize_up. apply summ_summarize_g. Qed.

(* one simulation step: destruct the next primitive call on the partial tree in Hop, transport it to the complete tree *)
Ltac sim_mixin Hop :=
  match type of Hop with context [mixin_value ?n] =>
    match goal with Hs : summ n ?m |- _ =>
      let ll := fresh "ll" in let Hl := fresh "Hl" in
      destruct (mixin_value n) as [ll|] eqn:Hl; [|cbn [bind] in Hop; discriminate Hop]; cbn [bind] in Hop;
      rewrite (summ_mixin n m ll Hs Hl); cbn [bind]
    end end.
Ltac sim_seti Hop :=
  match type of Hop with context [setter_i ?e ?n ?i ?d ?v] =>
    match goal with Hs : summ n ?m, Hnv : novirt ?m |- _ =>
      let nb := fresh "nb" in let Hnb := fresh "Hnb" in
      destruct (setter_i e n i d v) as [nb|] eqn:Hnb; [|cbn [bind] in Hop; discriminate Hop]; cbn [bind] in Hop;
      let mb := fresh "mb" in let Hmb := fresh "Hmb" in let Hsb := fresh "Hsb" in
      destruct (summ_setter_i e n m i d v nb Hnv Hs Hnb) as (mb & Hmb & Hsb); rewrite Hmb; cbn [bind]
    end end.
Ltac sim_setg Hop :=
  match type of Hop with context [setter_g ?e ?n ?g ?v] =>
    match goal with Hs : summ n ?m, Hnv : novirt ?m |- _ =>
      let nb := fresh "nb" in let Hnb := fresh "Hnb" in
      destruct (setter_g e n g v) as [nb|] eqn:Hnb; [|cbn [bind] in Hop; discriminate Hop]; cbn [bind] in Hop;
      let mb := fresh "mb" in let Hmb := fresh "Hmb" in let Hsb := fresh "Hsb" in
      destruct (summ_setter_g e n m g v nb Hnv Hs Hnb) as (mb & Hmb & Hsb); rewrite Hmb; cbn [bind]
    end end.
Ltac sim_geti Hop :=
  match type of Hop with context [getter_i ?n ?i ?d] =>
    match goal with Hs : summ n ?m |- _ =>
      let c := fresh "c" in let Hg := fresh "Hg" in
      destruct (getter_i n i d) as [c|] eqn:Hg; [|cbn [bind] in Hop; discriminate Hop]; cbn [bind] in Hop;
      let c' := fresh "c'" in let Hg' := fresh "Hg'" in let Hc := fresh "Hc" in
      destruct (summ_getter_i n m i d c Hs Hg) as (c' & Hg' & Hc); rewrite Hg'; cbn [bind]; rewrite <- ?(summ_root H c c' Hc)
    end end.
Ltac sim_getg Hop :=
  match type of Hop with context [getter_g ?n ?g] =>
    match goal with Hs : summ n ?m |- _ =>
      let c := fresh "c" in let Hg := fresh "Hg" in
      destruct (getter_g n g) as [c|] eqn:Hg; [|cbn [bind] in Hop; discriminate Hop]; cbn [bind] in Hop;
      let c' := fresh "c'" in let Hg' := fresh "Hg'" in let Hc := fresh "Hc" in
      destruct (summ_getter_g n m g c Hs Hg) as (c' & Hg' & Hc); rewrite Hg'; cbn [bind]; rewrite <- ?(summ_root H c c' Hc)
    end end.

Theorem summ_list_append t n m x n' : novirt m -> summ n m -> list_append t n x = Ok n' ->
  exists m', list_append t m x = Ok m' /\ summ n' m'.
Proof.
  intros Hnv Hs Hop. unfold ModelMut.list_append in *. destruct t; try discriminate.
  sim_mixin Hop. destruct (limit <=? ll); [discriminate|]. cbv zeta in *.
  destruct (basic_size t) as [s0|].
  - destruct (ll mod elems_per_chunk s0 =? 0).
    + sim_seti Hop. now apply (summ_rebind_right nb mb).
    + sim_seti Hop. sim_geti Hop. sim_seti Hop. now apply (summ_rebind_right nb0 mb0).
  - sim_seti Hop. now apply (summ_rebind_right nb mb).
Qed.

Theorem summ_list_pop t n m n' : novirt m -> summ n m -> list_pop t n = Ok n' -> exists m', list_pop t m = Ok m' /\ summ n' m'.
Proof.
  intros Hnv Hs Hop. unfold ModelMut.list_pop in *. destruct t; try discriminate.
  sim_mixin Hop. destruct (ll =? 0); [discriminate|]. cbv zeta in *.
  destruct (basic_size t) as [s0|].
  - destruct (to_gindex ((ll - 1) / elems_per_chunk s0) (tree_depth (TList t limit))) as [g|]; [|discriminate]. cbn [bind] in *.
    destruct ((ll - 1) mod elems_per_chunk s0 =? 0) eqn:E0; cbn [bind] in *.
    + sim_setg Hop. assert (novirt mb) as Hnb' by (match type of Hmb with setter_g _ _ _ ?v = _ => exact (novirt_setter_g false m g v mb Hnv I Hmb) end).
      destruct (N.even g && true) eqn:Ee; cbn [bind] in *.
      * destruct (summarize_up nb g) as [nb2|] eqn:Hs2; [|discriminate]. cbn [bind] in Hop.
        destruct (summ_summarize_up nb mb g nb2 Hnb' Hsb Hs2) as (mb2 & Hm2 & Hsb2). rewrite Hm2. cbn [bind]. now apply (summ_rebind_right nb2 mb2).
      * now apply (summ_rebind_right nb mb).
    + sim_getg Hop. sim_setg Hop. assert (novirt mb) as Hnb' by (match type of Hmb with setter_g _ _ _ ?v = _ => exact (novirt_setter_g false m g v mb Hnv I Hmb) end).
      rewrite andb_false_r in *. cbn [bind] in *. now apply (summ_rebind_right nb mb).
  - destruct (to_gindex (ll - 1) (tree_depth (TList t limit))) as [g|]; [|discriminate]. cbn [bind] in *.
    sim_setg Hop. assert (novirt mb) as Hnb' by (match type of Hmb with setter_g _ _ _ ?v = _ => exact (novirt_setter_g false m g v mb Hnv I Hmb) end).
    destruct (N.even g) eqn:Ee; cbn [bind] in *.
    + destruct (summarize_up nb g) as [nb2|] eqn:Hs2; [|discriminate]. cbn [bind] in Hop.
      destruct (summ_summarize_up nb mb g nb2 Hnb' Hsb Hs2) as (mb2 & Hm2 & Hsb2). rewrite Hm2. cbn [bind]. now apply (summ_rebind_right nb2 mb2).
    + now apply (summ_rebind_right nb mb).
Qed.

Lemma summ_bits_len t n m k : summ n m -> bits_len H src t n = Ok k -> bits_len H src t m = Ok k.
Proof. intros Hs. destruct t; cbn [ModelMut.bits_len]; auto. now apply summ_mixin. Qed.

Theorem summ_bits_get t n m i b : summ n m -> bits_get t n i = Ok b -> bits_get t m i = Ok b.
Proof.
  intros Hs Hop. unfold ModelMut.bits_get in *.
  destruct (bits_len H src t n) as [ll|] eqn:Hl; [|discriminate]. rewrite (summ_bits_len t n m ll Hs Hl). cbn [bind] in *.
  destruct ((i <? 0)%Z || (Z.of_N ll <=? i)%Z); [discriminate|]. cbv zeta in *.
  destruct (getter_i n (Z.to_N i / 256) (tree_depth t)) as [c|] eqn:Hg; [|destruct t; discriminate].
  destruct (summ_getter_i n m _ _ c Hs Hg) as (c' & Hg' & Hc). rewrite Hg'. now rewrite <- (summ_root H c c' Hc).
Qed.

Theorem summ_bits_set t n m i v n' : novirt m -> summ n m -> bits_set t n i v = Ok n' -> exists m', bits_set t m i v = Ok m' /\ summ n' m'.
Proof.
  intros Hnv Hs Hop. unfold ModelMut.bits_set in *.
  destruct (bits_len H src t n) as [ll|] eqn:Hl; [|discriminate]. rewrite (summ_bits_len t n m ll Hs Hl). cbn [bind] in *.
  destruct ((i <? 0)%Z || (Z.of_N ll <=? i)%Z); [discriminate|]. cbv zeta in *.
  match type of Hop with match ?A with _ => _ end = _ => destruct A as [r|] eqn:Hr; [|destruct t; discriminate] end.
  inversion Hop; subst r. clear Hop.
  sim_seti Hr. sim_geti Hr. sim_seti Hr. inversion Hr; subst. eauto.
Qed.

Theorem summ_bitlist_append t n m v n' : novirt m -> summ n m -> bitlist_append t n v = Ok n' -> exists m', bitlist_append t m v = Ok m' /\ summ n' m'.
Proof.
  intros Hnv Hs Hop. unfold ModelMut.bitlist_append in *. destruct t; try discriminate.
  sim_mixin Hop. destruct (limit <=? ll); [discriminate|]. cbv zeta in *.
  destruct (ll mod 256 =? 0).
  - sim_seti Hop. now apply (summ_rebind_right nb mb).
  - sim_seti Hop. sim_geti Hop. sim_seti Hop. now apply (summ_rebind_right nb0 mb0).
Qed.

Theorem summ_bitlist_pop t n m n' : novirt m -> summ n m -> bitlist_pop t n = Ok n' -> exists m', bitlist_pop t m = Ok m' /\ summ n' m'.
Proof.
  intros Hnv Hs Hop. unfold ModelMut.bitlist_pop in *. destruct t; try discriminate.
  sim_mixin Hop. destruct (ll =? 0); [discriminate|]. cbv zeta in *.
  destruct (to_gindex ((ll - 1) / 256) (tree_depth (TBitlist limit))) as [g|]; [|discriminate]. cbn [bind] in *.
  destruct ((ll - 1) mod 256 =? 0) eqn:E0; cbn [bind] in *.
  - sim_setg Hop. assert (novirt mb) as Hnb' by (match type of Hmb with setter_g _ _ _ ?v = _ => exact (novirt_setter_g false m g v mb Hnv I Hmb) end).
    destruct (N.even g && true) eqn:Ee; cbn [bind] in *.
    + destruct (summarize_up nb g) as [nb2|] eqn:Hs2; [|discriminate]. cbn [bind] in Hop.
      destruct (summ_summarize_up nb mb g nb2 Hnb' Hsb Hs2) as (mb2 & Hm2 & Hsb2). rewrite Hm2. cbn [bind]. now apply (summ_rebind_right nb2 mb2).
    + now apply (summ_rebind_right nb mb).
  - sim_setg Hop. sim_getg Hop. sim_setg Hop. rewrite andb_false_r in *. cbn [bind] in *. now apply (summ_rebind_right nb0 mb0).
Qed.

Theorem summ_union_selector t n m k : summ n m -> union_selector H src t n = Ok k -> union_selector H src t m = Ok k.
Proof.
  intros Hs Hop. unfold ModelMut.union_selector in *. destruct t; try discriminate. sim_mixin Hop. exact Hop.
Qed.

Theorem summ_union_value t n m r : summ n m -> union_value H src t n = Ok r ->
  match r with
  | None => union_value H src t m = Ok None
  | Some (o, x) => exists y, union_value H src t m = Ok (Some (o, y)) /\ summ x y
  end.
Proof.
  intros Hs Hop. unfold ModelMut.union_value in *. destruct t; try discriminate.
  destruct (get_left src n) as [vn|] eqn:Hgl; [|discriminate]. cbn [bind] in Hop.
  destruct (summ_get_left n m vn Hs Hgl) as (vm & Hgm & Hv). rewrite Hgm. cbn [bind].
  destruct (union_selector H src (TUnion none0 opts) n) as [sel|] eqn:Hsel; [|discriminate]. cbn [bind] in Hop.
  rewrite (summ_union_selector _ n m sel Hs Hsel). cbn [bind].
  destruct (union_opt none0 opts (N.to_nat sel)) as [o|].
  - inversion Hop; subst. eauto.
  - rewrite <- (summ_root H vn vm Hv). destruct (bytes_eqb (root vn) zero32); [|discriminate]. inversion Hop; subst. reflexivity.
Qed.
End WithHash.
