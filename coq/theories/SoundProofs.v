(* SoundProofs.v — C09 / C10: whatever the decoder accepts is the specification's encoding of a
   well-formed value, and the tree it returns is exactly the tree the constructor builds for that
   value.  Hence: only canonical encodings are accepted, the result satisfies every invariant of
   its type, and re-encoding reproduces the input. *)
Require Import RM.Base RM.Gindex RM.Tree RM.TreeProofs RM.Types RM.Spec RM.ModelViews RM.ModelCodec
               RM.SerLen RM.FactsProofs RM.MerkleProofs RM.PackProofs RM.CtorProofs RM.PathProofs RM.CRepProofs
               RM.ListProofs RM.SerProofs RM.CodecBasicProofs RM.SerProofs2 RM.BitProofs RM.ChunkProofs RM.DeserProofs RM.SerAll.
From Coq Require Import ZifyBool ZifyNat ZifyN.
Local Open Scope N_scope.

Lemma read_split (k : N) (s b s' : bytes) : k <= lenN s -> read k s = (b, s') -> s = b ++ s' /\ lenN b = k.
Proof.
  intros Hk Hr. unfold read in Hr. inversion Hr; subst. split; [now rewrite firstn_skipn|].
  unfold lenN in *. rewrite firstn_length. lia.
Qed.

Section WithHash.
Variable H : bytes -> bytes -> bytes.
Notation deser_impl := (deser_impl H).
Notation mk := (mk H).
Notation floop := (floop H).
Notation vloop := (vloop H).
Notation seq_build := (seq_build H).
Notation seq_deser := (seq_deser H).
Notation cfloop := (cfloop H).
Notation cpass1 := (cpass1 H).
Notation cpass2 := (cpass2 H).
Notation cont_deser := (cont_deser H).

Definition sound (t : ty) : Prop := forall s scope n rest,
  deser_impl t s scope = Ok (n, rest) -> scope <= lenN s ->
  exists v, wf t v = true /\ mk t v = Ok n /\ lenN (ser t v) = scope /\ s = ser t v ++ rest.

Lemma sound_uint k : wf_ty (TUint k) = true -> sound (TUint k).
Proof.
  intros Hty s scope n rest Hd Hsc. cbn [ModelCodec.deser_impl] in Hd.
  destruct (k =? scope) eqn:E; cbn [negb] in Hd; [|discriminate]. apply N.eqb_eq in E. subst scope.
  destruct (read k s) as [b s'] eqn:Hr. inversion Hd; subst n rest. clear Hd.
  destruct (read_split k s b s' Hsc Hr) as [Es Hl].
  assert (length b = N.to_nat k) as Hlb by (unfold lenN in Hl; lia).
  exists (VUint (le_val b)).
  assert (le_val b < 2 ^ (8 * k)) as Hb.
  { pose proof (le_val_bound b) as Hb. rewrite Hlb, N2Nat.id in Hb. change 256 with (2 ^ 8) in Hb. now rewrite <- N.pow_mul_r in Hb. }
  split; [cbn [wf]; now apply N.ltb_lt|]. split.
  - cbn [ModelViews.mk mk_basic]. apply N.ltb_lt in Hb. rewrite Hb. reflexivity.
  - cbn [Spec.ser]. rewrite <- Hlb, le_bytes_le_val. split; [exact Hl|exact Es].
Qed.

Lemma sound_bool : sound TBool.
Proof.
  intros s scope n rest Hd Hsc. pose proof Hd as Hd0.
  destruct (deser_bool_canonical H (fun _ => None) s scope n rest Hd) as (-> & b & -> & _).
  exists (VBool b). split; [reflexivity|]. split; [|split; [destruct b; reflexivity|destruct b; reflexivity]].
  destruct b; cbn in Hd0; inversion Hd0; reflexivity.
Qed.

Lemma sound_bytevector k : sound (TByteVector k).
Proof.
  intros s scope n rest Hd Hsc. cbn [ModelCodec.deser_impl] in Hd.
  destruct (k =? scope) eqn:E; cbn [negb] in Hd; [|discriminate]. apply N.eqb_eq in E. subst scope.
  destruct (read k s) as [b s'] eqn:Hr. destruct (read_split k s b s' Hsc Hr) as [Es Hl].
  rewrite Hl, N.eqb_refl in Hd. cbn [negb] in Hd.
  destruct (fill_to_contents H (map RootN (pack_bytes b)) (contents_depth (TByteVector k))) as [nd|] eqn:Hf; [|discriminate].
  cbn [bind] in Hd. inversion Hd; subst nd rest.
  exists (VBytes b). cbn [wf ModelViews.mk Spec.ser]. rewrite Hl, N.eqb_refl. cbn [negb]. auto.
Qed.

Lemma sound_bytelist l : sound (TByteList l).
Proof.
  intros s scope n rest Hd Hsc. cbn [ModelCodec.deser_impl] in Hd.
  destruct (read scope s) as [b s'] eqn:Hr. destruct (read_split scope s b s' Hsc Hr) as [Es Hl].
  destruct (l <? lenN b) eqn:Hlt; [discriminate|].
  destruct (fill_to_contents H (map RootN (pack_bytes b)) (contents_depth (TByteList l))) as [c|] eqn:Hf; [|discriminate].
  cbn [bind] in Hd. inversion Hd; subst n rest.
  exists (VBytes b). cbn [wf ModelViews.mk Spec.ser]. rewrite Hlt, Hf. cbn [bind].
  split; [apply N.leb_le; apply N.ltb_ge in Hlt; lia|]. auto.
Qed.

Lemma Forall2_seq_res {A B} (f : A -> result B) : forall (l : list A) (rs : list B),
  Forall2 (fun x y => f x = Ok y) l rs -> seq_res (map f l) = Ok rs.
Proof. induction 1 as [|x y l rs Hx _ IH]; [reflexivity|]. cbn [map seq_res]. rewrite Hx, IH. reflexivity. Qed.

Lemma floop_step e ebl k s : floop e ebl (S k) s =
  do x <- deser_impl e s ebl; do r <- floop e ebl k (snd x); Ok (fst x :: fst r, snd r).
Proof. reflexivity. Qed.
Lemma vloop_step e emin emax a b tl s : vloop e emin emax (a :: b :: tl) s =
  if b <? a then Err EOther
  else if negb ((emin <=? b - a) && (b - a <=? emax)) then Err EOther
       else do x <- deser_impl e s (b - a); do r <- vloop e emin emax (b :: tl) (snd x); Ok (fst x :: fst r, snd r).
Proof. reflexivity. Qed.

(* fixed-size elements, read back to back *)
Lemma floop_sound (e : ty) (ebl : N) : sound e -> forall k s ns rest,
  floop e ebl k s = Ok (ns, rest) -> N.of_nat k * ebl <= lenN s ->
  exists vs, length vs = k /\ Forall2 (fun x n => wf e x = true /\ mk e x = Ok n /\ lenN (ser e x) = ebl) vs ns /\
             s = concat (map (ser e) vs) ++ rest.
Proof.
  intros He. induction k as [|k IH]; intros s ns rest Hl Hlen.
  - cbn in Hl. inversion Hl; subst. exists []. repeat split. constructor.
  - rewrite floop_step in Hl.
    destruct (deser_impl e s ebl) as [[n1 s1]|] eqn:Hd; [|discriminate]. cbn [bind fst snd] in Hl.
    destruct (floop e ebl k s1) as [[ns1 r1]|] eqn:Hk; [|discriminate]. cbn [bind fst snd] in Hl. inversion Hl; subst ns rest.
    destruct (He s ebl n1 s1 Hd ltac:(lia)) as (v1 & Hw1 & Hm1 & Hl1 & Es).
    destruct (IH s1 ns1 r1 Hk) as (vs & Hlv & HF & Es1).
    { rewrite Es, lenN_app in Hlen. lia. }
    exists (v1 :: vs). cbn [length map concat]. split; [lia|]. split; [constructor; auto|].
    rewrite <- app_assoc, <- Es1. exact Es.
Qed.

(* offsets read from the stream *)
Lemma decode_offset_sound s o s1 : 4 <= lenN s -> decode_offset s = (o, s1) -> s = le_bytes 4 o ++ s1.
Proof.
  intros Hl Hd. unfold decode_offset in Hd. destruct (read 4 s) as [b s'] eqn:Hr. inversion Hd; subst o s1.
  destruct (read_split 4 s b s' Hl Hr) as [Es Hb]. rewrite Es. f_equal.
  assert (length b = 4%nat) as Hlb by (unfold lenN in Hb; lia). rewrite <- Hlb. now rewrite le_bytes_le_val.
Qed.
Lemma rd_sound : forall k s offs s2, 4 * N.of_nat k <= lenN s -> rdloop k s = (offs, s2) ->
  s = concat (map (le_bytes 4) offs) ++ s2 /\ length offs = k.
Proof.
  induction k as [|k IH]; intros s offs s2 Hl Hr.
  - cbn in Hr. inversion Hr; subst. split; reflexivity.
  - unfold rdloop in Hr. fold rdloop in Hr. destruct (decode_offset s) as [o s'] eqn:Ho.
    destruct (rdloop k s') as [os s''] eqn:Hk. inversion Hr; subst offs s2.
    pose proof (decode_offset_sound s o s' ltac:(lia) Ho) as Es.
    destruct (IH s' os s'') as [Es' Hlen]; [rewrite Es, lenN_app, le_bytes_lenN in Hl; lia|exact Hk|].
    cbn [map concat length]. rewrite <- app_assoc, <- Es'. split; [exact Es|lia].
Qed.

(* consecutive offsets are checked to be non-decreasing *)
Fixpoint mono (l : list N) : Prop :=
  match l with a :: ((b :: _) as r) => a <= b /\ mono r | _ => True end.
Lemma vloop_mono e emin emax : forall offs s r, vloop e emin emax offs s = Ok r -> mono offs.
Proof.
  induction offs as [|a offs IH]; intros s r Hv; [exact I|]. destruct offs as [|b offs]; [exact I|].
  rewrite vloop_step in Hv.
  destruct (b <? a) eqn:Hlt; [discriminate|]. apply N.ltb_ge in Hlt.
  destruct (negb ((emin <=? b - a) && (b - a <=? emax))); [discriminate|].
  destruct (deser_impl e s (b - a)) as [[n1 s1]|]; [|discriminate]. cbn [bind fst snd] in Hv.
  destruct (vloop e emin emax (b :: offs) s1) as [r1|] eqn:Hr; [|discriminate].
  split; [exact Hlt|]. exact (IH s1 r1 Hr).
Qed.
Lemma mono_last : forall l a d, mono (a :: l) -> a <= last (a :: l) d.
Proof.
  induction l as [|b l IH]; intros a d Hm; [cbn; lia|]. destruct Hm as [Hab Hm]. specialize (IH b d Hm).
  change (last (a :: b :: l) d) with (last (b :: l) d). lia.
Qed.
Lemma vloop_sound (e : ty) (emin emax : N) : sound e -> forall tl start s ns rest,
  vloop e emin emax (start :: tl) s = Ok (ns, rest) -> mono (start :: tl) ->
  last (start :: tl) 0 - start <= lenN s ->
  exists vs, Forall2 (fun x n => wf e x = true /\ mk e x = Ok n) vs ns /\
             s = concat (map (ser e) vs) ++ rest /\
             start :: tl = var_offsets start (map (fun x => lenN (ser e x)) vs) ++ [start + sumN (map (fun x => lenN (ser e x)) vs)].
Proof.
  intros He. induction tl as [|b tl IH]; intros start s ns rest Hv Hm Hlast.
  - cbn in Hv. inversion Hv; subst. exists []. split; [constructor|]. split; [reflexivity|].
    cbn. unfold sumN. cbn. now rewrite N.add_0_r.
  - rewrite vloop_step in Hv. destruct Hm as [Hab Hm].
    destruct (b <? start) eqn:Hlt; [discriminate|].
    destruct (negb ((emin <=? b - start) && (b - start <=? emax))); [discriminate|].
    destruct (deser_impl e s (b - start)) as [[n1 s1]|] eqn:Hd; [|discriminate]. cbn [bind fst snd] in Hv.
    destruct (vloop e emin emax (b :: tl) s1) as [[ns1 r1]|] eqn:Hr; [|discriminate]. cbn [bind fst snd] in Hv.
    inversion Hv; subst ns rest. clear Hv.
    pose proof (mono_last tl b 0 Hm) as Hbl. change (last (start :: b :: tl) 0) with (last (b :: tl) 0) in Hlast.
    destruct (He s (b - start) n1 s1 Hd ltac:(lia)) as (v1 & Hw1 & Hm1 & Hl1 & Es).
    destruct (IH b s1 ns1 r1 Hr Hm) as (vs & HF & Es1 & Eoffs).
    { rewrite Es, lenN_app in Hlast. lia. }
    exists (v1 :: vs). split; [constructor; auto|]. cbn [map concat var_offsets]. split.
    + rewrite <- app_assoc, <- Es1. exact Es.
    + rewrite Hl1. replace (start + (b - start)) with b by lia. cbn [app]. f_equal.
      rewrite Eoffs. f_equal. f_equal. unfold sumN. cbn [fold_right]. lia.
Qed.
Notation seq_nodes := (seq_nodes H).

Lemma forallb_Forall2_l {A B} (p : A -> bool) (Q : A -> B -> Prop) l r :
  Forall2 (fun x y => p x = true /\ Q x y) l r -> forallb p l = true /\ Forall2 Q l r.
Proof. induction 1 as [|x y l r [Hp Hq] _ [IH1 IH2]]; [split; [reflexivity|constructor]|]. cbn [forallb]. rewrite Hp, IH1. split; [reflexivity|now constructor]. Qed.

Lemma Forall2_imp {A B} (P Q : A -> B -> Prop) l r : (forall x y, P x y -> Q x y) -> Forall2 P l r -> Forall2 Q l r.
Proof. intros HPQ. induction 1; constructor; auto. Qed.

Lemma seq_deser_sound (t e : ty) (valid : N -> bool) s scope n rest :
  wf_ty e = true -> sound e -> seq_deser t e valid s scope = Ok (n, rest) -> scope <= lenN s ->
  exists vs ns, forallb (wf e) vs = true /\ valid (lenN vs) = true /\ seq_res (map (mk e) vs) = Ok ns /\
    seq_nodes t e ns (lenN vs) = Ok n /\
    lenN (ser_parts (map (fun x => (is_fixed e, ser e x)) vs)) = scope /\
    s = ser_parts (map (fun x => (is_fixed e, ser e x)) vs) ++ rest.
Proof.
  intros Hte He Hd Hsc. unfold DeserProofs.seq_deser in Hd. rewrite is_fixed_impl_eq, min_impl_eq, max_impl_eq in Hd.
  destruct (is_fixed e) eqn:Efx.
  - destruct (fixed_min_eq_fsize e Efx) as [Emin _]. rewrite Emin in Hd. pose proof (fsize_pos e Hte Efx) as Hpos.
    destruct (scope mod fsize e =? 0) eqn:Emod; cbn [negb] in Hd; [|discriminate]. apply N.eqb_eq in Emod.
    set (count := scope / fsize e) in *.
    assert (scope = count * fsize e) as Esc by (unfold count; pose proof (N.div_mod scope (fsize e) ltac:(lia)); lia).
    destruct (valid count) eqn:Hvalid; cbn [negb] in Hd; [|discriminate].
    destruct (floop e (fsize e) (N.to_nat count) s) as [[els s']|] eqn:Hfl; [|discriminate]. cbn [bind] in Hd.
    destruct (floop_sound e (fsize e) He (N.to_nat count) s els s' Hfl ltac:(lia)) as (vs & Hlv & HF & Es).
    assert (lenN vs = count) as Hcount by (unfold lenN; lia).
    assert (Forall2 (fun x n0 => wf e x = true /\ (mk e x = Ok n0 /\ lenN (ser e x) = fsize e)) vs els) as HF' by exact HF.
    apply forallb_Forall2_l in HF' as [Hall HF2].
    assert (seq_res (map (mk e) vs) = Ok els) as Hns.
    { apply Forall2_seq_res. eapply Forall2_imp; [|exact HF2]. cbn. tauto. }
    destruct (ser_fixed_seq e vs Hte Efx Hall) as [Es1 El1].
    exists vs, els. split; [exact Hall|]. split; [now rewrite Hcount|]. split; [exact Hns|].
    rewrite Hcount. unfold DeserProofs.seq_nodes.
    split.
    { destruct (basic_size e); match type of Hd with (do nd <- ?X; _) = _ => destruct X as [nd|]; [|discriminate] end;
        cbn [bind] in Hd; inversion Hd; reflexivity. }
    rewrite Es1, El1, Hcount. split; [lia|].
    match type of Hd with (do nd <- ?X; _) = _ => destruct X as [nd|]; [|discriminate] end. cbn [bind] in Hd. injection Hd as E1 E2. rewrite <- E2. exact Es.
  - assert (basic_size e = None) as Eb by (destruct e; cbn in Efx |- *; congruence).
    destruct (scope =? 0) eqn:E0.
    + apply N.eqb_eq in E0. subst scope. destruct (valid 0) eqn:Hv0; [|discriminate].
      destruct (default_node H t) as [nd|] eqn:Hdn; [|discriminate]. cbn [bind] in Hd. inversion Hd; subst nd rest.
      exists [], []. cbn [map forallb]. split; [reflexivity|]. split; [exact Hv0|]. split; [reflexivity|].
      unfold DeserProofs.seq_nodes. rewrite Eb. unfold DeserProofs.seq_build. split; [exact Hdn|]. split; reflexivity.
    + apply N.eqb_neq in E0. destruct (decode_offset s) as [first s1] eqn:Hdo.
      destruct (scope <? first) eqn:Hsf; [discriminate|]. apply N.ltb_ge in Hsf.
      destruct (first mod 4 =? 0) eqn:Em4; cbn [negb] in Hd; [|discriminate]. apply N.eqb_eq in Em4.
      set (count := first / 4) in *.
      assert (first = 4 * count) as Efirst by (unfold count; pose proof (N.div_mod first 4 ltac:(lia)); lia).
      destruct (valid count) eqn:Hvalid; cbn [negb] in Hd; [|discriminate].
      destruct (count =? 0) eqn:Ec0; [discriminate|]. apply N.eqb_neq in Ec0.
      destruct (rdloop (N.to_nat (count - 1)) s1) as [offs s2] eqn:Hrd.
      destruct (vloop e (min_len e) (max_len e) (first :: offs ++ [scope]) s2) as [[els s']|] eqn:Hvl; [|discriminate].
      cbn [bind] in Hd.
      pose proof (decode_offset_sound s first s1 ltac:(lia) Hdo) as Es.
      destruct (rd_sound (N.to_nat (count - 1)) s1 offs s2) as [Es1 Hloffs]; [rewrite Es, lenN_app, le_bytes_lenN in Hsc; lia|exact Hrd|].
      pose proof (vloop_mono e _ _ _ _ _ Hvl) as Hmono.
      assert (last (first :: offs ++ [scope]) 0 = scope) as Hlast.
      { change (first :: offs ++ [scope]) with ((first :: offs) ++ [scope]). apply last_last. }
      destruct (vloop_sound e _ _ He (offs ++ [scope]) first s2 els s' Hvl Hmono) as (vs & HF & Es2 & Eoffs).
      { rewrite Hlast. rewrite Es, Es1, !lenN_app, le_bytes_lenN, lenN_offsets in Hsc. unfold lenN in Hsc at 1. rewrite Hloffs in Hsc. lia. }
      set (lens := map (fun x => lenN (ser e x)) vs) in *.
      change (first :: offs ++ [scope]) with ((first :: offs) ++ [scope]) in Eoffs.
      apply app_inj_tail in Eoffs as [Eoffs Escope].
      assert (lenN vs = count) as Hcount.
      { apply (f_equal (@length N)) in Eoffs. rewrite var_offsets_length in Eoffs. unfold lens in Eoffs. rewrite map_length in Eoffs.
        cbn [length] in Eoffs. unfold lenN. lia. }
      assert (Forall2 (fun x n0 => wf e x = true /\ mk e x = Ok n0) vs els) as HF' by exact HF.
      apply forallb_Forall2_l in HF' as [Hall HF2].
      pose proof (Forall2_seq_res (mk e) vs els HF2) as Hns.
      exists vs, els. split; [exact Hall|]. split; [now rewrite Hcount|]. split; [exact Hns|].
      rewrite Hcount. unfold DeserProofs.seq_nodes. rewrite Eb.
      match type of Hd with (do nd <- ?X; _) = _ => destruct X as [nd|] eqn:Hb; [|discriminate] end. cbn [bind] in Hd. inversion Hd; subst nd rest.
      split; [reflexivity|].
      assert (map (fun x => (false, ser e x)) vs = map (fun b => (false, b)) (map (ser e) vs)) as Eparts by now rewrite map_map.
      rewrite Eparts, ser_parts_var.
      assert (lenN (map (ser e) vs) = lenN vs) as Elv by (unfold lenN; now rewrite map_length). rewrite Elv, Hcount, <- Efirst.
      assert (map lenN (map (ser e) vs) = lens) as -> by (unfold lens; now rewrite map_map).
      rewrite <- Eoffs. cbn [map concat]. split.
      * rewrite !lenN_app, le_bytes_lenN, lenN_offsets, lenN_concat.
        assert (map lenN (map (ser e) vs) = lens) as -> by (unfold lens; now rewrite map_map).
        unfold lenN at 1. rewrite Hloffs. lia.
      * rewrite <- !app_assoc. rewrite <- Es2, <- Es1. exact Es.
Qed.
Lemma seq_nodes_mk (t e : ty) vs ns : wf_ty e = true -> vs <> [] -> seq_res (map (mk e) vs) = Ok ns ->
  seq_nodes t e ns (lenN vs) =
  do NS <- match basic_size e with
           | Some s => do xs <- seq_res (map (mk_basic e) vs); Ok (map RootN (pack_ints s xs))
           | None => seq_res (map (mk e) vs)
           end;
  do c <- fill_to_contents H NS (contents_depth t);
  Ok (match t with TList _ _ => PairN c (len_node (lenN vs)) | _ => c end).
Proof.
  intros Hte Hne Hns. unfold DeserProofs.seq_nodes. destruct (seq_res_map_ok (mk e) vs ns Hns) as [Hlen _].
  destruct (basic_size e) as [sz|] eqn:Eb.
  - rewrite (basic_nodes_values H e sz Hte Eb vs ns Hns). cbn [bind]. unfold DeserProofs.seq_build.
    destruct (map RootN (pack_ints sz (map (fun x => le_val (firstn (N.to_nat sz) (root H x))) ns))) as [|a r] eqn:Ep; [|reflexivity].
    exfalso. apply map_eq_nil in Ep. revert Ep. apply pack_ints_nonempty; [exact (basic_size_ok e sz Hte Eb)|].
    intros Em. apply map_eq_nil in Em. subst ns. destruct vs; [congruence|discriminate].
  - rewrite Hns. cbn [bind]. unfold DeserProofs.seq_build. destruct ns as [|a r]; [destruct vs; [congruence|discriminate]|reflexivity].
Qed.

Lemma sound_list e l : wf_ty (TList e l) = true -> sound e -> sound (TList e l).
Proof.
  intros Hty He s scope n rest Hd Hsc. cbn [wf_ty] in Hty. apply andb_true_iff in Hty as [Hte Hlb].
  rewrite deser_list_unfold in Hd.
  destruct (seq_deser_sound (TList e l) e _ s scope n rest Hte He Hd Hsc) as (vs & ns & Hall & Hvalid & Hns & Hnode & Hlen & Es).
  exists (VSeq vs). cbn [wf Spec.ser]. rewrite Hvalid, Hall. split; [reflexivity|]. split; [|split; [exact Hlen|exact Es]].
  cbn [ModelViews.mk]. destruct vs as [|x0 vs0] eqn:Evs.
  - cbn [map seq_res] in Hns. inversion Hns; subst ns. unfold DeserProofs.seq_nodes, DeserProofs.seq_build in Hnode.
    destruct (basic_size e); exact Hnode.
  - rewrite <- Evs in *. apply N.leb_le in Hvalid. assert ((l <? lenN vs) = false) as -> by (apply N.ltb_ge; exact Hvalid).
    rewrite (seq_nodes_mk (TList e l) e vs ns Hte ltac:(rewrite Evs; discriminate) Hns) in Hnode. exact Hnode.
Qed.

Lemma sound_vector e k : wf_ty (TVector e k) = true -> sound e -> sound (TVector e k).
Proof.
  intros Hty He s scope n rest Hd Hsc. cbn [wf_ty] in Hty. apply andb_true_iff in Hty as [Hty Hkb]. apply andb_true_iff in Hty as [Hte Hk1]. apply N.leb_le in Hk1.
  rewrite deser_vector_unfold in Hd.
  destruct (seq_deser_sound (TVector e k) e _ s scope n rest Hte He Hd Hsc) as (vs & ns & Hall & Hvalid & Hns & Hnode & Hlen & Es).
  exists (VSeq vs). cbn [wf Spec.ser]. rewrite Hvalid, Hall. split; [reflexivity|]. split; [|split; [exact Hlen|exact Es]].
  cbn [ModelViews.mk]. destruct vs as [|x0 vs0] eqn:Evs; [apply N.eqb_eq in Hvalid; unfold lenN in Hvalid; cbn in Hvalid; lia|].
  rewrite <- Evs in *. rewrite Hvalid. cbn [negb].
  rewrite (seq_nodes_mk (TVector e k) e vs ns Hte ltac:(rewrite Evs; discriminate) Hns) in Hnode.
  destruct (basic_size e); [destruct (seq_res (map (mk_basic e) vs)); cbn [bind] in *; [|discriminate]|destruct (seq_res (map (mk e) vs)); cbn [bind] in *; [|discriminate]];
    match type of Hnode with (do c <- ?X; _) = _ => destruct X; [|discriminate] end; cbn [bind] in Hnode; exact Hnode.
Qed.

(* ---- containers ---- *)
Definition dynof (slots : list (option node * N)) : list N :=
  map snd (filter (fun x : option node * N => match fst x with None => true | _ => false end) slots).

Inductive P1rel : list ty -> list (option node * N) -> list (option val) -> Prop :=
| P1_nil : P1rel [] [] []
| P1_fixed f n v fs slots pv : is_fixed f = true -> wf f v = true -> mk f v = Ok n -> lenN (ser f v) = min_impl f ->
    P1rel fs slots pv -> P1rel (f :: fs) ((Some n, 0) :: slots) (Some v :: pv)
| P1_var f o fs slots pv : is_fixed f = false -> P1rel fs slots pv -> P1rel (f :: fs) ((None, o) :: slots) (None :: pv).

Fixpoint p1bytes (fs : list ty) (slots : list (option node * N)) (pv : list (option val)) : bytes :=
  match fs, slots, pv with
  | f :: fs', _ :: slots', Some v :: pv' => ser f v ++ p1bytes fs' slots' pv'
  | f :: fs', (_, o) :: slots', None :: pv' => le_bytes 4 o ++ p1bytes fs' slots' pv'
  | _, _, _ => []
  end.
Definition need_len (fs : list ty) : N := sumN (map (fun f => if is_fixed f then min_impl f else OFFSET) fs).

Lemma cpass1_step f fs s fz : cpass1 (f :: fs) s fz =
  if is_fixed_impl f then
    do x <- deser_impl f s (min_impl f);
    do r <- cpass1 fs (snd x) (fz + min_impl f);
    let '(l, s', fz') := r in Ok ((Some (fst x), 0) :: l, s', fz')
  else
    let '(o, s1) := decode_offset s in
    do r <- cpass1 fs s1 (fz + OFFSET);
    let '(l, s', fz') := r in Ok ((None, o) :: l, s', fz').
Proof. reflexivity. Qed.

Lemma cpass1_sound : forall fs, Forall sound fs -> forall s fz slots s1 fz',
  cpass1 fs s fz = Ok (slots, s1, fz') -> need_len fs <= lenN s ->
  exists pv, P1rel fs slots pv /\ s = p1bytes fs slots pv ++ s1 /\ fz' = fz + need_len fs.
Proof.
  induction 1 as [|f fs Hf Hfs IH]; intros s fz slots s1 fz' Hp Hlen.
  - cbn in Hp. inversion Hp; subst. exists []. split; [constructor|]. split; [reflexivity|]. unfold need_len, sumN. cbn. lia.
  - rewrite cpass1_step, is_fixed_impl_eq in Hp. unfold need_len in *. cbn [map] in *.
    change (sumN (?a :: ?l)) with (a + sumN l) in *.
    destruct (is_fixed f) eqn:Ef.
    + destruct (deser_impl f s (min_impl f)) as [[n1 s']|] eqn:Hd; [|discriminate]. cbn [bind fst snd] in Hp.
      destruct (cpass1 fs s' (fz + min_impl f)) as [[[l s''] fz'']|] eqn:Hr; [|discriminate]. cbn [bind] in Hp. inversion Hp; subst slots s1 fz'.
      destruct (Hf s (min_impl f) n1 s' Hd ltac:(lia)) as (v & Hw & Hm & Hl & Es).
      destruct (IH s' _ l s'' fz'' Hr) as (pv & HP & Es' & Efz); [rewrite Es, lenN_app in Hlen; lia|].
      exists (Some v :: pv). split; [now constructor|]. cbn [p1bytes]. split; [rewrite <- app_assoc, <- Es'; exact Es|lia].
    + destruct (decode_offset s) as [o s'] eqn:Hdo.
      destruct (cpass1 fs s' (fz + OFFSET)) as [[[l s''] fz'']|] eqn:Hr; [|discriminate]. cbn [bind] in Hp. inversion Hp; subst slots s1 fz'.
      unfold OFFSET in *. pose proof (decode_offset_sound s o s' ltac:(lia) Hdo) as Es.
      destruct (IH s' _ l s'' fz'' Hr) as (pv & HP & Es' & Efz); [rewrite Es, lenN_app, le_bytes_lenN in Hlen; lia|].
      exists (None :: pv). split; [now constructor|]. cbn [p1bytes]. split; [rewrite <- app_assoc, <- Es'; exact Es|lia].
Qed.
Definition next_of (offs : list N) (scope : N) : N := match offs with o :: _ => o | [] => scope end.
Lemma cpass2_fixed scope f fs nd o slots offs s :
  cpass2 scope (f :: fs) ((Some nd, o) :: slots) offs s = do r <- cpass2 scope fs slots offs s; Ok (nd :: fst r, snd r).
Proof. reflexivity. Qed.
Lemma cpass2_var scope f fs fo slots offs s :
  cpass2 scope (f :: fs) ((None, fo) :: slots) offs s =
  if next_of (tl offs) scope <? fo then Err EOther
  else if negb ((min_impl f <=? next_of (tl offs) scope - fo) && (next_of (tl offs) scope - fo <=? max_impl f)) then Err EOther
       else do x <- deser_impl f s (next_of (tl offs) scope - fo);
            do r <- cpass2 scope fs slots (tl offs) (snd x);
            Ok (fst x :: fst r, snd r).
Proof. reflexivity. Qed.

Lemma hd_app_next (l : list N) scope : hd 0 (l ++ [scope]) = next_of l scope.
Proof. destruct l; reflexivity. Qed.
Lemma mono_cons a l : l <> [] -> mono (a :: l) <-> a <= hd 0 l /\ mono l.
Proof. destruct l as [|b l]; [congruence|]. intros _. reflexivity. Qed.

Lemma cpass2_mono scope : forall fs slots pv, P1rel fs slots pv -> forall s r,
  cpass2 scope fs slots (dynof slots) s = Ok r -> mono (dynof slots ++ [scope]).
Proof.
  induction 1 as [|f n v fs slots pv Hfx Hw Hm Hl HP IH|f o fs slots pv Hfx HP IH]; intros s r Hc.
  - exact I.
  - rewrite cpass2_fixed in Hc. change (dynof ((Some n, 0) :: slots)) with (dynof slots) in *.
    destruct (cpass2 scope fs slots (dynof slots) s) as [r1|] eqn:Hr; [|discriminate]. exact (IH s r1 Hr).
  - change (dynof ((None, o) :: slots)) with (o :: dynof slots) in *. rewrite cpass2_var in Hc. cbn [tl] in Hc.
    destruct (next_of (dynof slots) scope <? o) eqn:Hlt; [discriminate|]. apply N.ltb_ge in Hlt.
    destruct (negb _); [discriminate|].
    destruct (deser_impl f s _) as [[n1 s1]|]; [|discriminate]. cbn [bind fst snd] in Hc.
    destruct (cpass2 scope fs slots (dynof slots) s1) as [r1|] eqn:Hr; [|discriminate].
    cbn [app]. apply mono_cons; [destruct (dynof slots); discriminate|]. rewrite hd_app_next. split; [exact Hlt|exact (IH s1 r1 Hr)].
Qed.

Lemma mono_next_le (l : list N) scope : mono (l ++ [scope]) -> next_of l scope <= scope.
Proof.
  intros Hm. destruct l as [|a l]; [cbn; lia|]. cbn [next_of]. pose proof (mono_last (l ++ [scope]) a 0 Hm) as Hl.
  change (a :: l ++ [scope]) with ((a :: l) ++ [scope]) in Hl. rewrite last_last in Hl. exact Hl.
Qed.

Definition agree (pv : list (option val)) (vs : list val) : Prop :=
  Forall2 (fun p v => match p with Some v' => v' = v | None => True end) pv vs.

Lemma snd_ser_go_off : forall ps o1 o2, snd (ser_go ps o1) = snd (ser_go ps o2).
Proof.
  induction ps as [|[fx b] ps IH]; intros o1 o2; [reflexivity|]. cbn [ser_go]. destruct fx.
  - specialize (IH o1 o2). destruct (ser_go ps o1), (ser_go ps o2). exact IH.
  - specialize (IH (o1 + lenN b) (o2 + lenN b)). destruct (ser_go ps (o1 + lenN b)), (ser_go ps (o2 + lenN b)). cbn [snd] in *. now rewrite IH.
Qed.

Lemma cpass2_sound scope : forall fs slots pv, P1rel fs slots pv -> Forall sound fs -> forall s ns rest,
  cpass2 scope fs slots (dynof slots) s = Ok (ns, rest) -> mono (dynof slots ++ [scope]) ->
  scope - next_of (dynof slots) scope <= lenN s ->
  exists vs, F3 (fun f x n => wf f x = true /\ mk f x = Ok n) fs vs ns /\ agree pv vs /\
    s = snd (ser_go (cparts fs vs) 0) ++ rest /\
    dynof slots = cdyn fs vs (next_of (dynof slots) scope) /\
    scope = next_of (dynof slots) scope + sumN (map var_part_len (cparts fs vs)).
Proof.
  induction 1 as [|f n v fs slots pv Hfx Hw Hm Hl HP IH|f o fs slots pv Hfx HP IH]; intros Hs s ns rest Hc Hmono Hlen.
  - cbn in Hc. inversion Hc; subst. exists []. split; [constructor|]. split; [constructor|]. cbn. unfold sumN. cbn. split; [reflexivity|]. split; [reflexivity|lia].
  - inversion Hs as [|? ? Hf Hfs]; subst. rewrite cpass2_fixed in Hc. change (dynof ((Some n, 0) :: slots)) with (dynof slots) in *.
    destruct (cpass2 scope fs slots (dynof slots) s) as [[ns1 r1]|] eqn:Hr; [|discriminate]. cbn [bind fst snd] in Hc. inversion Hc; subst ns rest.
    destruct (IH Hfs s ns1 r1 Hr Hmono Hlen) as (vs & HF & Hag & Es & Ed & Esc).
    exists (v :: vs). split; [constructor; auto|]. split; [constructor; auto|].
    cbn [cparts ser_go cdyn map]. rewrite Hfx.
    destruct (ser_go (cparts fs vs) 0) as [fx vr] eqn:Eg. cbn [snd] in *.
    split; [exact Es|]. split; [exact Ed|].
    change (sumN (?a :: ?l)) with (a + sumN l). cbn [var_part_len fst]. lia.
  - inversion Hs as [|? ? Hf Hfs]; subst. change (dynof ((None, o) :: slots)) with (o :: dynof slots) in *.
    rewrite cpass2_var in Hc. cbn [tl] in Hc. cbn [next_of] in Hlen |- *.
    cbn [app] in Hmono. apply mono_cons in Hmono; [|destruct (dynof slots); discriminate]. rewrite hd_app_next in Hmono. destruct Hmono as [Hon Hmono].
    set (next := next_of (dynof slots) scope) in *.
    destruct (next <? o) eqn:Hlt; [discriminate|].
    destruct (negb _); [discriminate|].
    destruct (deser_impl f s (next - o)) as [[n1 s1]|] eqn:Hd; [|discriminate]. cbn [bind fst snd] in Hc.
    destruct (cpass2 scope fs slots (dynof slots) s1) as [[ns1 r1]|] eqn:Hr; [|discriminate]. cbn [bind fst snd] in Hc. inversion Hc; subst ns rest.
    pose proof (mono_next_le (dynof slots) scope Hmono) as Hns. fold next in Hns.
    destruct (Hf s (next - o) n1 s1 Hd ltac:(lia)) as (v1 & Hw1 & Hm1 & Hl1 & Es).
    destruct (IH Hfs s1 ns1 r1 Hr Hmono) as (vs & HF & Hag & Es1 & Ed & Esc).
    { fold next. rewrite Es, lenN_app in Hlen. lia. }
    fold next in Ed, Esc.
    exists (v1 :: vs). split; [constructor; auto|]. split; [constructor; auto|].
    cbn [cparts ser_go cdyn map]. rewrite Hfx.
    pose proof (snd_ser_go_off (cparts fs vs) (0 + lenN (ser f v1)) 0) as Eoff.
    destruct (ser_go (cparts fs vs) (0 + lenN (ser f v1))) as [fx vr] eqn:Eg. cbn [snd] in *.
    split; [rewrite <- app_assoc, Eoff, <- Es1; exact Es|].
    rewrite Hl1. replace (o + (next - o)) with next by lia. split; [now rewrite <- Ed|].
    change (sumN (?a :: ?l)) with (a + sumN l). cbn [var_part_len fst snd]. lia.
Qed.
Lemma cpass1_shape : forall fs s fz slots s1 fz', cpass1 fs s fz = Ok (slots, s1, fz') ->
  length slots = length fs /\ fz' = fz + need_len fs /\ (forallb is_fixed fs = false -> dynof slots <> []).
Proof.
  induction fs as [|f fs IH]; intros s fz slots s1 fz' Hp.
  - cbn in Hp. inversion Hp; subst. split; [reflexivity|]. split; [unfold need_len, sumN; cbn; lia|discriminate].
  - rewrite cpass1_step, is_fixed_impl_eq in Hp. unfold need_len in *. cbn [map forallb] in *.
    change (sumN (?a :: ?l)) with (a + sumN l) in *.
    destruct (is_fixed f) eqn:Ef.
    + destruct (deser_impl f s (min_impl f)) as [[n1 s']|]; [|discriminate]. cbn [bind fst snd] in Hp.
      destruct (cpass1 fs s' (fz + min_impl f)) as [[[l s''] fz'']|] eqn:Hr; [|discriminate]. cbn [bind] in Hp. inversion Hp; subst slots s1 fz'.
      destruct (IH _ _ _ _ _ Hr) as (Hl & Hfz & Hd). cbn [length andb]. split; [lia|]. split; [lia|exact Hd].
    + destruct (decode_offset s) as [o s'].
      destruct (cpass1 fs s' (fz + OFFSET)) as [[[l s''] fz'']|] eqn:Hr; [|discriminate]. cbn [bind] in Hp. inversion Hp; subst slots s1 fz'.
      destruct (IH _ _ _ _ _ Hr) as (Hl & Hfz & Hd). cbn [length]. split; [lia|]. split; [lia|]. intros _. discriminate.
Qed.

Lemma cpass2_mono' scope : forall fs slots, length slots = length fs -> forall s r,
  cpass2 scope fs slots (dynof slots) s = Ok r -> mono (dynof slots ++ [scope]).
Proof.
  induction fs as [|f fs IH]; intros slots Hl s r Hc; destruct slots as [|[[nd|] o] slots]; try discriminate; try exact I.
  - rewrite cpass2_fixed in Hc. change (dynof ((Some nd, o) :: slots)) with (dynof slots) in *.
    destruct (cpass2 scope fs slots (dynof slots) s) as [r1|] eqn:Hr; [|discriminate]. apply (IH slots ltac:(cbn in Hl; lia) s r1 Hr).
  - change (dynof ((None, o) :: slots)) with (o :: dynof slots) in *. rewrite cpass2_var in Hc. cbn [tl] in Hc.
    destruct (next_of (dynof slots) scope <? o) eqn:Hlt; [discriminate|]. apply N.ltb_ge in Hlt.
    destruct (negb _); [discriminate|].
    destruct (deser_impl f s _) as [[n1 s1]|]; [|discriminate]. cbn [bind fst snd] in Hc.
    destruct (cpass2 scope fs slots (dynof slots) s1) as [r1|] eqn:Hr; [|discriminate].
    cbn [app]. apply mono_cons; [destruct (dynof slots); discriminate|]. rewrite hd_app_next. split; [exact Hlt|].
    apply (IH slots ltac:(cbn in Hl; lia) s1 r1 Hr).
Qed.

Lemma p1bytes_eq : forall fs slots pv, P1rel fs slots pv -> forall vs off, agree pv vs -> dynof slots = cdyn fs vs off ->
  fst (ser_go (cparts fs vs) off) = p1bytes fs slots pv.
Proof.
  induction 1 as [|f n v fs slots pv Hfx Hw Hm Hl HP IH|f o fs slots pv Hfx HP IH]; intros vs off Hag Hd.
  - inversion Hag; subst. reflexivity.
  - inversion Hag as [|? v' ? vs' Ev Hag']; subst. change (dynof ((Some n, 0) :: slots)) with (dynof slots) in Hd.
    cbn [cparts ser_go cdyn p1bytes] in *. rewrite Hfx in *. specialize (IH vs' off Hag' Hd).
    destruct (ser_go (cparts fs vs') off). cbn [fst] in *. now rewrite IH.
  - inversion Hag as [|? v' ? vs' Ev Hag']; subst. change (dynof ((None, o) :: slots)) with (o :: dynof slots) in Hd.
    cbn [cparts ser_go cdyn p1bytes] in *. rewrite Hfx in *. inversion Hd as [[Eo Hd']]. specialize (IH vs' _ Hag' Hd').
    destruct (ser_go (cparts fs vs') (off + lenN (ser f v'))). cbn [fst] in *. now rewrite IH.
Qed.

Lemma fields_mk : forall fs vs ns, F3 (fun f x n => wf f x = true /\ mk f x = Ok n) fs vs ns ->
  (fix go (fs : list ty) (vs : list val) : result (list node) :=
     match fs, vs with
     | [], [] => Ok []
     | f :: fs', x :: vs' => do a <- mk f x; do r <- go fs' vs'; Ok (a :: r)
     | _, _ => Err EAttr
     end) fs vs = Ok ns /\
  (fix go (fs : list ty) (vs : list val) : bool :=
     match fs, vs with
     | [], [] => true
     | f :: fs', x :: vs' => wf f x && go fs' vs'
     | _, _ => false
     end) fs vs = true.
Proof.
  induction 1 as [|f x n fs vs ns [Hw Hm] HF [IH1 IH2]]; [split; reflexivity|]. rewrite Hm, Hw, IH1, IH2. split; reflexivity.
Qed.

Lemma cfloop_step f fs s : cfloop (f :: fs) s =
  do x <- deser_impl f s (min_impl f); do r <- cfloop fs (snd x); Ok (fst x :: fst r, snd r).
Proof. reflexivity. Qed.
Lemma cfloop_sound : forall fs, Forall sound fs -> forallb is_fixed fs = true -> forall s ns rest,
  cfloop fs s = Ok (ns, rest) -> sumN (map min_impl fs) <= lenN s ->
  exists vs, F3 (fun f x n => wf f x = true /\ mk f x = Ok n) fs vs ns /\
    (forall off, s = fst (ser_go (cparts fs vs) off) ++ rest) /\
    lenN (ser_parts (cparts fs vs)) = sumN (map min_impl fs).
Proof.
  induction 1 as [|f fs Hf Hfs IH]; intros Hfx s ns rest Hc Hlen.
  - cbn in Hc. inversion Hc; subst. exists []. split; [constructor|]. split; reflexivity.
  - cbn [forallb] in Hfx. apply andb_true_iff in Hfx as [Hf1 Hf2]. rewrite cfloop_step in Hc. cbn [map] in Hlen.
    change (sumN (?a :: ?l)) with (a + sumN l) in *.
    destruct (deser_impl f s (min_impl f)) as [[n1 s1]|] eqn:Hd; [|discriminate]. cbn [bind fst snd] in Hc.
    destruct (cfloop fs s1) as [[ns1 r1]|] eqn:Hr; [|discriminate]. cbn [bind fst snd] in Hc. inversion Hc; subst ns rest.
    destruct (Hf s (min_impl f) n1 s1 Hd ltac:(lia)) as (v1 & Hw1 & Hm1 & Hl1 & Es).
    destruct (IH Hf2 s1 ns1 r1 Hr) as (vs & HF & Es1 & El); [rewrite Es, lenN_app in Hlen; lia|].
    exists (v1 :: vs). split; [constructor; auto|]. cbn [cparts ser_go]. rewrite Hf1. split.
    + intros off. specialize (Es1 off). destruct (ser_go (cparts fs vs) off). cbn [fst] in *. rewrite <- app_assoc, <- Es1. exact Es.
    + rewrite ser_parts_len in *. cbn [map]. change (sumN (?a :: ?l)) with (a + sumN l). cbn [part_len fst snd]. lia.
Qed.
Lemma min_impl_fixed_container fs : forallb is_fixed fs = true -> min_impl (TContainer fs) = sumN (map min_impl fs).
Proof.
  intros Hf. rewrite min_impl_eq. cbn [min_len]. induction fs as [|f fs IH]; [reflexivity|].
  cbn [forallb] in Hf. apply andb_true_iff in Hf as [Hf1 Hf2]. cbn [map]. change (sumN (?a :: ?l)) with (a + sumN l).
  rewrite Hf1, IH by exact Hf2. now rewrite min_impl_eq.
Qed.

Lemma sound_container fs : wf_ty (TContainer fs) = true -> Forall sound fs -> sound (TContainer fs).
Proof.
  intros Hty Hs s scope n rest Hd Hsc. rewrite deser_container_unfold in Hd. unfold DeserProofs.cont_deser in Hd.
  rewrite is_fixed_impl_eq in Hd. cbn [is_fixed] in Hd.
  destruct (forallb is_fixed fs) eqn:Efx.
  - (* fixed-size *)
    destruct (scope =? min_impl (TContainer fs)) eqn:Esc; cbn [negb] in Hd; [|discriminate]. apply N.eqb_eq in Esc.
    rewrite (min_impl_fixed_container fs Efx) in Esc.
    destruct (cfloop fs s) as [[ns r1]|] eqn:Hc; [|discriminate]. cbn [bind fst snd] in Hd.
    destruct (fill_to_contents H ns (contents_depth (TContainer fs))) as [nd|] eqn:Hf; [|discriminate]. cbn [bind] in Hd. inversion Hd; subst nd r1.
    destruct (cfloop_sound fs Hs Efx s ns rest Hc ltac:(lia)) as (vs & HF & Es & El).
    destruct (fields_mk fs vs ns HF) as [Hgo Hwf].
    exists (VCont vs). split; [exact Hwf|]. split; [cbn [ModelViews.mk]; rewrite Hgo; cbn [bind]; exact Hf|].
    rewrite ser_container. split; [lia|].
    unfold ser_parts. specialize (Es (sumN (map fixed_part_len (cparts fs vs)))).
    pose proof (all_fixed_no_var fs vs (sumN (map fixed_part_len (cparts fs vs))) Efx) as Hnv.
    destruct (ser_go (cparts fs vs) (sumN (map fixed_part_len (cparts fs vs)))) as [fx vr]. cbn [fst snd] in *. subst vr. now rewrite app_nil_r.
  - (* variable-size *)
    destruct (cpass1 fs s 0) as [[[slots s1] fixed_size]|] eqn:Hp1; [|discriminate]. cbn [bind] in Hd.
    destruct (cpass1_shape fs s 0 slots s1 fixed_size Hp1) as (Hlen & Hfz & Hdyn). specialize (Hdyn Efx).
    fold (dynof slots) in Hd. destruct (dynof slots) as [|o0 dtl] eqn:Edyn; [congruence|].
    destruct (o0 =? fixed_size) eqn:Eo0; cbn [negb] in Hd; [|discriminate]. apply N.eqb_eq in Eo0.
    rewrite <- Edyn in Hd.
    destruct (cpass2 scope fs slots (dynof slots) s1) as [[ns r1]|] eqn:Hp2; [|discriminate]. cbn [bind fst snd] in Hd.
    destruct (fill_to_contents H ns (contents_depth (TContainer fs))) as [nd|] eqn:Hf; [|discriminate]. cbn [bind] in Hd. inversion Hd; subst nd r1.
    pose proof (cpass2_mono' scope fs slots Hlen s1 _ Hp2) as Hmono.
    assert (o0 <= scope) as Ho0.
    { rewrite Edyn in Hmono. pose proof (mono_last (dtl ++ [scope]) o0 0 Hmono) as Hl. change (o0 :: dtl ++ [scope]) with ((o0 :: dtl) ++ [scope]) in Hl. now rewrite last_last in Hl. }
    destruct (cpass1_sound fs Hs s 0 slots s1 fixed_size Hp1 ltac:(lia)) as (pv & HP & Es & _).
    destruct (cpass2_sound scope fs slots pv HP Hs s1 ns rest Hp2 Hmono) as (vs & HF & Hag & Es1 & Ed & Escope).
    { rewrite Edyn. cbn [next_of]. rewrite Es, lenN_app in Hsc.
      assert (lenN (p1bytes fs slots pv) = need_len fs) as Hpl.
      { clear - HP. induction HP as [|f n v fs slots pv Hfx Hw Hm Hl HP IH|f o fs slots pv Hfx HP IH]; [reflexivity| |];
          unfold need_len in *; cbn [p1bytes map]; change (sumN (?a :: ?l)) with (a + sumN l); rewrite lenN_app, IH, Hfx; [lia|rewrite le_bytes_lenN; reflexivity]. }
      lia. }
    rewrite Edyn in Ed, Escope. cbn [next_of] in Ed, Escope.
    destruct (fields_mk fs vs ns HF) as [Hgo Hwf].
    exists (VCont vs). split; [exact Hwf|]. split; [cbn [ModelViews.mk]; rewrite Hgo; cbn [bind]; exact Hf|].
    rewrite ser_container.
    (* the spec's fixed-part length is the first offset *)
    assert (sumN (map fixed_part_len (cparts fs vs)) = o0) as Eflen.
    { rewrite Eo0, Hfz, N.add_0_l. clear - HP Hag. revert vs Hag. unfold need_len.
      induction HP as [|f n v fs slots pv Hfx Hw Hm Hl HP IH|f o fs slots pv Hfx HP IH]; intros vs Hag;
        inversion Hag as [|? v' ? vs' Ev Hag']; subst; [reflexivity| |];
        cbn [cparts map]; change (sumN (?a :: ?l)) with (a + sumN l); rewrite (IH vs' Hag'), Hfx; cbn [fixed_part_len fst snd]; [lia|reflexivity]. }
    split.
    + rewrite ser_parts_len. rewrite Escope.
      assert (forall ps, sumN (map part_len ps) = sumN (map fixed_part_len ps) + sumN (map var_part_len ps)) as Hsplit.
      { induction ps as [|[fx b] ps IHp]; [reflexivity|]. cbn [map]. change (sumN (?a :: ?l)) with (a + sumN l).
        rewrite IHp. destruct fx; cbn [part_len fixed_part_len var_part_len fst snd]; unfold OFFSET; lia. }
      rewrite Hsplit, Eflen. reflexivity.
    + unfold ser_parts. rewrite Eflen.
      pose proof (p1bytes_eq fs slots pv HP vs o0 Hag ltac:(rewrite Edyn; exact Ed)) as Ep1.
      pose proof (snd_ser_go_off (cparts fs vs) o0 0) as Eoff.
      destruct (ser_go (cparts fs vs) o0) as [fx vr]. cbn [fst snd] in *. subst fx. rewrite Eoff.
      rewrite <- app_assoc, <- Es1. exact Es.
Qed.

Lemma pick_nth {A : Type} (F : ty -> A) (dflt : A) : forall os i,
  (fix pick (os : list ty) (i : nat) : A :=
     match os, i with o :: _, O => F o | _ :: os', S i' => pick os' i' | [], _ => dflt end) os i
  = match nth_error os i with Some o => F o | None => dflt end.
Proof. induction os as [|o os IH]; intros [|i]; cbn; auto. Qed.

Lemma byte_of_to_N z : byte_of_N (Byte.to_N z) = z.
Proof.
  unfold byte_of_N. pose proof (Byte.to_N_bounded z) as Hb. rewrite N.mod_small by lia. now rewrite Byte.of_to_N.
Qed.

Lemma sound_union b os : wf_ty (TUnion b os) = true -> Forall sound os -> sound (TUnion b os).
Proof.
  intros Hty Hs s scope n rest Hd Hsc. cbn [wf_ty] in Hty. apply andb_true_iff in Hty as [Hty Hcount]. apply andb_true_iff in Hty as [Htys Hne].
  apply N.leb_le in Hcount. cbn [ModelCodec.deser_impl] in Hd.
  destruct (scope <? 1) eqn:Hs1; [discriminate|]. apply N.ltb_ge in Hs1.
  destruct (read 1 s) as [bsel s1] eqn:Hr. destruct (read_split 1 s bsel s1 ltac:(lia) Hr) as [Es Hl1].
  destruct bsel as [|z [|z2 bs2]]; try (unfold lenN in Hl1; cbn [length] in Hl1; lia).
  assert (le_val [z] = Byte.to_N z) as Elv by (cbn; lia). rewrite Elv in Hd. set (sel := Byte.to_N z) in *.
  destruct (lenN os + (if b then 1 else 0) <=? sel) eqn:Hin; [discriminate|]. apply N.leb_gt in Hin.
  destruct (b && (sel =? 0)) eqn:Hb0.
  - destruct (scope =? 1) eqn:Esc1; cbn [negb] in Hd; [|discriminate]. apply N.eqb_eq in Esc1. inversion Hd; subst n rest scope.
    apply andb_true_iff in Hb0 as [Hb Hz]. apply N.eqb_eq in Hz. subst b.
    exists (VUnion 0 None). cbn [wf ModelViews.mk Spec.ser andb Nat.eqb N.of_nat]. split; [reflexivity|].
    assert ((lenN os + 1 <=? 0) = false) as -> by (apply N.leb_gt; lia). cbn [bind]. rewrite Hz. split; [reflexivity|]. split; [reflexivity|].
    rewrite Es. cbn [app]. f_equal. rewrite <- (byte_of_to_N z). fold sel. now rewrite Hz.
  - rewrite pick_nth in Hd. set (i := N.to_nat (if b then sel - 1 else sel)) in *.
    destruct (nth_error os i) as [o|] eqn:Hnth; [|discriminate].
    destruct (deser_impl o s1 (scope - 1)) as [[n1 r1]|] eqn:Hdo; [|discriminate]. cbn [bind fst snd] in Hd. inversion Hd; subst n rest.
    assert (sound o) as Ho by (rewrite Forall_forall in Hs; apply Hs; eapply nth_error_In; eauto).
    destruct (Ho s1 (scope - 1) n1 r1 Hdo) as (v1 & Hw1 & Hm1 & Hlv & Es1).
    { rewrite Es, lenN_app in Hsc. lia. }
    assert ((if b then pred (N.to_nat sel) else N.to_nat sel) = i) as Ei by (unfold i; destruct b; lia).
    assert ((b && (N.to_nat sel =? 0)%nat) = false) as Hb0'.
    { destruct b; [|reflexivity]. cbn [andb] in *. apply N.eqb_neq in Hb0. apply Nat.eqb_neq. lia. }
    exists (VUnion (N.to_nat sel) (Some v1)). cbn [wf ModelViews.mk Spec.ser]. rewrite N2Nat.id, Ei, Hb0', !pick_nth, Hnth.
    assert ((lenN os + (if b then 1 else 0) <=? sel) = false) as -> by (apply N.leb_gt; lia).
    split.
    + rewrite Hw1, andb_true_r. destruct b; [|reflexivity]. cbn [andb] in Hb0'. now rewrite Hb0'.
    + rewrite Hm1. cbn [bind]. split; [reflexivity|]. rewrite lenN_cons, Hlv. split; [lia|].
      unfold sel. rewrite byte_of_to_N. rewrite Es, Es1. reflexivity.
Qed.

Lemma split_at (k : N) (s : bytes) : k <= lenN s -> exists B sfx, s = B ++ sfx /\ lenN B = k.
Proof.
  intros Hk. exists (firstn (N.to_nat k) s), (skipn (N.to_nat k) s). split; [now rewrite firstn_skipn|].
  unfold lenN in *. rewrite firstn_length. lia.
Qed.

Lemma sound_bitvector k : wf_ty (TBitvector k) = true -> sound (TBitvector k).
Proof.
  intros Hty s scope n rest Hd Hsc. pose proof Hty as Hty0. cbn [wf_ty] in Hty. apply andb_true_iff in Hty as [Hk1 Hkb]. apply N.leb_le in Hk1.
  pose proof Hd as Hd0. cbn [ModelCodec.deser_impl] in Hd.
  destruct (scope =? (k + 7) / 8) eqn:Esc; cbn [negb] in Hd; [|discriminate]. apply N.eqb_eq in Esc.
  destruct (split_at scope s Hsc) as (B & sfx & Es & HB). subst s. rewrite <- HB in Hd.
  destruct (rfc_spec H (N.to_nat (lenN B / 32)) B sfx) as (cs & lastp & Hr & Hlp & HBs & Hcs).
  { unfold lenN in *. lia. }
  rewrite Hr, read_app in Hd.
  destruct (exists_last (l := lastp)) as (lp' & lastb & Elp); [intros ->; cbn in Hlp; lia|]. subst lastp.
  replace (N.to_nat (lenN (lp' ++ [lastb]) - 1)) with (length lp') in Hd by (unfold lenN; rewrite app_length; cbn [length]; lia).
  rewrite nth_error_app2, Nat.sub_diag in Hd by lia. cbn [nth_error] in Hd.
  destruct (k <? (lenN B - 1) * 8 + bit_length_byte lastb) eqn:Hbl; [discriminate|]. apply N.ltb_ge in Hbl.
  (* the value *)
  set (P := concat cs ++ lp') in *. assert (B = P ++ [lastb]) as EB by (unfold P; rewrite <- app_assoc; exact HBs).
  assert (lenN B = lenN P + 1) as HlB by (rewrite EB, lenN_app; reflexivity).
  set (r := N.to_nat (k - 8 * lenN P)).
  assert (1 <= r <= 8)%nat as Hr8 by (unfold r; lia).
  set (bs := bytes_to_bits P ++ firstn r (bits_of_byte lastb)).
  assert (lenN bs = k) as Hlbs.
  { unfold bs, lenN. rewrite app_length, bytes_to_bits_length, firstn_length, bits_of_byte_length. unfold lenN in *. lia. }
  assert (bits_to_bytes bs = B) as Hbytes.
  { unfold bs. rewrite bits_to_bytes_concat by (rewrite firstn_length, bits_of_byte_length; lia).
    rewrite EB. f_equal. destruct (firstn r (bits_of_byte lastb)) as [|b0 t0] eqn:Et.
    - exfalso. apply (f_equal (@length bool)) in Et. rewrite firstn_length, bits_of_byte_length in Et. cbn in Et. lia.
    - rewrite <- Et. f_equal. apply trunc_byte; [lia|]. unfold r. lia. }
  assert (wf (TBitvector k) (VBits bs) = true) as Hwf by (cbn [wf]; now apply N.eqb_eq).
  destruct (mk_root H (TBitvector k) (VBits bs) Hty0 Hwf) as (nd & Hmk & _).
  pose proof (deser_bitvector H k bs nd Hty0 Hwf Hmk sfx) as Hfw. cbn [Spec.ser] in Hfw. rewrite Hbytes in Hfw.
  rewrite HB in Hfw. rewrite Hfw in Hd0. inversion Hd0; subst nd rest.
  exists (VBits bs). split; [exact Hwf|]. split; [exact Hmk|]. cbn [Spec.ser]. rewrite Hbytes. split; [exact HB|reflexivity].
Qed.
Lemma sound_bitlist l : wf_ty (TBitlist l) = true -> sound (TBitlist l).
Proof.
  intros Hty s scope n rest Hd Hsc. pose proof Hty as Hty0. cbn [wf_ty] in Hty. apply N.ltb_lt in Hty. unfold LIMIT_BOUND in Hty.
  pose proof Hd as Hd0. cbn [ModelCodec.deser_impl] in Hd.
  destruct (scope <? 1) eqn:Hs1; [discriminate|]. apply N.ltb_ge in Hs1.
  destruct ((l + 7 + 1) / 8 <? scope) eqn:Hs2; [discriminate|]. apply N.ltb_ge in Hs2.
  destruct (split_at scope s Hsc) as (B & sfx & Es & HB). subst s. rewrite <- HB in Hd.
  destruct (rfc_spec H (N.to_nat (lenN B / 32)) B sfx) as (cs & lastp & Hr & Hlp & HBs & Hcs).
  { unfold lenN in *. lia. }
  rewrite Hr, read_app in Hd.
  destruct (exists_last (l := lastp)) as (lp' & lastb & Elp); [intros ->; cbn in Hlp; lia|]. subst lastp.
  replace (N.to_nat (lenN (lp' ++ [lastb]) - 1)) with (length lp') in Hd by (unfold lenN; rewrite app_length; cbn [length]; lia).
  rewrite nth_error_app2, Nat.sub_diag in Hd by lia. cbn [nth_error] in Hd.
  destruct (byte_eqb lastb x00) eqn:Hz; [discriminate|].
  assert (lastb <> x00) as Hnz by (intros ->; cbn in Hz; discriminate).
  destruct (delim_byte lastb Hnz) as [Hdel Hlt8].
  set (lbl := bit_length_byte lastb - 1) in *.
  destruct (l <? (lenN B - 1) * 8 + lbl) eqn:Hbl.
  { discriminate. }
  apply N.ltb_ge in Hbl.
  set (P := concat cs ++ lp') in *. assert (B = P ++ [lastb]) as EB by (unfold P; rewrite <- app_assoc; exact HBs).
  assert (lenN B = lenN P + 1) as HlB by (rewrite EB, lenN_app; reflexivity).
  set (t := firstn (N.to_nat lbl) (bits_of_byte lastb)) in *.
  assert (length t = N.to_nat lbl) as Hlt by (unfold t; rewrite firstn_length, bits_of_byte_length; lia).
  set (bs := bytes_to_bits P ++ t).
  assert (lenN bs = (lenN B - 1) * 8 + lbl) as Hlbs.
  { unfold bs, lenN. rewrite app_length, bytes_to_bits_length, Hlt. unfold lenN in *. lia. }
  assert (bits_to_bytes (bs ++ [true]) = B) as Hbytes.
  { unfold bs. rewrite <- app_assoc. rewrite bits_to_bytes_concat by (rewrite app_length; cbn [length]; lia).
    rewrite EB. f_equal. destruct (t ++ [true]) as [|b0 t0] eqn:Et; [destruct t; discriminate|]. now rewrite Hdel. }
  assert (wf (TBitlist l) (VBits bs) = true) as Hwf by (cbn [wf]; apply N.leb_le; lia).
  destruct (mk_root H (TBitlist l) (VBits bs) Hty0 Hwf) as (nd & Hmk & _).
  pose proof (deser_bitlist H l bs nd Hty0 Hwf Hmk sfx) as Hfw. cbn [Spec.ser] in Hfw. rewrite Hbytes in Hfw.
  rewrite HB in Hfw. rewrite Hfw in Hd0. inversion Hd0; subst nd rest.
  exists (VBits bs). split; [exact Hwf|]. split; [exact Hmk|]. cbn [Spec.ser]. rewrite Hbytes. split; [exact HB|reflexivity].
Qed.

(* ---- every type ---- *)
Theorem deser_sound : forall t, wf_ty t = true -> sound t.
Proof.
  induction t as [k| |nn|l|nn|l|e nn IHe|e l IHe|fs Hfs|b os Hos] using ty_ind'; intros Hty.
  - now apply sound_uint.
  - exact sound_bool.
  - now apply sound_bitvector.
  - now apply sound_bitlist.
  - apply sound_bytevector.
  - apply sound_bytelist.
  - apply sound_vector; [exact Hty|]. apply IHe. cbn [wf_ty] in Hty. apply andb_true_iff in Hty as [Hty _]. now apply andb_true_iff in Hty as [Hte _].
  - apply sound_list; [exact Hty|]. apply IHe. cbn [wf_ty] in Hty. now apply andb_true_iff in Hty as [Hte _].
  - apply sound_container; [exact Hty|]. cbn [wf_ty] in Hty. apply andb_true_iff in Hty as [_ Htys].
    rewrite forallb_forall in Htys. rewrite Forall_forall in *. intros f Hf. apply Hfs; auto.
  - apply sound_union; [exact Hty|]. cbn [wf_ty] in Hty. apply andb_true_iff in Hty as [Hty _]. apply andb_true_iff in Hty as [Htys _].
    rewrite forallb_forall in Htys. rewrite Forall_forall in *. intros f Hf. apply Hos; auto.
Qed.

(* consequences: what is accepted is canonical, well-formed and stable *)
Corollary deser_canonical t s scope n rest (src : bytes -> option (bytes * bytes)) : wf_ty t = true ->
  deser_impl t s scope = Ok (n, rest) -> scope <= lenN s ->
  exists v, wf t v = true /\ mk t v = Ok n /\ s = ser t v ++ rest /\ lenN (ser t v) = scope /\
            root H n = htr H t v /\ ser_impl H src t n = Ok (ser t v, scope).
Proof.
  intros Hty Hd Hsc. destruct (deser_sound t Hty s scope n rest Hd Hsc) as (v & Hw & Hm & Hl & Es).
  exists v. split; [exact Hw|]. split; [exact Hm|]. split; [exact Es|]. split; [exact Hl|].
  destruct (mk_root H t v Hty Hw) as (n' & Hm' & Hr). rewrite Hm in Hm'. inversion Hm'; subst n'. split; [exact Hr|].
  rewrite <- Hl. exact (SerAll.ser_constructed H src t v n Hty Hw Hm).
Qed.

(* decode_bytes: the whole input is the encoding *)
Corollary decode_bytes_canonical t bs n (src : bytes -> option (bytes * bytes)) : wf_ty t = true ->
  decode_bytes H t bs = Ok n ->
  exists v, wf t v = true /\ bs = ser t v /\ mk t v = Ok n /\ root H n = htr H t v /\
            ser_impl H src t n = Ok (bs, lenN bs).
Proof.
  intros Hty Hd. unfold decode_bytes in Hd. destruct (deser_impl t bs (lenN bs)) as [[n' rest]|] eqn:Hdi; [|discriminate].
  cbn [bind fst] in Hd. inversion Hd; subst n'.
  destruct (deser_canonical t bs (lenN bs) n rest src Hty Hdi ltac:(lia)) as (v & Hw & Hm & Es & Hl & Hr & Hser).
  assert (rest = []) as ->.
  { apply (f_equal lenN) in Es. rewrite lenN_app in Es. destruct rest; [reflexivity|]. rewrite lenN_cons in Es. lia. }
  rewrite app_nil_r in Es. exists v. rewrite <- Es in Hser. auto 6.
Qed.

(* two inputs accepted with the same result are the same input *)
Corollary decode_bytes_injective t bs1 bs2 n : wf_ty t = true ->
  decode_bytes H t bs1 = Ok n -> decode_bytes H t bs2 = Ok n -> bs1 = bs2.
Proof.
  intros Hty H1 H2.
  destruct (decode_bytes_canonical t bs1 n (fun _ => None) Hty H1) as (_ & _ & _ & _ & _ & S1).
  destruct (decode_bytes_canonical t bs2 n (fun _ => None) Hty H2) as (_ & _ & _ & _ & _ & S2).
  rewrite S1 in S2. now inversion S2.
Qed.

(* the accepted language is exactly the set of valid encodings (below the 4 GiB offset limit) *)
Corollary accepted_iff_valid t bs : wf_ty t = true -> lenN bs < 2 ^ 32 ->
  ((exists n, decode_bytes H t bs = Ok n) <-> (exists v, wf t v = true /\ bs = ser t v)).
Proof.
  intros Hty Hb. split.
  - intros (n & Hd). destruct (decode_bytes_canonical t bs n (fun _ => None) Hty Hd) as (v & Hw & Es & _). eauto.
  - intros (v & Hw & ->). destruct (roundtrip_total H t v Hty Hw Hb) as (n & _ & _ & _ & Hd). eauto.
Qed.

(* accepted values survive a further encode / decode cycle *)
Corollary decode_stable t bs n (src : bytes -> option (bytes * bytes)) : wf_ty t = true -> lenN bs < 2 ^ 32 ->
  decode_bytes H t bs = Ok n ->
  exists e, ser_impl H src t n = Ok (e, lenN e) /\ decode_bytes H t e = Ok n.
Proof.
  intros Hty Hb Hd. destruct (decode_bytes_canonical t bs n src Hty Hd) as (v & Hw & Es & Hm & _ & Hser).
  exists bs. split; [exact Hser|exact Hd].
Qed.

End WithHash.
