(* TreeProofs.v — get/set laws of the tree model (C07), for every H, src, tree, path. *)
Require Import RM.Base RM.Gindex RM.Tree.

Section WithHash.
Variable H : bytes -> bytes -> bytes.
Variable src : bytes -> option (bytes * bytes).
Notation root := (root H).
Notation zero_hash := (zero_hash H).
Notation zero_node := (zero_node H).
Notation children := (children src).
Notation getter := (getter src).
Notation setter_below := (setter_below H src).
Notation setter := (setter H src).
Notation summarize_into := (summarize_into H src).

(* p and q leave a common prefix in different directions *)
Definition diverge (p q : list bool) : Prop :=
  exists c b p' q', p = c ++ b :: p' /\ q = c ++ negb b :: q'.

Lemma diverge_cons b p q : diverge (b :: p) (b :: q) -> diverge p q.
Proof.
  intros (c & b0 & p' & q' & Ep & Eq). destruct c as [|c0 c]; cbn in *.
  - inversion Ep; inversion Eq; subst. now destruct b0.
  - inversion Ep; inversion Eq; subst. now exists c, b0, p', q'.
Qed.

Lemma neq_negb (b b' : bool) : b <> b' -> b' = negb b.
Proof. destruct b, b'; cbn; congruence. Qed.

Lemma rebuild_ok b l r x n' : rebuild b l r x = Ok n' ->
  exists c, x = Ok c /\ n' = if b then PairN l c else PairN c r.
Proof. destruct x as [c|e]; cbn; [|discriminate]. intros E; inversion E; eauto. Qed.

Lemma children_pair l r : children (PairN l r) = Some (l, r).
Proof. reflexivity. Qed.

(* getter on a node built by rebuild *)
Lemma getter_rebuilt (b : bool) l r c q :
  getter (if b then PairN l c else PairN c r) (b :: q) = getter c q.
Proof. destruct b; reflexivity. Qed.
Lemma getter_rebuilt_other (b : bool) l r c q :
  getter (if b then PairN l c else PairN c r) (negb b :: q) = getter (if b then l else r) q.
Proof. destruct b; reflexivity. Qed.

(* ---- law 1: read back what was written ---- *)
Lemma setter_below_get_same e : forall p n v n',
  setter_below e n p v = Ok n' -> getter n' p = Ok v.
Proof.
  induction p as [|b p IH]; intros n v n' Hs; cbn [Tree.setter_below] in Hs.
  - inversion Hs; reflexivity.
  - destruct (children n) as [[l r]|].
    + apply rebuild_ok in Hs as (c & Hc & ->). rewrite getter_rebuilt. eauto.
    + destruct (e && _); [|discriminate].
      apply rebuild_ok in Hs as (c & Hc & ->). rewrite getter_rebuilt. eauto.
Qed.

Lemma setter_unfold e n p v :
  setter e n p v =
  match p with
  | [] => Ok v
  | b :: p' =>
      match n with
      | VirtN _ => match children n with
                   | Some (l, r) => rebuild b l r (setter_below e (if b then r else l) p' v)
                   | None => Err ENav
                   end
      | _ => setter_below e n p v
      end
  end.
Proof. reflexivity. Qed.

(* on a VirtN with children the top-level setter is setter_below; without children it fails *)
Lemma setter_as_below e n p v n' : setter e n p v = Ok n' -> setter_below e n p v = Ok n'.
Proof.
  rewrite setter_unfold. destruct p as [|b p]; [easy|]. destruct n as [r|l r|r]; try easy.
  cbn [Tree.setter_below]. destruct (children (VirtN r)) as [[l' r']|]; [easy|discriminate].
Qed.

Theorem set_get_same e n p v n' : setter e n p v = Ok n' -> getter n' p = Ok v.
Proof. intros Hs. eapply setter_below_get_same, setter_as_below, Hs. Qed.

(* ---- law 2: positions off the written path keep their node ---- *)
Lemma setter_below_get_other e : forall p n v n' q x,
  setter_below e n p v = Ok n' -> diverge p q -> getter n q = Ok x -> getter n' q = Ok x.
Proof.
  induction p as [|b p IH]; intros n v n' q x Hs Hd Hg.
  - destruct Hd as (c & b0 & p' & q' & Ep & _). destruct c; discriminate.
  - cbn [Tree.setter_below] in Hs. destruct q as [|b' q].
    { destruct Hd as (c & b0 & p' & q' & _ & Eq). destruct c; discriminate. }
    cbn [Tree.getter] in Hg. destruct (children n) as [[l r]|]; [|discriminate].
    apply rebuild_ok in Hs as (c & Hc & ->).
    destruct (Bool.bool_dec b b') as [<-|Hne].
    + rewrite getter_rebuilt. eapply IH; eauto using diverge_cons.
    + assert (b' = negb b) as -> by (apply neq_negb; exact Hne).
      rewrite getter_rebuilt_other. destruct b; exact Hg.
Qed.

Theorem set_get_other e n p v n' q x :
  setter e n p v = Ok n' -> diverge p q -> getter n q = Ok x -> getter n' q = Ok x.
Proof. intros Hs. eapply setter_below_get_other, setter_as_below, Hs. Qed.

(* ---- law 2b: whatever is readable off the path afterwards was there before, or is a zero
        summary created by expansion ---- *)
Lemma getter_zero_node k q y : getter (zero_node k) q = Ok y -> q = [] /\ y = zero_node k.
Proof. destruct q; cbn; intros E; inversion E; auto. Qed.

Lemma setter_below_get_other_inv e : forall p n v n' q y,
  setter_below e n p v = Ok n' -> diverge p q -> getter n' q = Ok y ->
  getter n q = Ok y \/ (e = true /\ exists k, y = zero_node k).
Proof.
  induction p as [|b p IH]; intros n v n' q y Hs Hd Hg.
  - destruct Hd as (c & b0 & p' & q' & Ep & _). destruct c; discriminate.
  - cbn [Tree.setter_below] in Hs. destruct q as [|b' q].
    { destruct Hd as (c & b0 & p' & q' & _ & Eq). destruct c; discriminate. }
    destruct (children n) as [[l r]|] eqn:Ech.
    + apply rebuild_ok in Hs as (c & Hc & ->). cbn [Tree.getter]. rewrite Ech.
      destruct (Bool.bool_dec b b') as [<-|Hne].
      * rewrite getter_rebuilt in Hg. eapply IH; eauto using diverge_cons.
      * assert (b' = negb b) as -> by (apply neq_negb; exact Hne).
        rewrite getter_rebuilt_other in Hg. left. destruct b; exact Hg.
    + destruct e; [|discriminate]. cbn [andb] in Hs. destruct (bytes_eqb _ _); [|discriminate].
      apply rebuild_ok in Hs as (c & Hc & ->). right. split; [reflexivity|].
      destruct (Bool.bool_dec b b') as [<-|Hne].
      * rewrite getter_rebuilt in Hg.
        destruct (IH _ _ _ _ _ Hc (diverge_cons _ _ _ Hd) Hg) as [Hz|[_ Hz]]; [|exact Hz].
        apply getter_zero_node in Hz as [_ ->]. eauto.
      * assert (b' = negb b) as -> by (apply neq_negb; exact Hne).
        rewrite getter_rebuilt_other in Hg.
        assert (getter (zero_node (length p)) q = Ok y) as Hz by (destruct b; exact Hg).
        apply getter_zero_node in Hz as [_ ->]. eauto.
Qed.

Theorem set_get_other_inv e n p v n' q y :
  setter e n p v = Ok n' -> diverge p q -> getter n' q = Ok y ->
  getter n q = Ok y \/ (e = true /\ exists k, y = zero_node k).
Proof. intros Hs. eapply setter_below_get_other_inv, setter_as_below, Hs. Qed.

(* ---- law 3: without expansion the write succeeds exactly where the read does ---- *)
Lemma setter_below_noexpand_ok : forall p n v,
  (exists x, getter n p = Ok x) <-> (exists n', setter_below false n p v = Ok n').
Proof.
  induction p as [|b p IH]; intros n v; cbn [Tree.setter_below Tree.getter].
  - split; eauto.
  - destruct (children n) as [[l r]|]; cbn [andb].
    + rewrite (IH (if b then r else l) v). split.
      * intros (c & ->). cbn. eauto.
      * intros (n' & Hs). apply rebuild_ok in Hs as (c & Hc & _). eauto.
    + split; intros (? & ?); discriminate.
Qed.

Theorem set_noexpand_ok n p v :
  (exists x, getter n p = Ok x) <-> (exists n', setter false n p v = Ok n').
Proof.
  rewrite setter_below_noexpand_ok with (v := v). split; intros (n' & Hs).
  - exists n'. rewrite setter_unfold. destruct p as [|b p]; [exact Hs|].
    destruct n as [r|l r|r]; exact Hs.
  - exists n'. now apply setter_as_below.
Qed.

(* every failure of getter / setter is a navigation error *)
Lemma getter_err n : forall p e, getter n p = Err e -> e = ENav.
Proof.
  intros p; revert n; induction p as [|b p IH]; intros n e; cbn; [discriminate|].
  destruct (children n) as [[l r]|]; [apply IH|intros E; now inversion E].
Qed.
Lemma rebuild_err b l r x e : rebuild b l r x = Err e -> x = Err e.
Proof. destruct x; cbn; [discriminate|easy]. Qed.
Lemma setter_below_err ex : forall p n v e, setter_below ex n p v = Err e -> e = ENav.
Proof.
  induction p as [|b p IH]; intros n v e; cbn [Tree.setter_below]; [discriminate|].
  destruct (children n) as [[l r]|].
  - intros E. apply rebuild_err in E. eauto.
  - destruct (ex && _).
    + intros E. apply rebuild_err in E. eauto.
    + intros E; now inversion E.
Qed.
Theorem setter_err ex n p v e : setter ex n p v = Err e -> e = ENav.
Proof.
  rewrite setter_unfold. destruct p as [|b p]; [discriminate|].
  destruct n as [r|l r|r]; try apply setter_below_err.
  destruct (children (VirtN r)) as [[l' r']|].
  - intros E. apply rebuild_err in E. eapply setter_below_err; eauto.
  - intros E; now inversion E.
Qed.

(* ---- law 4: a leaf on the path that is not the zero summary of its height is never
        discarded: the write fails, expand or not ---- *)
Theorem set_nonzero_leaf_fails e : forall c n p v x,
  getter n c = Ok x -> children x = None -> p <> [] ->
  root x <> zero_hash (length p) ->
  (forall r, n = VirtN r -> c <> []) ->
  setter e n (c ++ p) v = Err ENav.
Proof.
  assert (forall c n p v x, getter n c = Ok x -> children x = None -> p <> [] ->
            root x <> zero_hash (length p) -> setter_below e n (c ++ p) v = Err ENav) as Hb.
  { induction c as [|b c IH]; intros n p v x Hg Hx Hp Hr.
    - cbn in Hg. inversion Hg; subst x. destruct p as [|b p]; [congruence|].
      cbn [app Tree.setter_below]. rewrite Hx.
      destruct (bytes_eqb (root n) (zero_hash (length (b :: p)))) eqn:E.
      + apply bytes_eqb_eq in E. congruence.
      + now rewrite andb_false_r.
    - cbn [app Tree.setter_below]. cbn [Tree.getter] in Hg.
      destruct (children n) as [[l r]|]; [|discriminate].
      rewrite (IH _ _ v _ Hg Hx Hp Hr). reflexivity. }
  intros c n p v x Hg Hx Hp Hr Hv. rewrite setter_unfold.
  destruct (c ++ p) as [|b cp] eqn:Ecp.
  { destruct c; [cbn in Ecp; congruence|discriminate]. }
  destruct n as [r|l r|r]; try (rewrite <- Ecp; eapply Hb; eauto).
  specialize (Hv r eq_refl). destruct c as [|b' c]; [congruence|].
  cbn [app] in Ecp. inversion Ecp; subst b' cp. cbn [Tree.getter] in Hg.
  destruct (children (VirtN r)) as [[l' r']|]; [|reflexivity].
  rewrite (Hb _ _ _ v _ Hg Hx Hp Hr). reflexivity.
Qed.

(* ---- law 5: writing below a zero summary = the same write on the expanded zero tree ---- *)
(* the fully expanded zero tree of height d *)
Definition full_zero (d : nat) : node := fill_to_depth (RootN zero32) d.

Lemma root_full_zero d : root (full_zero d) = zero_hash d.
Proof.
  induction d as [|d IH]; [reflexivity|]. unfold full_zero in *.
  cbn [fill_to_depth Tree.root Tree.zero_hash]. now rewrite IH.
Qed.

Lemma bytes_eqb_refl b : bytes_eqb b b = true.
Proof. now apply bytes_eqb_eq. Qed.

(* the expanding write on the summary and the plain write on the expanded tree succeed together
   and give trees with the same root *)
Lemma if_same {A} (b : bool) (x : A) : (if b then x else x) = x.
Proof. now destruct b. Qed.

Lemma setter_below_expand_zero : forall p v,
  exists n' m', setter_below true (zero_node (length p)) p v = Ok n'
             /\ setter_below false (full_zero (length p)) p v = Ok m'
             /\ root n' = root m'.
Proof.
  induction p as [|b p IH]; intros v.
  - exists v, v. repeat split.
  - destruct (IH v) as (n1 & m1 & Hn & Hm & Hr).
    assert (setter_below true (zero_node (length (b :: p))) (b :: p) v =
            rebuild b (zero_node (length p)) (zero_node (length p))
                    (setter_below true (zero_node (length p)) p v)) as E1.
    { cbn [Tree.setter_below]. unfold Tree.zero_node at 1 2. cbn [Tree.children Tree.root].
      rewrite bytes_eqb_refl. reflexivity. }
    assert (setter_below false (full_zero (length (b :: p))) (b :: p) v =
            rebuild b (full_zero (length p)) (full_zero (length p))
                    (setter_below false (full_zero (length p)) p v)) as E2.
    { unfold full_zero at 1. cbn [length fill_to_depth Tree.setter_below Tree.children].
      fold (full_zero (length p)). now rewrite if_same. }
    rewrite E1, E2, Hn, Hm. cbn [rebuild].
    eexists _, _. split; [reflexivity|]. split; [reflexivity|].
    destruct b; cbn [Tree.root]; rewrite Hr, ?root_full_zero; reflexivity.
Qed.

Theorem set_expand_zero : forall p v,
  exists n' m', setter true (zero_node (length p)) p v = Ok n'
             /\ setter false (full_zero (length p)) p v = Ok m'
             /\ root n' = root m'.
Proof.
  intros p v. destruct (setter_below_expand_zero p v) as (n' & m' & Hn & Hm & Hr).
  exists n', m'. repeat split; try exact Hr.
  - rewrite setter_unfold. destruct p; [exact Hn|]. exact Hn.
  - rewrite setter_unfold. destruct p as [|b p]; [exact Hm|].
    unfold full_zero in *. cbn [length fill_to_depth] in *. exact Hm.
Qed.

(* ---- law 6: summarising keeps the root and leaves a bare summary at the position ---- *)
Fixpoint novirt (n : node) : Prop :=
  match n with RootN _ => True | VirtN _ => False | PairN l r => novirt l /\ novirt r end.

Lemma novirt_getter : forall p n x, novirt n -> getter n p = Ok x -> novirt x.
Proof.
  induction p as [|b p IH]; intros n x Hn Hg; cbn in Hg.
  - now inversion Hg; subst.
  - destruct n as [r|l r|r]; cbn in *; try discriminate; try contradiction.
    destruct Hn. destruct b; eauto.
Qed.

Lemma setter_below_root_same e : forall p n v n' x,
  novirt n -> getter n p = Ok x -> root v = root x -> setter_below e n p v = Ok n' -> root n' = root n.
Proof.
  induction p as [|b p IH]; intros n v n' x Hnv Hg Hr Hs.
  - cbn in *. inversion Hg; inversion Hs; subst. exact Hr.
  - cbn [Tree.setter_below] in Hs. cbn [Tree.getter] in Hg.
    destruct n as [r0|l r|r0]; cbn in Hnv; cbn [Tree.children] in *; try discriminate; try contradiction.
    destruct Hnv as [Hl Hr']. apply rebuild_ok in Hs as (c & Hc & ->).
    destruct b; cbn [Tree.root]; f_equal; eapply IH; eauto.
Qed.

Theorem summarize_root n p n' : novirt n ->
  summarize_into n p = Ok n' ->
  root n' = root n /\ exists x, getter n p = Ok x /\ getter n' p = Ok (RootN (root x)).
Proof.
  unfold Tree.summarize_into. intros Hnv Hs. destruct (getter n p) as [x|] eqn:Hg; [|discriminate].
  cbn [bind] in Hs. split.
  - pose proof (setter_as_below _ _ _ _ _ Hs) as Hs'.
    exact (setter_below_root_same false p n (RootN (root x)) n' x Hnv Hg eq_refl Hs').
  - exists x. split; [reflexivity|]. eapply set_get_same; eauto.
Qed.

(* ---- law 7: gindex < 1 is a navigation error ---- *)
Theorem getter_g_zero n : getter_g src n 0 = Err ENav.
Proof. reflexivity. Qed.
Theorem setter_g_zero e n v : setter_g H src e n 0 v = Err ENav.
Proof. reflexivity. Qed.

End WithHash.
