(* VirtualReads.v — C20: the read-only iterators (NodeIter, PackedIter, BitfieldIter machines) and object export over a virtual tree give exactly what they give over the materialised tree. *)
Require Import RM.Base RM.Gindex RM.Tree RM.TreeProofs RM.Types RM.Spec RM.ModelViews RM.ModelCodec RM.ModelMut RM.ModelIters RM.ModelObj
               RM.VirtualProofs RM.VirtualViews.
From Coq Require Import ZifyBool ZifyNat ZifyN.
Local Open Scope N_scope.
Section WithHash.
Variable H : bytes -> bytes -> bytes.
Variable src : bytes -> option (bytes * bytes).
Notation vr := (vr H src).
Notation root := (root H).
(* ---- the read-only iterators and object export over a virtual tree ---- *)
Definition vrs (a b : list node) : Prop := Forall2 vr a b.
Definition vrp (a b : node * list node) : Prop := vr (fst a) (fst b) /\ vrs (snd a) (snd b).

Lemma vrs_set_nth : forall k x y a b, vr x y -> vrs a b -> vrs (set_nth k x a) (set_nth k y b).
Proof.
  intros k x y a b Hxy Hab. revert k. induction Hab as [|u w a b Huw Hab IH]; intros k; [destruct k; constructor|].
  destruct k; cbn [set_nth]; constructor; auto. apply IH.
Qed.
Lemma vrs_nth : forall a b k, vrs a b -> vr (nth k a dummy) (nth k b dummy).
Proof. intros a b k Hab. revert k. induction Hab; intros [|k]; cbn; auto; apply vr_refl. Qed.
Lemma vrs_repeat k : vrs (repeat dummy k) (repeat dummy k).
Proof. induction k; cbn; constructor; auto. apply vr_refl. Qed.

Lemma vr_descend : forall steps x nv nm sv sm, vr nv nm -> vrs sv sm -> sim vrp (descend src steps x nv sv) (descend src steps x nm sm).
Proof.
  induction steps as [|k IH]; intros x nv nm sv sm Hn Hs; cbn [descend]; [apply sim_ret; split; assumption|].
  apply (sim_bind vr vrp _ _ _ _ (vr_get_left H src nv nm Hn)). intros l l' Hl _ _. apply IH; [exact Hl|now apply vrs_set_nth].
Qed.

Lemma vr_advance av am depth idx sv sm : vr av am -> vrs sv sm -> sim vrp (advance src av depth idx sv) (advance src am depth idx sm).
Proof.
  intros Ha Hs. unfold advance. destruct (idx =? 0); [now apply vr_descend|]. cbv zeta.
  apply (sim_bind vr vrp _ _ _ _ (vr_get_right H src _ _ (vrs_nth sv sm _ Hs))). intros r r' Hr _ _. now apply vr_descend.
Qed.

Lemma vr_node_iter_loop : forall fuel av am depth i sv sm, vr av am -> vrs sv sm ->
  sim vrs (node_iter_loop src fuel av depth i sv) (node_iter_loop src fuel am depth i sm).
Proof.
  induction fuel as [|f IH]; intros av am depth i sv sm Ha Hs; cbn [node_iter_loop]; [apply sim_ret; constructor|].
  apply (sim_bind vrp vrs _ _ _ _ (vr_advance av am depth i sv sm Ha Hs)). intros r r' [Hr1 Hr2] _ _.
  apply (sim_bind vrs vrs _ _ _ _ (IH av am depth (i + 1) _ _ Ha Hr2)). intros rest rest' Hrest _ _. apply sim_ret. constructor; assumption.
Qed.
Lemma vr_node_iter av am depth len : vr av am -> sim vrs (node_iter src av depth len) (node_iter src am depth len).
Proof. intros Ha. unfold node_iter. destruct (_ <? len); [reflexivity|]. apply vr_node_iter_loop; [exact Ha|apply vrs_repeat]. Qed.

Lemma vr_is_leaf v m : vr v m -> is_leaf src v = is_leaf src m.
Proof. intros Hv. unfold is_leaf. pose proof (vr_children H src v m Hv) as Hc. destruct (children src m) as [[l r]|]; [destruct Hc as (vl & vr' & -> & _); reflexivity|now rewrite Hc]. Qed.

Lemma vr_packed_iter_loop : forall fuel av am depth e per j ri cv cm sv sm, vr av am -> vr cv cm -> vrs sv sm ->
  packed_iter_loop H src fuel av depth e per j ri cv sv = packed_iter_loop H src fuel am depth e per j ri cm sm.
Proof.
  induction fuel as [|f IH]; intros av am depth e per j ri cv cm sv sm Ha Hc Hs; cbn [packed_iter_loop]; [reflexivity|].
  destruct (j <? per).
  - unfold packed_elem_bytes. rewrite (vr_root H src cv cm Hc). fold (packed_elem_bytes H e cm j).
    destruct (packed_elem_bytes H e cm j); [|reflexivity]. cbn [bind]. now rewrite (IH av am depth e per (j + 1) ri cv cm sv sm).
  - pose proof (vr_advance av am depth ri sv sm Ha Hs) as Hadv. unfold sim in Hadv.
    destruct (advance src am depth ri sm) as [[nm sm']|er].
    + destruct Hadv as ([nv sv'] & -> & Hn & Hs'). cbn [bind fst snd] in *. rewrite (vr_is_leaf nv nm Hn).
      destruct (negb (is_leaf src nm)); [reflexivity|]. unfold packed_elem_bytes. rewrite (vr_root H src nv nm Hn). fold (packed_elem_bytes H e nm 0).
      destruct (packed_elem_bytes H e nm 0); [|reflexivity]. cbn [bind]. now rewrite (IH av am depth e per 1 (ri + 1) nv nm sv' sm').
    + rewrite Hadv. reflexivity.
Qed.
Lemma vr_packed_iter av am depth len e size : vr av am -> packed_iter H src av depth len e size = packed_iter H src am depth len e size.
Proof. intros Ha. unfold packed_iter. cbv zeta. destruct (_ <? len); [reflexivity|]. apply vr_packed_iter_loop; [exact Ha|apply vr_refl|apply vrs_repeat]. Qed.

Lemma vr_bit_iter_loop : forall fuel av am depth j ri cur sv sm, vr av am -> vrs sv sm ->
  bit_iter_loop H src fuel av depth j ri cur sv = bit_iter_loop H src fuel am depth j ri cur sm.
Proof.
  induction fuel as [|f IH]; intros av am depth j ri cur sv sm Ha Hs; cbn [bit_iter_loop]; [reflexivity|].
  destruct (0 <? j).
  - cbv zeta. now rewrite (IH av am depth _ ri cur sv sm).
  - pose proof (vr_advance av am depth ri sv sm Ha Hs) as Hadv. unfold sim in Hadv.
    destruct (advance src am depth ri sm) as [[nm sm']|er].
    + destruct Hadv as ([nv sv'] & -> & Hn & Hs'). cbn [bind fst snd] in *. rewrite (vr_is_leaf nv nm Hn).
      destruct (negb (is_leaf src nm)); [reflexivity|]. cbv zeta. rewrite (vr_root H src nv nm Hn). now rewrite (IH av am depth 1 (ri + 1) (root nm) sv' sm').
    + rewrite Hadv. reflexivity.
Qed.
Theorem vr_bit_iter av am depth len : vr av am -> bit_iter H src av depth len = bit_iter H src am depth len.
Proof. intros Ha. unfold bit_iter. destruct (_ <? len); [reflexivity|]. apply vr_bit_iter_loop; [exact Ha|apply vrs_repeat]. Qed.

Lemma seq_res_vrs {B} (f : node -> result B) : forall a b, vrs a b -> (forall x y, vr x y -> f x = f y) -> seq_res (map f a) = seq_res (map f b).
Proof. intros a b Hab Hf. induction Hab as [|x y a b Hxy Hab IH]; [reflexivity|]. cbn [map seq_res]. now rewrite (Hf x y Hxy), IH. Qed.

Theorem vr_to_obj : forall t v m, vr v m -> to_obj H src t v = to_obj H src t m.
Proof.
  induction t as [k| |bn|bl|yn|yl|e n IHe|e l IHe|fs Hfs|b os Hos] using ty_ind'; intros v m Hv; cbn [ModelObj.to_obj];
    try (rewrite (vr_ser H src _ v m Hv); reflexivity).
  - now rewrite (vr_root H src v m Hv).
  - now rewrite (vr_root H src v m Hv).
  - (* vector *) cbn [view_len bind]. destruct (basic_size e) as [s|].
    + now rewrite (vr_packed_iter v m _ _ e s Hv).
    + pose proof (vr_node_iter v m (tree_depth (TVector e n)) n Hv) as Hn. unfold sim in Hn.
      destruct (node_iter src m (tree_depth (TVector e n)) n) as [nm|er]; [|now rewrite Hn].
      destruct Hn as (nv & -> & Hnn). cbn [bind]. now rewrite (seq_res_vrs (to_obj H src e) nv nm Hnn IHe).
  - (* list *) cbn [view_len]. rewrite (sim_eq_is_eq _ _ (vr_mixin H src v m Hv)). destruct (mixin_value H src m) as [ll|]; [|reflexivity]. cbn [bind].
    destruct (basic_size e) as [s|].
    + now rewrite (vr_packed_iter v m _ _ e s Hv).
    + pose proof (vr_node_iter v m (tree_depth (TList e l)) ll Hv) as Hn. unfold sim in Hn.
      destruct (node_iter src m (tree_depth (TList e l)) ll) as [nm|er]; [|now rewrite Hn].
      destruct Hn as (nv & -> & Hnn). cbn [bind]. now rewrite (seq_res_vrs (to_obj H src e) nv nm Hnn IHe).
  - (* container *)
    pose proof (vr_node_iter v m (tree_depth (TContainer fs)) (lenN fs) Hv) as Hn. unfold sim in Hn.
    destruct (node_iter src m (tree_depth (TContainer fs)) (lenN fs)) as [nm|er]; [|now rewrite Hn].
    destruct Hn as (nv & -> & Hnn). cbn [bind]. f_equal.
    generalize 0%nat as i0. revert nv nm Hnn. induction Hfs as [|f fs' Hf Hfs' IH]; intros nv nm Hnn i0; [reflexivity|].
    destruct Hnn as [|x y nv' nm' Hxy Hnn']; [reflexivity|]. rewrite (Hf x y Hxy). destruct (to_obj H src f y); [|reflexivity]. cbn [bind].
    now rewrite (IH nv' nm' Hnn' (S i0)).
  - (* union *)
    rewrite (sim_eq_is_eq _ _ (vr_union_selector H src (TUnion b os) v m Hv)). destruct (union_selector H src (TUnion b os) m) as [sel|]; [|reflexivity]. cbn [bind].
    apply (bind_vr H src _ _ _ _ (vr_get_left H src v m Hv)). intros c c' Hc. rewrite (vr_root H src c c' Hc).
    destruct (b && (sel =? 0)); [reflexivity|]. f_equal.
    generalize (N.to_nat (if b then sel - 1 else sel)) as j. induction Hos as [|o os' Ho Hos' IH]; intros j; [destruct j; reflexivity|].
    destruct j as [|j]; [now apply Ho|apply IH].
Qed.
End WithHash.
