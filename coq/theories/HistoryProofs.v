(* HistoryProofs.v — get_target_history = look the position up in every entry and drop consecutive
   repeats; get_diff is empty on equal roots, sound, and grafting it reproduces the second tree;
   leaf_iter lists every leaf once, left to right (C18). *)
Require Import RM.Base RM.Gindex RM.Tree RM.TreeProofs RM.ModelHistory.

Section WithHash.
Variable H : bytes -> bytes -> bytes.
Notation root := (root H).
Notation nosrc := (fun _ : bytes => @None (bytes * bytes)).
Notation getter := (getter nosrc).
Notation dedup_from := (dedup_from H).
Notation dedup := (dedup H).

(* collision-freeness of the pair hash, as the property presupposes when it identifies
   "distinct subtrees" with "distinct roots" *)
Definition Hinj : Prop := forall a b c d, H a b = H c d -> a = c /\ b = d.

(* ---- specification: look the position up in every entry, drop consecutive repeats ---- *)
Fixpoint lookups (h : list (N * node)) (p : list bool) : result (list (N * node)) :=
  match h with
  | [] => Ok []
  | (k, n) :: r => do x <- getter n p; do rest <- lookups r p; Ok ((k, x) :: rest)
  end.

Definition keyroots (l : list (N * node)) : list (N * bytes) := map (fun kn => (fst kn, root (snd kn))) l.

Lemma bytes_eqb_refl' b : bytes_eqb b b = true.
Proof. now apply bytes_eqb_eq. Qed.
Lemma bytes_eqb_neq a b : a <> b -> bytes_eqb a b = false.
Proof. intros Hn. destruct (bytes_eqb a b) eqn:E; [apply bytes_eqb_eq in E; contradiction|reflexivity]. Qed.
Lemma bytes_eqb_true a b : a = b -> bytes_eqb a b = true.
Proof. intros ->. apply bytes_eqb_refl'. Qed.

(* equal roots have equally-rooted subtrees wherever both can be read (novirt trees, Hinj) *)
Lemma same_root_same_sub (Hi : Hinj) : forall p n m x y, novirt n -> novirt m ->
  root n = root m -> getter n p = Ok x -> getter m p = Ok y -> root x = root y.
Proof.
  induction p as [|b p IH]; intros n m x y Hn Hm Hr Hx Hy; cbn in Hx, Hy.
  - inversion Hx; inversion Hy; subst; exact Hr.
  - destruct n as [rn|nl nr|rn]; cbn in Hx, Hn; try discriminate; try contradiction.
    destruct m as [rm|ml mr|rm]; cbn in Hy, Hm; try discriminate; try contradiction.
    cbn [Tree.root] in Hr. apply Hi in Hr as [Hl Hr']. destruct Hn as [Hn1 Hn2], Hm as [Hm1 Hm2].
    destruct b; [exact (IH nr mr x y Hn2 Hm2 Hr' Hx Hy)|exact (IH nl ml x y Hn1 Hm1 Hl Hx Hy)].
Qed.

Lemma novirt_children n l r : novirt n -> children nosrc n = Some (l, r) -> novirt l /\ novirt r.
Proof. destruct n; cbn; intros Hn E; try discriminate. inversion E; subst; exact Hn. Qed.

Definition all_novirt (h : list (N * node)) : Prop := Forall (fun kn => novirt (snd kn)) h.

(* looking up b::p = children by b, then looking up p *)
Lemma lookups_cons h b p hs : lookups h (b :: p) = Ok hs ->
  exists c, children_of nosrc b h = Ok c /\ lookups c p = Ok hs.
Proof.
  revert hs; induction h as [|[k n] h IH]; intros hs Hl; cbn in Hl.
  - inversion Hl. exists []. split; reflexivity.
  - destruct (children nosrc n) as [[l r]|] eqn:Ec; [|discriminate].
    destruct (getter (if b then r else l) p) as [x|] eqn:Ex; [|discriminate]. cbn [bind] in Hl.
    destruct (lookups h (b :: p)) as [rest|] eqn:Er; [|discriminate]. cbn [bind] in Hl. inversion Hl; subst.
    destruct (IH rest eq_refl) as (c & Hc & Hlc). exists ((k, if b then r else l) :: c).
    cbn [ModelHistory.children_of]. rewrite Ec, Hc. cbn [bind lookups]. rewrite Ex, Hlc. split; reflexivity.
Qed.

Lemma children_of_novirt b h c : all_novirt h -> children_of nosrc b h = Ok c -> all_novirt c.
Proof.
  revert c; induction h as [|[k n] h IH]; intros c Hn Hc; cbn in Hc.
  - inversion Hc. constructor.
  - destruct (children nosrc n) as [[l r]|] eqn:Ec; [|discriminate].
    destruct (children_of nosrc b h) as [rest|] eqn:Er; [|discriminate]. cbn [bind] in Hc. inversion Hc; subst.
    inversion Hn as [|? ? Hn1 Hn2]; subst. cbn [snd] in Hn1. destruct (novirt_children n l r Hn1 Ec).
    constructor; [cbn [snd]; destruct b; assumption|apply IH; auto].
Qed.

(* key lemma: de-duplicating by root before looking deeper does not change the final
   de-duplicated lookups *)
Lemma dedup_lookups_commute (Hi : Hinj) p : forall c last_n hs,
  all_novirt c -> lookups c p = Ok hs ->
  (* last_n: the previously kept entry (if any), whose subtree at p is readable *)
  (match last_n with
   | None => True
   | Some ln => novirt ln /\ exists lx, getter ln p = Ok lx
   end) ->
  exists hs', lookups (dedup_from (option_map root last_n) c) p = Ok hs' /\
    keyroots (dedup_from (match last_n with
                          | Some ln => match getter ln p with Ok lx => Some (root lx) | Err _ => None end
                          | None => None end) hs') =
    keyroots (dedup_from (match last_n with
                          | Some ln => match getter ln p with Ok lx => Some (root lx) | Err _ => None end
                          | None => None end) hs).
Proof.
  induction c as [|[k n] c IH]; intros last_n hs Hn Hl Hlast; cbn in Hl.
  - inversion Hl; subst. exists []. split; reflexivity.
  - destruct (getter n p) as [x|] eqn:Ex; [|discriminate]. cbn [bind] in Hl.
    destruct (lookups c p) as [rest|] eqn:Er; [|discriminate]. cbn [bind] in Hl. inversion Hl; subst. clear Hl.
    inversion Hn as [|? ? Hn1 Hn2]; subst. cbn [snd] in Hn1.
    cbn [ModelHistory.dedup_from].
    destruct last_n as [ln|]; cbn [option_map].
    + destruct Hlast as (Hln & lx & Hlx). rewrite Hlx.
      destruct (bytes_eqb (root n) (root ln)) eqn:Eroot.
      * (* n is dropped: its subtree at p has the same root as ln's, so it is dropped later too *)
        apply bytes_eqb_eq in Eroot.
        pose proof (same_root_same_sub Hi p n ln x lx Hn1 Hln Eroot Ex Hlx) as Hsub.
        destruct (IH (Some ln) rest Hn2 eq_refl (conj Hln (ex_intro _ lx Hlx))) as (hs' & Hl' & Hk').
        cbn [option_map] in Hl'. rewrite Hlx in Hk'.
        exists hs'. split; [exact Hl'|]. rewrite Hk'.
        cbn [ModelHistory.dedup_from snd]. rewrite (bytes_eqb_true _ _ Hsub). reflexivity.
      * (* n is kept *)
        destruct (IH (Some n) rest Hn2 eq_refl (conj Hn1 (ex_intro _ x Ex))) as (hs' & Hl' & Hk').
        cbn [option_map] in Hl'. rewrite Ex in Hk'.
        exists ((k, x) :: hs'). cbn [lookups]. rewrite Ex, Hl'. cbn [bind]. split; [reflexivity|].
        cbn [ModelHistory.dedup_from snd].
        destruct (bytes_eqb (root x) (root lx)) eqn:Exl; [apply bytes_eqb_eq in Exl; rewrite <- Exl; exact Hk'|].
        cbn [keyroots map]. f_equal. exact Hk'.
    + destruct (IH (Some n) rest Hn2 eq_refl (conj Hn1 (ex_intro _ x Ex))) as (hs' & Hl' & Hk').
      cbn [option_map] in Hl'. rewrite Ex in Hk'.
      exists ((k, x) :: hs'). cbn [lookups]. rewrite Ex, Hl'. cbn [bind]. split; [reflexivity|].
      cbn [ModelHistory.dedup_from snd keyroots map]. f_equal. exact Hk'.
Qed.

Lemma dedup_from_novirt c : all_novirt c -> forall last, all_novirt (dedup_from last c).
Proof.
  induction 1 as [|[k n] c Hn1 Hn2 IH]; intros last; cbn [ModelHistory.dedup_from]; [constructor|].
  destruct last as [l|].
  - destruct (bytes_eqb (root n) l); [apply IH|constructor; [exact Hn1|apply IH]].
  - constructor; [exact Hn1|apply IH].
Qed.

(* the changelog = look the position up in every entry and drop consecutive repeats *)
Theorem target_history_spec (Hi : Hinj) : forall p h hs,
  all_novirt h -> lookups h p = Ok hs ->
  exists out, target_history H nosrc h p = Ok out /\ keyroots out = keyroots (dedup hs).
Proof.
  induction p as [|b p IH]; intros h hs Hn Hl.
  - cbn [ModelHistory.target_history]. exists (dedup h). split; [reflexivity|].
    assert (hs = h) as ->; [|reflexivity].
    clear Hn. revert hs Hl. induction h as [|[k n] h IHh]; intros hs Hl; cbn in Hl; [now inversion Hl|].
    destruct (lookups h []) as [rest|] eqn:Er; [|discriminate]. cbn [bind] in Hl. inversion Hl; subst.
    f_equal. now apply IHh.
  - cbn [ModelHistory.target_history].
    destruct (lookups_cons h b p hs Hl) as (c & Hc & Hlc). rewrite Hc. cbn [bind].
    pose proof (children_of_novirt b h c Hn Hc) as Hnc.
    destruct (dedup_lookups_commute Hi p c None hs Hnc Hlc I) as (hs' & Hl' & Hk'). cbn [option_map] in Hl'.
    pose proof (dedup_from_novirt c Hnc None) as Hnd. fold (dedup c) in Hnd.
    destruct (IH (dedup c) hs' Hnd Hl') as (out & Hout & Hko).
    exists out. split; [exact Hout|]. rewrite Hko. exact Hk'.
Qed.

(* corollary: a non-empty history with readable positions gives a non-empty changelog whose first
   entry carries the first key *)
Corollary target_history_nonempty (Hi : Hinj) p k n h hs :
  all_novirt ((k, n) :: h) -> lookups ((k, n) :: h) p = Ok hs ->
  exists out x rest, target_history H nosrc ((k, n) :: h) p = Ok out /\ keyroots out = (k, x) :: rest.
Proof.
  intros Hn Hl. destruct (target_history_spec Hi p _ hs Hn Hl) as (out & Hout & Hk).
  cbn in Hl. destruct (getter n p) as [x|]; [|discriminate]. cbn [bind] in Hl.
  destruct (lookups h p) as [r|]; [|discriminate]. cbn [bind] in Hl. inversion Hl; subst.
  exists out. cbn in Hk. eexists _, _. split; [exact Hout|exact Hk].
Qed.

(* ---- get_diff ---- *)
Notation get_diff := (get_diff H).

Theorem diff_empty a b : root a = root b -> get_diff a b = [].
Proof. intros E. destruct a; cbn [Tree.get_diff]; rewrite (bytes_eqb_true _ _ E); reflexivity. Qed.

Theorem diff_sound : forall a b x y, In (x, y) (get_diff a b) ->
  root x <> root y /\ (is_leaf nosrc x = true \/ is_leaf nosrc y = true) /\
  exists q, getter a q = Ok x /\ getter b q = Ok y.
Proof.
  assert (forall a b x y, bytes_eqb (root a) (root b) = false -> In (x, y) [(a, b)] ->
            (is_leaf nosrc a = true \/ is_leaf nosrc b = true) ->
            root x <> root y /\ (is_leaf nosrc x = true \/ is_leaf nosrc y = true) /\
            exists q, getter a q = Ok x /\ getter b q = Ok y) as Hbase.
  { intros a b x y E [Hin|[]] Hlf. inversion Hin; subst.
    split; [intros Er; rewrite Er, bytes_eqb_refl' in E; discriminate|]. split; [exact Hlf|exists []; split; reflexivity]. }
  induction a as [ra|al IHl ar IHr|ra]; intros b x y Hin; cbn [Tree.get_diff] in Hin;
    match type of Hin with context [bytes_eqb ?u ?v] => destruct (bytes_eqb u v) eqn:E end; try contradiction.
  - apply (Hbase _ _ _ _ E Hin). now left.
  - destruct b as [rb|bl br|rb].
    + apply (Hbase _ _ _ _ E Hin). now right.
    + apply in_app_or in Hin as [Hin|Hin].
      * destruct (IHl bl x y Hin) as (Hne & Hlf & q & Hqa & Hqb). repeat split; auto. exists (false :: q). split; assumption.
      * destruct (IHr br x y Hin) as (Hne & Hlf & q & Hqa & Hqb). repeat split; auto. exists (true :: q). split; assumption.
    + apply (Hbase _ _ _ _ E Hin). now right.
  - apply (Hbase _ _ _ _ E Hin). now left.
Qed.

(* positions of the diff, and grafting the second members into the first tree *)
Fixpoint diff_pos (a b : node) : list (list bool * node) :=
  if bytes_eqb (root a) (root b) then []
  else match a, b with
       | PairN al ar, PairN bl br =>
           map (fun pn => (false :: fst pn, snd pn)) (diff_pos al bl) ++
           map (fun pn => (true :: fst pn, snd pn)) (diff_pos ar br)
       | _, _ => [([], b)]
       end.
Definition graft_all (a : node) (l : list (list bool * node)) : result node :=
  fold_left (fun acc pn => do n <- acc; setter H nosrc false n (fst pn) (snd pn)) l (Ok a).

Lemma diff_pos_snd a : forall b, map snd (diff_pos a b) = map snd (get_diff a b).
Proof.
  induction a as [ra|al IHl ar IHr|ra]; intros b; cbn [diff_pos Tree.get_diff];
    destruct (bytes_eqb _ _); try reflexivity.
  destruct b; try reflexivity. rewrite !map_app, !map_map. cbn [snd]. rewrite <- IHl, <- IHr. reflexivity.
Qed.

Lemma fold_err {A} (f : result node -> A -> result node) (Hf : forall e x, f (Err e) x = Err e) l e :
  fold_left f l (Err e) = Err e.
Proof. induction l as [|x l IH]; cbn; [reflexivity|]. now rewrite Hf. Qed.

Lemma graft_left l r L : forall l', graft_all l L = Ok l' ->
  graft_all (PairN l r) (map (fun pn => (false :: fst pn, snd pn)) L) = Ok (PairN l' r).
Proof.
  unfold graft_all. revert l. induction L as [|[p v] L IH]; intros l l' Hg; cbn [fold_left map] in *.
  - now inversion Hg.
  - cbn [bind fst snd] in *. destruct (setter H nosrc false l p v) as [l1|e] eqn:Es.
    + assert (setter H nosrc false (PairN l r) (false :: p) v = Ok (PairN l1 r)) as ->.
      { rewrite setter_unfold. cbn [Tree.setter_below Tree.children]. apply setter_as_below in Es. now rewrite Es. }
      now apply IH.
    + rewrite fold_err in Hg by reflexivity. discriminate.
Qed.
Lemma graft_right l r R : forall r', graft_all r R = Ok r' ->
  graft_all (PairN l r) (map (fun pn => (true :: fst pn, snd pn)) R) = Ok (PairN l r').
Proof.
  unfold graft_all. revert r. induction R as [|[p v] R IH]; intros r r' Hg; cbn [fold_left map] in *.
  - now inversion Hg.
  - cbn [bind fst snd] in *. destruct (setter H nosrc false r p v) as [r1|e] eqn:Es.
    + assert (setter H nosrc false (PairN l r) (true :: p) v = Ok (PairN l r1)) as ->.
      { rewrite setter_unfold. cbn [Tree.setter_below Tree.children]. apply setter_as_below in Es. now rewrite Es. }
      now apply IH.
    + rewrite fold_err in Hg by reflexivity. discriminate.
Qed.

Theorem graft_root : forall a b, exists a', graft_all a (diff_pos a b) = Ok a' /\ root a' = root b.
Proof.
  induction a as [ra|al IHl ar IHr|ra]; intros b; cbn [diff_pos].
  - destruct (bytes_eqb (root (RootN ra)) (root b)) eqn:E.
    + apply bytes_eqb_eq in E. exists (RootN ra). split; [reflexivity|exact E].
    + exists b. split; reflexivity.
  - destruct (bytes_eqb (root (PairN al ar)) (root b)) eqn:E.
    + apply bytes_eqb_eq in E. exists (PairN al ar). split; [reflexivity|exact E].
    + destruct b as [rb|bl br|rb]; try (eexists; split; reflexivity).
      destruct (IHl bl) as (l' & Hl & Hrl). destruct (IHr br) as (r' & Hr & Hrr).
      exists (PairN l' r'). split.
      * unfold graft_all. rewrite fold_left_app. fold (graft_all (PairN al ar) (map (fun pn => (false :: fst pn, snd pn)) (diff_pos al bl))).
        rewrite (graft_left al ar _ l' Hl). apply (graft_right l' ar _ r' Hr).
      * cbn [Tree.root]. now rewrite Hrl, Hrr.
  - destruct (bytes_eqb (root (VirtN ra)) (root b)) eqn:E.
    + apply bytes_eqb_eq in E. exists (VirtN ra). split; [reflexivity|exact E].
    + exists b. split; reflexivity.
Qed.

(* ---- get_diff lists, left to right, exactly the minimal differing pairs ---- *)
Fixpoint diff_full (a b : node) : list (list bool * (node * node)) :=
  if bytes_eqb (root a) (root b) then []
  else match a, b with
       | PairN al ar, PairN bl br =>
           map (fun e => (false :: fst e, snd e)) (diff_full al bl) ++ map (fun e => (true :: fst e, snd e)) (diff_full ar br)
       | _, _ => [([], (a, b))]
       end.

Lemma diff_full_pairs a : forall b, map snd (diff_full a b) = get_diff a b.
Proof.
  induction a as [ra|al IHl ar IHr|ra]; intros b; cbn [diff_full Tree.get_diff]; destruct (bytes_eqb _ _); try reflexivity.
  destruct b; try reflexivity. rewrite !map_app, !map_map. cbn [snd]. now rewrite IHl, IHr.
Qed.

(* specification.  The roots differ at the position and at every position above it ... *)
Fixpoint differ_down (a b : node) (q : list bool) {struct q} : Prop :=
  root a <> root b /\
  match q with
  | [] => True
  | d :: q' =>
      match a, b with
      | PairN al ar, PairN bl br => differ_down (if d then ar else al) (if d then br else bl) q'
      | _, _ => False
      end
  end.
Definition both_pairs (x y : node) : Prop := match x, y with PairN _ _, PairN _ _ => True | _, _ => False end.
(* ... and the pair cannot be refined any further: one of the two subtrees has no children to compare *)
Definition minimal_pair (a b : node) (q : list bool) (x y : node) : Prop :=
  getter a q = Ok x /\ getter b q = Ok y /\ differ_down a b q /\ ~ both_pairs x y.

Theorem diff_exact : forall a b q x y, In (q, (x, y)) (diff_full a b) <-> minimal_pair a b q x y.
Proof.
  assert (forall a b, bytes_eqb (root a) (root b) = false -> ~ both_pairs a b ->
            forall q x y, In (q, (x, y)) [([], (a, b))] <-> minimal_pair a b q x y) as Hbase.
  { intros a b E Hnb q x y. assert (root a <> root b) as Hne by (intros Er; rewrite Er, bytes_eqb_refl' in E; discriminate). split.
    - intros [Hin|[]]. inversion Hin; subst. unfold minimal_pair. cbn [Tree.getter]. split; [reflexivity|]. split; [reflexivity|]. split; [cbn [differ_down]; split; [exact Hne|exact I]|exact Hnb].
    - intros (Hx & Hy & Hd & Hm). destruct q as [|d q].
      + cbn in Hx, Hy. inversion Hx; inversion Hy; subst. now left.
      + exfalso. cbn [differ_down] in Hd. destruct Hd as [_ Hd]. destruct a; try contradiction. destruct b; try contradiction. apply Hnb. exact I. }
  induction a as [ra|al IHl ar IHr|ra]; intros b q x y; cbn [diff_full];
    match goal with |- context [bytes_eqb ?u ?v] => destruct (bytes_eqb u v) eqn:E end.
  - split; [intros []|]. intros (_ & _ & Hd & _). apply bytes_eqb_eq in E. destruct q; cbn [differ_down] in Hd; destruct Hd as [Hd _]; contradiction.
  - apply Hbase; [exact E|intros Hb; exact Hb].
  - split; [intros []|]. intros (_ & _ & Hd & _). apply bytes_eqb_eq in E. destruct q; cbn [differ_down] in Hd; destruct Hd as [Hd _]; contradiction.
  - assert (root (PairN al ar) <> root b) as Hne by (intros Er; rewrite Er, bytes_eqb_refl' in E; discriminate).
    destruct b as [rb|bl br|rb]; try (apply Hbase; [exact E|intros Hb; exact Hb]).
    rewrite in_app_iff, !in_map_iff. split.
    + intros [((q' & xy) & Eq & Hin)|((q' & xy) & Eq & Hin)]; cbn [fst snd] in Eq; inversion Eq; subst.
      * apply IHl in Hin. destruct Hin as (Hx & Hy & Hd & Hm). repeat split; auto.
      * apply IHr in Hin. destruct Hin as (Hx & Hy & Hd & Hm). repeat split; auto.
    + intros (Hx & Hy & Hd & Hm). destruct q as [|d q].
      * cbn in Hx, Hy. inversion Hx; inversion Hy; subst. exfalso. apply Hm. exact I.
      * cbn [differ_down] in Hd. destruct Hd as [_ Hd]. cbn in Hx, Hy. destruct d.
        -- right. exists (q, (x, y)). split; [reflexivity|]. apply IHr. repeat split; auto.
        -- left. exists (q, (x, y)). split; [reflexivity|]. apply IHl. repeat split; auto.
  - split; [intros []|]. intros (_ & _ & Hd & _). apply bytes_eqb_eq in E. destruct q; cbn [differ_down] in Hd; destruct Hd as [Hd _]; contradiction.
  - apply Hbase; [exact E|intros Hb; exact Hb].
Qed.

(* left to right: the reported positions are strictly increasing in the left-before-right order, in particular
   pairwise distinct and never nested *)
Inductive lex_lt : list bool -> list bool -> Prop :=
| lex_here p q : lex_lt (false :: p) (true :: q)
| lex_tail d p q : lex_lt p q -> lex_lt (d :: p) (d :: q).

Fixpoint prefix (p q : list bool) : Prop :=
  match p, q with [], _ => True | d :: p', e :: q' => d = e /\ prefix p' q' | _ :: _, [] => False end.
Lemma lex_lt_disjoint p q : lex_lt p q -> ~ prefix p q /\ ~ prefix q p.
Proof. induction 1 as [p q|d p q _ [IH1 IH2]]; cbn; split; intros [E Hp]; try discriminate; auto. Qed.

Inductive sorted_lt : list (list bool) -> Prop :=
| sorted_nil : sorted_lt []
| sorted_cons p l : Forall (lex_lt p) l -> sorted_lt l -> sorted_lt (p :: l).

Lemma sorted_map d l : sorted_lt l -> sorted_lt (map (cons d) l).
Proof.
  induction 1 as [|p l Hp Hs IH]; cbn [map]; constructor; auto.
  rewrite Forall_map. eapply Forall_impl; [|exact Hp]. intros q Hq. now constructor.
Qed.
Lemma sorted_app l r : sorted_lt l -> sorted_lt r -> (forall p q, In p l -> In q r -> lex_lt p q) -> sorted_lt (l ++ r).
Proof.
  induction 1 as [|p l Hp Hs IH]; intros Hr Hlr; cbn [app]; [exact Hr|]. constructor.
  - apply Forall_app. split; [exact Hp|]. apply Forall_forall. intros q Hq. apply Hlr; [now left|exact Hq].
  - apply IH; [exact Hr|]. intros p' q Hp' Hq. apply Hlr; [now right|exact Hq].
Qed.

Theorem diff_sorted : forall a b, sorted_lt (map fst (diff_full a b)).
Proof.
  induction a as [ra|al IHl ar IHr|ra]; intros b; cbn [diff_full]; destruct (bytes_eqb _ _); try constructor; try constructor.
  destruct b as [rb|bl br|rb]; try (repeat constructor).
  rewrite map_app, !map_map. cbn [fst].
  rewrite <- (map_map fst (cons false)), <- (map_map fst (cons true)).
  apply sorted_app; [apply sorted_map, IHl|apply sorted_map, IHr|].
  intros p q Hp Hq. apply in_map_iff in Hp as (p' & <- & _). apply in_map_iff in Hq as (q' & <- & _). constructor.
Qed.

(* with a collision-free hash, "the roots differ all the way down to the position" is just "the roots differ at the
   position": the changelog is exactly the set of positions whose subtrees differ and cannot be refined *)
Lemma differ_down_inj (Hi : Hinj) : forall q a b x y, novirt a -> novirt b ->
  getter a q = Ok x -> getter b q = Ok y -> root x <> root y -> differ_down a b q.
Proof.
  induction q as [|d q IH]; intros a b x y Ha Hb Hx Hy Hne.
  - cbn in Hx, Hy. inversion Hx; inversion Hy; subst. split; [exact Hne|exact I].
  - split.
    + intros Er. apply Hne. exact (same_root_same_sub Hi (d :: q) a b x y Ha Hb Er Hx Hy).
    + destruct a as [ra|al ar|ra]; cbn in Hx; try discriminate. destruct b as [rb|bl br|rb]; cbn in Hy; try discriminate.
      destruct Ha as [Ha1 Ha2], Hb as [Hb1 Hb2]. destruct d; [apply (IH ar br x y)|apply (IH al bl x y)]; auto.
Qed.

Corollary diff_exact_inj (Hi : Hinj) a b q x y : novirt a -> novirt b ->
  (In (q, (x, y)) (diff_full a b) <-> getter a q = Ok x /\ getter b q = Ok y /\ root x <> root y /\ ~ both_pairs x y).
Proof.
  intros Ha Hb. rewrite diff_exact. unfold minimal_pair. split.
  - intros (Hx & Hy & Hd & Hm). repeat split; auto. clear Hm. revert a b Ha Hb Hx Hy Hd. induction q as [|d q IH]; intros a b Ha Hb Hx Hy Hd.
    + cbn in Hx, Hy. inversion Hx; inversion Hy; subst. now destruct Hd.
    + destruct Hd as [_ Hd]. destruct a as [ra|al ar|ra]; try contradiction. destruct b as [rb|bl br|rb]; try contradiction.
      cbn in Hx, Hy. destruct Ha as [Ha1 Ha2], Hb as [Hb1 Hb2]. destruct d; [apply (IH ar br)|apply (IH al bl)]; auto.
  - intros (Hx & Hy & Hne & Hm). repeat split; auto. now apply (differ_down_inj Hi q a b x y).
Qed.


(* ---- leaf_iter ---- *)
Fixpoint leaf_paths (n : node) : list (list bool) :=
  match n with
  | PairN l r => map (cons false) (leaf_paths l) ++ map (cons true) (leaf_paths r)
  | _ => [[]]
  end.
Theorem leaf_iter_spec : forall n, map (fun x => Ok x) (leaf_iter n) = map (getter n) (leaf_paths n).
Proof.
  induction n as [r|l IHl rr IHr|r]; cbn [Tree.leaf_iter leaf_paths]; try reflexivity.
  rewrite !map_app, IHl, IHr, !map_map. reflexivity.
Qed.

End WithHash.
