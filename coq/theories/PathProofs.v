(* PathProofs.v — static generalized indices of the implementation model equal the specification's
   get_generalized_index, and exactly the specification's keys are accepted (C08). *)
Require Import RM.Base RM.Gindex RM.Tree RM.Types RM.Spec RM.ModelViews RM.ModelPaths RM.PackProofs RM.CtorProofs.
From Coq Require Import ZifyBool ZifyNat ZifyN.
Ltac Zify.zify_post_hook ::= Z.to_euclidean_division_equations.
Local Open Scope N_scope.

Lemma land_pow2_small d i : i < 2 ^ d -> N.land (2 ^ d) i = 0.
Proof.
  intros Hi. apply N.bits_inj. intros n. rewrite N.land_spec, N.bits_0, N.pow2_bits_eqb.
  destruct (N.eqb_spec d n) as [->|Hne]; cbn [andb]; [|reflexivity].
  destruct (N.eq_dec i 0) as [->|Hz]; [now rewrite N.bits_0|].
  apply N.bits_above_log2. apply N.log2_lt_pow2; lia.
Qed.

Lemma lor_pow2_small d i : i < 2 ^ d -> N.lor (2 ^ d) i = 2 ^ d + i.
Proof.
  intros Hi. pose proof (land_pow2_small d i Hi) as E.
  rewrite (N.add_nocarry_lxor _ _ E). symmetry. now apply N.lxor_lor.
Qed.

(* to_gindex i d = 2^d + i for i < 2^d (tree.py:20-24) *)
Lemma to_gindex_ok i d : i < 2 ^ N.of_nat d -> to_gindex i d = Ok (2 ^ N.of_nat d + i).
Proof.
  intros Hi. unfold to_gindex. rewrite N.shiftl_1_l.
  destruct (2 ^ N.of_nat d <=? i) eqn:E; [apply N.leb_le in E; lia|]. now rewrite lor_pow2_small.
Qed.

Lemma next_pow2_depth c : next_pow2 c = 2 ^ N.of_nat (depth_of c).
Proof. unfold next_pow2, depth_of. rewrite N.shiftl_1_l, N2Nat.id. reflexivity. Qed.

Lemma pow2_depth_fits c : c <= 2 ^ N.of_nat (get_depth c).
Proof.
  pose proof (get_depth_fits c) as Hf. rewrite <- (N2Nat.id c) at 1.
  rewrite <- (Nat2N.id (2 ^ get_depth c)) in Hf. rewrite Nat2N.inj_pow in Hf. cbn in Hf. lia.
Qed.

(* packed index arithmetic: key // elems_per_chunk = (key * size) // 32 *)
Lemma packed_index s i : (s = 1 \/ s = 2 \/ s = 4 \/ s = 8 \/ s = 16 \/ s = 32) ->
  i / elems_per_chunk s = (i * s) / 32.
Proof. unfold elems_per_chunk. intros [->|[->|[->|[->|[->| ->]]]]]; cbn; lia. Qed.

Lemma packed_index_lt s i n : (s = 1 \/ s = 2 \/ s = 4 \/ s = 8 \/ s = 16 \/ s = 32) -> i < n ->
  (i * s) / 32 < (n * s + 31) / 32 \/ (n * s + 31) / 32 = 0.
Proof. intros [->|[->|[->|[->|[->| ->]]]]] Hi; left; lia. Qed.

(* the one-step theorem: every key the implementation accepts is a key of the specification, with
   the same type reached and the same generalized index; and vice versa *)
Theorem static_step_eq_spec t k t' : wf_ty t = true -> navigate_type t k = Ok t' ->
  exists sk g, spec_key k = Some sk /\ key_to_static_gindex t k = Ok g /\ spec_step t sk = Some (g, t').
Proof.
  intros Hty Hnav. pose proof (depth_eq t Hty) as Hd.
  destruct t as [kk| |n|l|n|l|e n|e l|fs|b os]; destruct k as [i|fi| |]; cbn [navigate_type] in Hnav; try discriminate.
  - (* bitvector *)
    destruct ((i <? 0)%Z || (Z.of_N n <=? i)%Z) eqn:E; [discriminate|]. inversion Hnav; subst t'.
    apply orb_false_iff in E as [E0 E1]. exists (KIndex (Z.to_N i)), (2 ^ N.of_nat (contents_depth (TBitvector n)) + Z.to_N i / 256).
    cbn [spec_key key_to_static_gindex spec_step tree_depth has_mixin]. rewrite E0, E1. cbn [orb].
    assert (Z.to_N i <? n = true) as -> by (apply N.ltb_lt; lia).
    split; [reflexivity|]. split.
    + apply to_gindex_ok. cbn [contents_depth]. pose proof (pow2_depth_fits ((n + 255) / 256)). lia.
    + rewrite next_pow2_depth, <- Hd. reflexivity.
  - (* bitlist index *)
    destruct ((i <? 0)%Z || (Z.of_N l <=? i)%Z) eqn:E; [discriminate|]. inversion Hnav; subst t'.
    apply orb_false_iff in E as [E0 E1]. exists (KIndex (Z.to_N i)), (2 * 2 ^ N.of_nat (contents_depth (TBitlist l)) + Z.to_N i / 256).
    cbn [spec_key key_to_static_gindex spec_step tree_depth has_mixin]. rewrite E0, E1. cbn [orb].
    assert (Z.to_N i <? l = true) as -> by (apply N.ltb_lt; lia).
    split; [reflexivity|]. split.
    + rewrite to_gindex_ok; [f_equal; rewrite Nat2N.inj_succ, N.pow_succ_r'; reflexivity|].
      rewrite Nat2N.inj_succ, N.pow_succ_r'. cbn [contents_depth]. pose proof (pow2_depth_fits ((l + 255) / 256)). lia.
    + rewrite next_pow2_depth, <- Hd. reflexivity.
  - (* bitlist len *) inversion Hnav; subst. exists KLen, 3. repeat split.
  - (* bytevector *)
    destruct ((i <? 0)%Z || (Z.of_N n <=? i)%Z) eqn:E; [discriminate|]. inversion Hnav; subst t'.
    apply orb_false_iff in E as [E0 E1]. exists (KIndex (Z.to_N i)), (2 ^ N.of_nat (contents_depth (TByteVector n)) + Z.to_N i / 32).
    cbn [spec_key key_to_static_gindex spec_step tree_depth has_mixin]. rewrite E0, E1. cbn [orb].
    assert (Z.to_N i <? n = true) as -> by (apply N.ltb_lt; lia).
    split; [reflexivity|]. split.
    + apply to_gindex_ok. cbn [contents_depth]. pose proof (pow2_depth_fits ((n + 31) / 32)). lia.
    + rewrite next_pow2_depth, <- Hd. reflexivity.
  - (* bytelist index *)
    destruct ((i <? 0)%Z || (Z.of_N l <=? i)%Z) eqn:E; [discriminate|]. inversion Hnav; subst t'.
    apply orb_false_iff in E as [E0 E1]. exists (KIndex (Z.to_N i)), (2 * 2 ^ N.of_nat (contents_depth (TByteList l)) + Z.to_N i / 32).
    cbn [spec_key key_to_static_gindex spec_step tree_depth has_mixin]. rewrite E0, E1. cbn [orb].
    assert (Z.to_N i <? l = true) as -> by (apply N.ltb_lt; lia).
    split; [reflexivity|]. split.
    + rewrite to_gindex_ok; [f_equal; rewrite Nat2N.inj_succ, N.pow_succ_r'; reflexivity|].
      rewrite Nat2N.inj_succ, N.pow_succ_r'. cbn [contents_depth]. pose proof (pow2_depth_fits ((l + 31) / 32)). lia.
    + rewrite next_pow2_depth, <- Hd. reflexivity.
  - (* bytelist len *) inversion Hnav; subst. exists KLen, 3. repeat split.
  - (* vector *)
    destruct ((Z.of_N n <=? i)%Z || (i <? 0)%Z) eqn:E; [discriminate|]. inversion Hnav; subst t'.
    apply orb_false_iff in E as [E1 E0]. pose proof Hty as Hty0.
    cbn [wf_ty] in Hty. apply andb_true_iff in Hty as [Hty _]. apply andb_true_iff in Hty as [Hte _].
    exists (KIndex (Z.to_N i)).
    cbn [spec_key key_to_static_gindex spec_step tree_depth has_mixin]. rewrite E0, E1. cbn [orb].
    assert (Z.to_N i <? n = true) as -> by (apply N.ltb_lt; lia).
    rewrite next_pow2_depth, <- Hd. cbn [contents_depth chunk_count] in *. unfold to_chunk_length in *.
    destruct (basic_size e) as [s|] eqn:Es.
    + pose proof (basic_size_ok e s Hte Es) as Hs. rewrite (packed_index s _ Hs).
      eexists. split; [reflexivity|]. split; [|reflexivity].
      apply to_gindex_ok. rewrite (chunk_len_eq s n Hs).
      pose proof (pow2_depth_fits ((n * s + 31) / 32)).
      assert (Z.to_N i * s / 32 < (n * s + 31) / 32) by (destruct Hs as [->|[->|[->|[->|[->| ->]]]]]; lia). lia.
    + eexists. split; [reflexivity|]. split; [|reflexivity].
      apply to_gindex_ok. pose proof (pow2_depth_fits n). lia.
  - (* list index *)
    destruct ((Z.of_N l <=? i)%Z || (i <? 0)%Z) eqn:E; [discriminate|]. inversion Hnav; subst t'.
    apply orb_false_iff in E as [E1 E0]. pose proof Hty as Hty0.
    cbn [wf_ty] in Hty. apply andb_true_iff in Hty as [Hte _].
    exists (KIndex (Z.to_N i)).
    cbn [spec_key key_to_static_gindex spec_step tree_depth has_mixin]. rewrite E0, E1. cbn [orb].
    assert (Z.to_N i <? l = true) as -> by (apply N.ltb_lt; lia).
    rewrite next_pow2_depth, <- Hd. cbn [contents_depth chunk_count] in *. unfold to_chunk_length in *.
    destruct (basic_size e) as [s|] eqn:Es.
    + pose proof (basic_size_ok e s Hte Es) as Hs. rewrite (packed_index s _ Hs).
      eexists. split; [reflexivity|]. split.
      * rewrite to_gindex_ok; [reflexivity|].
        rewrite Nat2N.inj_succ, N.pow_succ_r'. rewrite (chunk_len_eq s l Hs).
        pose proof (pow2_depth_fits ((l * s + 31) / 32)).
        assert (Z.to_N i * s / 32 < (l * s + 31) / 32) by (destruct Hs as [->|[->|[->|[->|[->| ->]]]]]; lia). lia.
      * rewrite Nat2N.inj_succ, N.pow_succ_r' by lia. reflexivity.
    + eexists. split; [reflexivity|]. split.
      * rewrite to_gindex_ok; [reflexivity|].
        rewrite Nat2N.inj_succ, N.pow_succ_r'. pose proof (pow2_depth_fits l). lia.
      * rewrite Nat2N.inj_succ, N.pow_succ_r' by lia. reflexivity.
  - (* list len *) inversion Hnav; subst. exists KLen, 3. repeat split.
  - (* container *)
    destruct (nth_error fs fi) as [f|] eqn:Ef; [|discriminate]. inversion Hnav; subst t'.
    assert (fi < length fs)%nat as Hfi by (apply nth_error_Some; congruence).
    exists (KIndex (N.of_nat fi)), (2 ^ N.of_nat (contents_depth (TContainer fs)) + N.of_nat fi).
    cbn [spec_key key_to_static_gindex spec_step tree_depth has_mixin]. rewrite Ef, Nat2N.id, Ef.
    assert (N.of_nat fi <? lenN fs = true) as -> by (apply N.ltb_lt; unfold lenN; lia).
    split; [reflexivity|]. split.
    + apply to_gindex_ok. cbn [contents_depth]. pose proof (pow2_depth_fits (lenN fs)). unfold lenN in *. lia.
    + rewrite next_pow2_depth, <- Hd. reflexivity.
  - (* union option *)
    destruct ((i <? 0)%Z || (Z.of_N (lenN os + (if b then 1 else 0)) <=? i)%Z) eqn:E; [discriminate|].
    apply orb_false_iff in E as [E0 E1].
    destruct (union_opt b os (Z.to_nat i)) as [o|] eqn:Eo; [|discriminate]. inversion Hnav; subst t'.
    exists (KIndex (Z.to_N i)), 2. cbn [spec_key key_to_static_gindex spec_step]. rewrite E0, E1. cbn [orb].
    assert (Z.to_N i <? lenN os + (if b then 1 else 0) = true) as -> by (apply N.ltb_lt; lia).
    replace (N.to_nat (Z.to_N i)) with (Z.to_nat i) by lia. rewrite Eo. repeat split.
  - (* union selector *) inversion Hnav; subst. exists KSelector, 3. repeat split.
Qed.

(* conversely: a key the specification does not know is rejected when the path is built *)
Theorem invalid_key_rejected t k : wf_ty t = true ->
  (match spec_key k with Some sk => spec_step t sk = None | None => True end) ->
  (* the None option of a union has no type to navigate into: the only key the spec rejects that is a valid selector *)
  exists e, navigate_type t k = Err e.
Proof.
  intros Hty Hs. destruct (navigate_type t k) as [t'|e] eqn:E; [|eauto].
  destruct (static_step_eq_spec t k t' Hty E) as (sk & g & Hk & _ & Hsp). rewrite Hk in Hs. congruence.
Qed.

(* navigation stays inside well-formed types *)
Lemma navigate_wf t k t' : wf_ty t = true -> navigate_type t k = Ok t' -> wf_ty t' = true.
Proof.
  intros Hty Hnav.
  destruct t as [kk| |n|l|n|l|e n|e l|fs|b os]; destruct k as [i|fi| |]; cbn [navigate_type] in Hnav; try discriminate;
    repeat match type of Hnav with (if ?c then _ else _) = _ => destruct c; try discriminate end;
    try (inversion Hnav; subst; reflexivity).
  - inversion Hnav; subst. cbn [wf_ty] in Hty. apply andb_true_iff in Hty as [Hty _]. now apply andb_true_iff in Hty as [Hty _].
  - inversion Hnav; subst. cbn [wf_ty] in Hty. now apply andb_true_iff in Hty as [Hty _].
  - destruct (nth_error fs fi) as [f|] eqn:Ef; [|discriminate]. inversion Hnav; subst.
    cbn [wf_ty] in Hty. apply andb_true_iff in Hty as [_ Hall]. rewrite forallb_forall in Hall.
    apply Hall. eapply nth_error_In; eauto.
  - destruct (union_opt b os (Z.to_nat i)) as [o|] eqn:Eo; [|discriminate]. inversion Hnav; subst.
    cbn [wf_ty] in Hty. apply andb_true_iff in Hty as [Hty _]. apply andb_true_iff in Hty as [Hall _].
    rewrite forallb_forall in Hall. apply Hall. unfold union_opt in Eo.
    destruct b; [destruct (Z.to_nat i); [discriminate|]|]; eapply nth_error_In; eauto.
Qed.

(* the specification's step list of a key sequence *)
Fixpoint spec_steps (t : ty) (ks : list pkey) : option (list N * ty) :=
  match ks with
  | [] => Some ([], t)
  | k :: r =>
      match spec_key k with
      | None => None
      | Some sk =>
          match spec_step t sk with
          | None => None
          | Some (g, t') =>
              match spec_steps t' r with
              | Some (gs, tend) => Some (g :: gs, tend)
              | None => None
              end
          end
      end
  end.

(* whole paths: a path that can be built has, step by step, the specification's generalized
   indices and reaches the specification's type; Path.gindex() concatenates exactly those steps *)
Theorem path_steps_eq_spec : forall ks t p, wf_ty t = true -> build_path t ks = Ok p ->
  exists gs tend, step_gindices t p = Ok gs /\ spec_steps t ks = Some (gs, tend) /\
                  path_type t ks = Ok tend /\ path_gindex t ks = concat_gindices gs.
Proof.
  assert (forall ks t p, wf_ty t = true -> build_path t ks = Ok p ->
            exists gs tend, step_gindices t p = Ok gs /\ spec_steps t ks = Some (gs, tend) /\
                            tend = match rev p with (_, t') :: _ => t' | [] => t end) as Hcore.
  { induction ks as [|k ks IH]; intros t p Hty Hb; cbn [build_path] in Hb.
    - inversion Hb; subst. exists [], t. repeat split.
    - destruct (navigate_type t k) as [t'|] eqn:Hn; [|discriminate]. cbn [bind] in Hb.
      destruct (build_path t' ks) as [rest|] eqn:Hr; [|discriminate]. cbn [bind] in Hb. inversion Hb; subst p.
      destruct (static_step_eq_spec t k t' Hty Hn) as (sk & g & Hk & Hg & Hs).
      destruct (IH t' rest (navigate_wf t k t' Hty Hn) Hr) as (gs & tend & Hgs & Hss & Ht).
      exists (g :: gs), tend. cbn [step_gindices spec_steps]. rewrite Hg, Hgs, Hk, Hs, Hss. cbn [bind].
      repeat split. subst tend. cbn [rev]. destruct (rev rest) as [|[k0 t0] r0]; reflexivity. }
  intros ks t p Hty Hb. destruct (Hcore ks t p Hty Hb) as (gs & tend & Hgs & Hss & Ht).
  exists gs, tend. repeat split; auto.
  - unfold path_type. rewrite Hb. cbn [bind]. now subst tend.
  - unfold path_gindex. rewrite Hb. cbn [bind]. rewrite Hgs. reflexivity.
Qed.

(* ---- generalized index <-> path ---- *)
Lemma pos_bits_app p : forall acc, pos_bits p acc = pos_bits p [] ++ acc.
Proof.
  induction p as [p IH|p IH|]; intros acc; cbn [pos_bits]; [| |reflexivity].
  - rewrite (IH (true :: acc)), (IH [true]). now rewrite <- app_assoc.
  - rewrite (IH (false :: acc)), (IH [false]). now rewrite <- app_assoc.
Qed.

(* appending one bit to the path = 2g + bit *)
Lemma path_double g p (b : bool) : path_of_gindex g = Some p ->
  path_of_gindex (2 * g + (if b then 1 else 0)) = Some (p ++ [b]).
Proof.
  destruct g as [|q]; cbn [path_of_gindex]; [discriminate|]. intros E. inversion E; subst. clear E.
  destruct b; cbn [N.mul N.add path_of_gindex Pos.mul Pos.add pos_bits]; now rewrite pos_bits_app.
Qed.

Lemma be_bits_snoc d : forall i, be_bits (S d) i = be_bits d (i / 2) ++ [N.odd i].
Proof.
  induction d as [|d IH]; intros i.
  - cbn [be_bits app]. now rewrite N.bit0_odd.
  - cbn [be_bits] in *. rewrite IH. cbn [app]. f_equal.
    rewrite <- N.div2_div, N.div2_spec, N.shiftr_spec by lia. f_equal. lia.
Qed.

(* the path of to_gindex i d is the d-bit big-endian expansion of i *)
Theorem path_of_to_gindex : forall d i, i < 2 ^ N.of_nat d ->
  path_of_gindex (2 ^ N.of_nat d + i) = Some (be_bits d i).
Proof.
  induction d as [|d IH]; intros i Hi.
  - cbn in Hi. assert (i = 0) as -> by lia. reflexivity.
  - rewrite be_bits_snoc. rewrite Nat2N.inj_succ, N.pow_succ_r' in *.
    assert (i / 2 < 2 ^ N.of_nat d) as Hh by lia.
    pose proof (path_double _ _ (N.odd i) (IH (i / 2) Hh)) as Hp.
    replace (2 * 2 ^ N.of_nat d + i) with (2 * (2 ^ N.of_nat d + i / 2) + (if N.odd i then 1 else 0)); [exact Hp|].
    pose proof (N.div_mod i 2 ltac:(lia)) as Hdm. rewrite <- N.bit0_mod in Hdm. rewrite N.bit0_odd in Hdm.
    destruct (N.odd i); cbn [N.b2n] in Hdm; lia.
Qed.

Lemma be_bits_length d i : length (be_bits d i) = d.
Proof. induction d as [|d IH]; cbn; [reflexivity|now rewrite IH]. Qed.
