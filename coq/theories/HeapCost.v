(* HeapCost.v — C19: the cost of merkle_root().  Every hash fills exactly one empty root cache, so  hashes + (number of pair objects without a cached root)  is invariant under merkle_root(); a write adds one uncached pair per path step (two where a zero summary is expanded) and hashes nothing.  Hence the re-hash bound after a write, and zero cost when nothing is unhashed. *)
Require Import RM.Base RM.Gindex RM.Tree RM.TreeHeap RM.HeapProofs.
From Coq Require Import ZifyNat ZifyN.
(* ---- how much the next merkle_root() can cost: every hash fills exactly one empty root cache ---- *)
Definition is_unc (o : hobj) : bool := match o with HPair _ _ None => true | _ => false end.
Definition unc (h : heap) : nat := length (filter is_unc (objs h)).

Lemma unc_alloc h o : unc (snd (h_alloc h o)) = unc h + (if is_unc o then 1 else 0).
Proof. unfold unc, h_alloc. cbn [snd objs]. rewrite filter_app, app_length. cbn [filter]. destruct (is_unc o); cbn; lia. Qed.
Lemma unc_bump h : unc (bump h) = unc h.
Proof. reflexivity. Qed.

Lemma nth_split {A} (l : list A) a x : nth_error l a = Some x -> l = firstn a l ++ x :: skipn (S a) l.
Proof.
  revert a. induction l as [|y l IH]; intros [|a] Hn; cbn in *; try discriminate; [now inversion Hn|]. f_equal. now apply IH.
Qed.

Lemma unc_set_cache_none h a c l r : h_get h a = Some (HPair l r None) -> unc (set_cache h a c) + 1 = unc h.
Proof.
  intros Hg. unfold set_cache. rewrite Hg. unfold unc. cbn [objs].
  rewrite (nth_split (objs h) a _ Hg) at 3. rewrite !filter_app, !app_length. cbn [filter is_unc length]. lia.
Qed.

Lemma wfh_skel h h' : wfh h -> same_skel h h' -> wfh h'.
Proof.
  intros Hw Hs a l r c Hg. specialize (Hs a). rewrite Hg in Hs. cbn [skel] in Hs.
  destruct (h_get h a) as [[r0|l0 r0 c0]|] eqn:G; cbn in Hs; try discriminate. inversion Hs; subst l0 r0. exact (Hw a l r c0 G).
Qed.

Lemma h_root_above H : forall f h x rt h', wfh h -> h_root H f h x = Some (rt, h') -> forall y, x < y -> h_get h' y = h_get h y.
Proof.
  induction f as [|f IH]; intros h x rt h' Hw Hr y Hy; [discriminate|].
  cbn [h_root] in Hr. destruct (h_get h x) as [[r|l r [c|]]|] eqn:Hg; try discriminate; try (inversion Hr; subst; reflexivity).
  destruct (h_root H f h l) as [[rl h1]|] eqn:Hl; [|discriminate].
  destruct (h_root H f h1 r) as [[rr h2]|] eqn:Hrr; [|discriminate]. inversion Hr; subst. clear Hr.
  destruct (Hw x l r None Hg) as [Hlx Hrx].
  pose proof (wfh_skel h h1 Hw (h_root_skel H _ _ _ _ _ Hl)) as Hw1.
  rewrite set_cache_other by lia. unfold h_get, bump. cbn [objs]. fold (h_get h2 y).
  rewrite (IH h1 r rr h2 Hw1 Hrr y ltac:(lia)). apply (IH h l rl h1 Hw Hl y). lia.
Qed.

(* the potential  hashes + (number of pair objects without a cached root)  is invariant under merkle_root() *)
Theorem h_root_potential H : forall f h a rt h', wfh h -> h_root H f h a = Some (rt, h') ->
  (hashes h' + N.of_nat (unc h') = hashes h + N.of_nat (unc h))%N.
Proof.
  induction f as [|f IH]; intros h a rt h' Hw Hr; [discriminate|].
  cbn [h_root] in Hr. destruct (h_get h a) as [[r|l r [c|]]|] eqn:Hg; try discriminate; try (inversion Hr; subst; reflexivity).
  destruct (h_root H f h l) as [[rl h1]|] eqn:Hl; [|discriminate].
  destruct (h_root H f h1 r) as [[rr h2]|] eqn:Hrr; [|discriminate]. inversion Hr; subst. clear Hr.
  destruct (Hw a l r None Hg) as [Hla Hra].
  pose proof (wfh_skel h h1 Hw (h_root_skel H _ _ _ _ _ Hl)) as Hw1.
  pose proof (IH h l rl h1 Hw Hl) as P1. pose proof (IH h1 r rr h2 Hw1 Hrr) as P2.
  assert (h_get h2 a = Some (HPair l r None)) as Hg2.
  { rewrite (h_root_above H f h1 r rr h2 Hw1 Hrr a Hra), (h_root_above H f h l rl h1 Hw Hl a Hla). exact Hg. }
  assert (h_get (bump h2) a = Some (HPair l r None)) as Hg3 by exact Hg2.
  pose proof (unc_set_cache_none (bump h2) a (H rl rr) l r Hg3) as Hu. rewrite unc_bump in Hu.
  assert (hashes (set_cache (bump h2) a (H rl rr)) = hashes h2 + 1)%N as Hh.
  { unfold set_cache. rewrite Hg3. reflexivity. }
  rewrite Hh. lia.
Qed.

(* a write adds at most two uncached pair objects per path step (one when nothing is expanded) and hashes nothing *)
Lemma h_expand_unc H k h : unc (snd (h_expand H k h)) = unc h + 1.
Proof.
  unfold h_expand, h_zero_node. destruct (h_alloc h (HRoot (zero_hash H k))) as [z h0] eqn:E0.
  destruct (h_alloc h0 (HPair z z None)) as [x h0'] eqn:E1. cbn [snd].
  pose proof (unc_alloc h (HRoot (zero_hash H k))) as U0. rewrite E0 in U0. cbn [snd is_unc] in U0.
  pose proof (unc_alloc h0 (HPair z z None)) as U1. rewrite E1 in U1. cbn [snd is_unc] in U1. lia.
Qed.

Theorem h_setter_unc H e : forall p h a v a' h', h_setter H e h a p v = Ok (a', h') ->
  unc h' <= unc h + 2 * length p /\ (e = false -> unc h' = unc h + length p).
Proof.
  induction p as [|b p IH]; intros h a v a' h' Hs; cbn [h_setter] in Hs.
  - inversion Hs; subst. cbn. split; [lia|intros; lia].
  - destruct (h_get h a) as [[rt|l r c]|]; [| |discriminate].
    + destruct (e && bytes_eqb rt (zero_hash H (length (b :: p)))) eqn:Ee; [|discriminate].
      destruct (h_expand H (length p) h) as [z h0'] eqn:Ex.
      destruct (h_setter H e h0' z p v) as [[c h1]|] eqn:Hrec; [|discriminate]. cbn [bind] in Hs.
      assert (h_alloc h1 (if b then HPair z c None else HPair c z None) = (a', h')) as Ea by congruence. destruct (IH h0' z v c h1 Hrec) as [Hle _].
      pose proof (h_expand_unc H (length p) h) as Hu. rewrite Ex in Hu. cbn [snd] in Hu.
      pose proof (unc_alloc h1 (if b then HPair z c None else HPair c z None)) as Ua. rewrite Ea in Ua. cbn [snd] in Ua.
      split.
      * destruct b; cbn [is_unc length] in *; lia.
      * intros ->. cbn [andb] in Ee. discriminate.
    + destruct (h_setter H e h (if b then r else l) p v) as [[c0 h1]|] eqn:Hrec; [|discriminate]. cbn [bind] in Hs.
      assert (h_alloc h1 (if b then HPair l c0 None else HPair c0 r None) = (a', h')) as Ea by congruence. destruct (IH h _ v c0 h1 Hrec) as [Hle Heq].
      pose proof (unc_alloc h1 (if b then HPair l c0 None else HPair c0 r None)) as Ua. rewrite Ea in Ua. cbn [snd] in Ua.
      split.
      * destruct b; cbn [is_unc length] in *; lia.
      * intros He. specialize (Heq He). destruct b; cbn [is_unc length] in *; lia.
Qed.

(* C19: the merkle_root() after a write hashes at most: what was unhashed before + two per path step (one per step when
   nothing is expanded); and nothing at all when nothing is unhashed *)
Theorem rehash_bound H e p h a v a' h' f rt h'' : wfh h -> v < length (objs h) ->
  h_setter H e h a p v = Ok (a', h') -> h_root H f h' a' = Some (rt, h'') ->
  (hashes h'' - hashes h' <= N.of_nat (unc h) + 2 * N.of_nat (length p))%N /\
  (e = false -> (hashes h'' - hashes h' <= N.of_nat (unc h) + N.of_nat (length p))%N).
Proof.
  intros Hw Hv Hs Hr. destruct (h_setter_extends H e p h a v a' h' Hw Hv Hs) as (_ & _ & Hw' & _).
  pose proof (h_root_potential H f h' a' rt h'' Hw' Hr) as Hp. destruct (h_setter_unc H e p h a v a' h' Hs) as [Hle Heq].
  generalize dependent (unc h''). generalize dependent (unc h'). generalize dependent (unc h). generalize dependent (hashes h''). generalize dependent (hashes h'). generalize dependent (length p).
  intros lp ha hb u0 u1 Hle Heq u2 Hp. clear -Hle Heq Hp. split. { clear Heq. lia. } intros He. specialize (Heq He). lia.
Qed.

Lemma h_root_hashes_mono H : forall f h a rt h', h_root H f h a = Some (rt, h') -> (hashes h <= hashes h')%N.
Proof.
  induction f as [|f IH]; intros h a rt h' Hr; [discriminate|].
  cbn [h_root] in Hr. destruct (h_get h a) as [[r|l r [c|]]|] eqn:Hg; try discriminate; try (inversion Hr; subst; lia).
  destruct (h_root H f h l) as [[rl h1]|] eqn:Hl; [|discriminate].
  destruct (h_root H f h1 r) as [[rr h2]|] eqn:Hrr; [|discriminate]. inversion Hr; subst. clear Hr.
  pose proof (IH _ _ _ _ Hl). pose proof (IH _ _ _ _ Hrr).
  assert (hashes (set_cache (bump h2) a (H rl rr)) = hashes h2 + 1)%N as ->; [|lia].
  unfold set_cache. destruct (h_get (bump h2) a) as [[?|? ? ?]|]; reflexivity.
Qed.

Theorem nothing_unhashed_nothing_hashed H f h a rt h' : wfh h -> unc h = 0 -> h_root H f h a = Some (rt, h') -> hashes h' = hashes h.
Proof. intros Hw Hu Hr. pose proof (h_root_potential H f h a rt h' Hw Hr). pose proof (h_root_hashes_mono H f h a rt h' Hr). lia. Qed.

(* rebind_right (the length / selector mix-in of a list or union) adds one uncached pair and hashes nothing *)
Lemma h_rebind_right_unc h a v a' h' : h_rebind_right h a v = Ok (a', h') -> unc h' = unc h + 1 /\ hashes h' = hashes h.
Proof.
  unfold h_rebind_right. destruct (h_children h a) as [[l r]|]; [|discriminate]. intros E.
  assert (h_alloc h (HPair l v None) = (a', h')) as Ea by congruence.
  pose proof (unc_alloc h (HPair l v None)) as Ua. rewrite Ea in Ua. cbn [snd is_unc] in Ua.
  pose proof (alloc_hashes h (HPair l v None)) as Uh. rewrite Ea in Uh. cbn [snd] in Uh. split; [lia|exact Uh].
Qed.
