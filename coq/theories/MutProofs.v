(* MutProofs.v — mutations preserve the representation relation Repr (C04 / C05): container field
   assignment, vector element assignment, list element assignment and append (composite elements),
   as single steps and as arbitrary valid histories over VALUES; and what Repr buys: a represented
   value is indistinguishable (root, encoding, returned count) from a freshly constructed one. *)
Require Import RM.Base RM.Gindex RM.Tree RM.TreeProofs RM.Types RM.Spec RM.ModelViews RM.ModelCodec RM.ModelMut
               RM.SerLen RM.FactsProofs RM.MerkleProofs RM.PackProofs RM.CtorProofs RM.PathProofs RM.CRepProofs
               RM.ListProofs RM.SerProofs RM.CodecBasicProofs RM.SerProofs2 RM.BitProofs RM.ChunkProofs RM.SerAll RM.ReprProofs RM.IterProofs RM.DeserProofs.
From Coq Require Import ZifyBool ZifyNat ZifyN.
Local Open Scope N_scope.
Section WithHash.
Variable H : bytes -> bytes -> bytes.
Variable src : bytes -> option (bytes * bytes).
Notation root := (root H).
Notation CRep := (CRep H).
Notation ser_impl := (ser_impl H src).
Notation mk := (mk H).
Notation ser_ok := (ser_ok H src).
Notation Repr := (Repr H).
(* ---- writing position i of a contents tree through the public setter ---- *)
Lemma crep_top_setter e d n ns i v : CRep d n ns -> i < lenN ns ->
  setter H src e n (be_bits d i) v = setter_below H src e n (be_bits d i) v.
Proof.
  intros Hc Hi. rewrite setter_unfold. destruct (be_bits d i) as [|b p] eqn:Eb; [reflexivity|].
  destruct Hc as [d'|x|d' l r ls rs Hl Hr Hor]; try reflexivity.
  cbn [be_bits] in Eb. discriminate.
Qed.

Lemma crep_setter_i d n ns i x : CRep d n ns -> i < lenN ns ->
  exists n', setter_i H src false n i d x = Ok n' /\ CRep d n' (upd (N.to_nat i) x ns).
Proof.
  intros Hc Hi. pose proof (CRep_len H _ _ _ Hc) as Hl. pose proof (pow_nat_N d) as Hp.
  assert (i < 2 ^ N.of_nat d) as Hi2 by (unfold lenN in Hi; lia).
  unfold setter_i. rewrite (to_gindex_ok i d Hi2). cbn [bind]. unfold setter_g. rewrite (path_of_to_gindex d i Hi2).
  rewrite (crep_top_setter false d n ns i x Hc Hi).
  exact (CRep_set H src false _ _ _ Hc i x Hi).
Qed.
(* ---- container field assignment ---- *)
Definition go_repr :=
  fix go (fs : list ty) (vs : list val) (ns : list node) : Prop :=
    match fs, vs, ns with
    | [], [], [] => True
    | f :: fs', x :: vs', m :: ns' => Repr f x m /\ go fs' vs' ns'
    | _, _, _ => False
    end.
Lemma go_repr_len : forall fs vs ns, go_repr fs vs ns -> length vs = length fs /\ length ns = length fs.
Proof.
  induction fs as [|f fs IH]; intros [|x vs] [|m ns] Hg; try contradiction; [split; reflexivity|].
  destruct Hg as [_ Hg]. destruct (IH vs ns Hg). cbn. split; lia.
Qed.
Lemma go_repr_upd : forall fs vs ns i x m, go_repr fs vs ns -> (i < length fs)%nat -> Repr (nth i fs TBool) x m ->
  go_repr fs (upd i x vs) (upd i m ns).
Proof.
  induction fs as [|f fs IH]; intros [|y vs] [|k ns] i x m Hg Hi Hx; try contradiction; [cbn in Hi; lia|].
  destruct Hg as [Hy Hg]. destruct i as [|i]; cbn [upd nth] in *; [split; assumption|]. split; [exact Hy|]. apply IH; auto. cbn [length] in Hi. lia.
Qed.

Theorem container_set fs vs n i x m : Repr (TContainer fs) (VCont vs) n ->
  (0 <= i < Z.of_nat (length fs))%Z -> Repr (nth (Z.to_nat i) fs TBool) x m ->
  exists n', view_set H src (TContainer fs) n i m = Ok n' /\ Repr (TContainer fs) (VCont (upd (Z.to_nat i) x vs)) n'.
Proof.
  intros Hr Hi Hx. cbn [ReprProofs.Repr] in Hr. destruct Hr as (ns & Hc & Hg). fold go_repr in Hg.
  destruct (go_repr_len fs vs ns Hg) as [Hlv Hln].
  unfold view_set, check_index.
  assert (((i <? 0)%Z || (Z.of_N (lenN fs) <=? i)%Z) = false) as -> by (unfold lenN; lia). cbn [bind].
  unfold sub_set. cbn [elem_ty]. replace (N.to_nat (Z.to_N i)) with (Z.to_nat i) by lia.
  destruct (nth_error fs (Z.to_nat i)) as [f|] eqn:Hnth; [|apply nth_error_None in Hnth; lia]. cbn [bind].
  assert (tree_depth (TContainer fs) = contents_depth (TContainer fs)) as -> by reflexivity.
  destruct (crep_setter_i _ n ns (Z.to_N i) m Hc ltac:(unfold lenN; lia)) as (n' & Hs & Hc'). rewrite Hs.
  exists n'. split; [reflexivity|]. cbn [ReprProofs.Repr]. exists (upd (N.to_nat (Z.to_N i)) m ns). split; [exact Hc'|].
  fold go_repr. replace (N.to_nat (Z.to_N i)) with (Z.to_nat i) by lia. apply go_repr_upd; auto. lia.
Qed.

(* ---- vector element assignment (composite elements) ---- *)
Lemma Forall2_upd {A B} (P : A -> B -> Prop) l r i x y : Forall2 P l r -> P x y -> Forall2 P (upd i x l) (upd i y r).
Proof.
  intros HF Hxy. revert i. induction HF as [|a b l r Hab HF IH]; intros i; [destruct i; cbn; constructor|].
  destruct i; cbn [upd]; [constructor; [exact Hxy|exact HF]|constructor; [exact Hab|apply IH]].
Qed.

Lemma Forall2_len {A B} (P : A -> B -> Prop) l r : Forall2 P l r -> length l = length r.
Proof. induction 1; cbn; auto. Qed.

Theorem vector_set e k vs n i x m : basic_size e = None -> Repr (TVector e k) (VSeq vs) n -> lenN vs = k ->
  (0 <= i < Z.of_N k)%Z -> Repr e x m ->
  exists n', view_set H src (TVector e k) n i m = Ok n' /\ Repr (TVector e k) (VSeq (upd (Z.to_nat i) x vs)) n'.
Proof.
  intros Eb Hr Hk Hi Hx. cbn [ReprProofs.Repr] in Hr. rewrite Eb in Hr. destruct Hr as (ns & Hc & HF).
  assert (length ns = length vs) as Hl by (symmetry; eapply Forall2_len; eauto).
  unfold view_set, check_index. cbn [view_len bind].
  assert (((i <? 0)%Z || (Z.of_N k <=? i)%Z) = false) as -> by lia. cbn [bind].
  unfold sub_set. cbn [elem_ty bind]. rewrite Eb.
  assert (tree_depth (TVector e k) = contents_depth (TVector e k)) as -> by reflexivity.
  destruct (crep_setter_i _ n ns (Z.to_N i) m Hc ltac:(unfold lenN in *; lia)) as (n' & Hs & Hc'). rewrite Hs.
  exists n'. split; [reflexivity|]. cbn [ReprProofs.Repr]. rewrite Eb. exists (upd (N.to_nat (Z.to_N i)) m ns). split; [exact Hc'|].
  replace (N.to_nat (Z.to_N i)) with (Z.to_nat i) by lia. now apply Forall2_upd.
Qed.
(* ---- union change ---- *)
Lemma pick_repr_nth os i x c :
  (fix pick (os : list ty) (i : nat) : Prop :=
     match os, i with o :: _, O => Repr o x c | _ :: os', S i' => pick os' i' | [], _ => False end) os i
  <-> exists o, nth_error os i = Some o /\ Repr o x c.
Proof.
  revert i. induction os as [|o os IH]; intros i.
  - split; [intros []|intros (o' & Hn & Hr); destruct i; discriminate].
  - destruct i as [|i].
    + split; [intros Hr; exists o; split; [reflexivity|exact Hr]|intros (o' & Hn & Hr); cbn in Hn; inversion Hn; subst; exact Hr].
    + cbn [nth_error]. apply IH.
Qed.

Theorem union_change_some (b : bool) os sel o x m : (0 <= sel)%Z -> (sel < Z.of_N (lenN os + (if b then 1 else 0))%N)%Z ->
  union_opt b os (Z.to_nat sel) = Some o -> Repr o x m ->
  exists n', union_change H (TUnion b os) sel (Some m) = Ok n' /\ Repr (TUnion b os) (VUnion (Z.to_nat sel) (Some x)) n'.
Proof.
  intros H0 Hlt Hopt Hx. unfold union_change.
  assert ((sel <? 0)%Z = false) as -> by lia.
  assert ((Z.of_N (lenN os + (if b then 1 else 0)) <=? sel)%Z = false) as -> by lia.
  rewrite Hopt. eexists; split; [reflexivity|]. cbn [ReprProofs.Repr]. exists m. split; [f_equal; f_equal; lia|].
  apply pick_repr_nth. exists o. split; [|exact Hx].
  unfold union_opt in Hopt. destruct b; [destruct (Z.to_nat sel); [discriminate|exact Hopt]|exact Hopt].
Qed.

Theorem union_change_none os : 
  exists n', union_change H (TUnion true os) 0 None = Ok n' /\ Repr (TUnion true os) (VUnion 0 None) n'.
Proof.
  unfold union_change. cbn [Z.ltb Z.compare].
  assert ((Z.of_N (lenN os + 1) <=? 0)%Z = false) as -> by lia. cbn [union_opt Z.to_nat].
  eexists; split; [reflexivity|]. cbn [ReprProofs.Repr]. exists (zero_node H 0). split; reflexivity.
Qed.

(* ---- pop: clearing the last position and summarising the emptied subtree ---- *)
Lemma CRep_nil_root d n : CRep d n [] -> root n = zero_hash H d.
Proof. intros Hc. rewrite (CRep_merkleize H _ _ _ Hc). cbn [map]. apply merkleize_nil. Qed.

Lemma nil_or_last {A} (l : list A) : l = [] \/ exists l' a, l = l' ++ [a].
Proof. induction l using rev_ind; [now left|right; eauto]. Qed.

(* a trailing zero leaf can be dropped from the represented list (same tree) *)
Lemma CRep_drop_zero : forall d n ns, CRep d n ns -> forall ms, ns = ms ++ [zero_node H 0] -> CRep d n ms.
Proof.
  induction 1 as [d|x|d l r ls rs Hl IHl Hr IHr Hor]; intros ms E.
  - destruct ms; discriminate.
  - destruct ms as [|m ms]; [|destruct ms; discriminate]. inversion E; subst. apply (CRep_zero H 0).
  - destruct (nil_or_last rs) as [Ers|(rs' & z & Ers)].
    + subst rs. rewrite app_nil_r in E. subst ls.
      rewrite <- (app_nil_r ms). apply CRep_pair; [now apply IHl|exact Hr|now left].
    + subst rs. rewrite app_assoc in E. apply app_inj_tail in E as [E1 E2]. subst z ms.
      apply CRep_pair; [exact Hl|now apply IHr|]. destruct Hor as [Hor|Hor]; [destruct rs'; discriminate|now right].
Qed.
(* position (big-endian value) of a path *)
Fixpoint pidx (p : list bool) : N :=
  match p with [] => 0 | b :: p' => (if b then 2 ^ N.of_nat (length p') else 0) + pidx p' end.
Lemma pidx_lt p : pidx p < 2 ^ N.of_nat (length p).
Proof.
  induction p as [|b p IH]; [cbn; lia|]. cbn [pidx length]. rewrite Nat2N.inj_succ, N.pow_succ_r'. destruct b; lia.
Qed.

(* summarising a subtree that lies entirely beyond the represented list keeps the representation *)
Lemma CRep_summarize : forall d n ms, CRep d n ms -> forall p sub, (length p <= d)%nat ->
  getter src n p = Ok sub -> lenN ms <= pidx p * 2 ^ N.of_nat (d - length p) ->
  exists n', setter_below H src false n p (RootN (root sub)) = Ok n' /\ CRep d n' ms.
Proof.
  induction 1 as [d|x|d l r ls rs Hl IHl Hr IHr Hor]; intros p sub Hlen Hg Hcond.
  - destruct p as [|b p]; [|cbn in Hg; discriminate]. cbn in Hg. inversion Hg; subst sub.
    exists (zero_node H d). split; [reflexivity|constructor].
  - destruct p; [|cbn in Hlen; lia]. cbn in Hcond. unfold lenN in Hcond. cbn in Hcond. lia.
  - pose proof (CRep_len H _ _ _ Hl) as Hll. pose proof (CRep_len H _ _ _ Hr) as Hlr. pose proof (pow_nat_N d) as Hp.
    destruct p as [|b p].
    + cbn in Hg. inversion Hg; subst sub. cbn [pidx] in Hcond. rewrite N.mul_0_l in Hcond.
      assert (ls = [] /\ rs = []) as [-> ->] by (unfold lenN in Hcond; rewrite app_length in Hcond; destruct ls, rs; cbn in *; try lia; auto).
      exists (RootN (root (PairN l r))). split; [reflexivity|].
      cbn [Tree.root]. rewrite (CRep_nil_root _ _ Hl), (CRep_nil_root _ _ Hr).
      change (RootN (H (zero_hash H d) (zero_hash H d))) with (zero_node H (S d)). constructor.
    + cbn [length] in Hlen. cbn [Tree.getter children] in Hg. cbn [pidx length] in Hcond.
      replace (S d - S (length p))%nat with (d - length p)%nat in Hcond by lia.
      pose proof (pidx_lt p) as Hpl.
      assert (2 ^ N.of_nat (length p) * 2 ^ N.of_nat (d - length p) = 2 ^ N.of_nat d) as Hpow
        by (rewrite <- N.pow_add_r; f_equal; lia).
      cbn [Tree.setter_below children]. destruct b.
      * (* right child *)
        destruct (IHr p sub ltac:(lia) Hg) as (r' & Hs & Hc').
        { unfold lenN in *. rewrite app_length in Hcond. destruct Hor as [->|E]; [cbn; lia|]. nia. }
        rewrite Hs. cbn [rebuild]. eexists; split; [reflexivity|]. now apply CRep_pair.
      * (* left child: nothing can be on the right *)
        rewrite N.add_0_l in Hcond.
        assert (rs = []) as ->.
        { destruct Hor as [->|E]; [reflexivity|]. exfalso. unfold lenN in *. rewrite app_length in Hcond. nia. }
        rewrite app_nil_r in *.
        destruct (IHl p sub ltac:(lia) Hg Hcond) as (l' & Hs & Hc').
        rewrite Hs. cbn [rebuild]. eexists; split; [reflexivity|]. rewrite <- (app_nil_r ls). apply CRep_pair; auto.
Qed.
Lemma be_bits_split a : forall k i, be_bits (a + k) i = be_bits a (i / 2 ^ N.of_nat k) ++ be_bits k i.
Proof.
  induction k as [|k IH]; intros i.
  - rewrite Nat.add_0_r. cbn [be_bits N.of_nat]. rewrite N.pow_0_r, N.div_1_r, app_nil_r. reflexivity.
  - replace (a + S k)%nat with (S (a + k)) by lia. rewrite !be_bits_snoc, IH, <- app_assoc. f_equal.
    rewrite Nat2N.inj_succ, N.pow_succ_r', N.div_div by (try apply N.pow_nonzero; lia). reflexivity.
Qed.

Lemma pidx_be_bits : forall m x, pidx (be_bits m x) = x mod 2 ^ N.of_nat m.
Proof.
  induction m as [|m IH]; intros x; [cbn; now rewrite N.mod_1_r|].
  cbn [be_bits pidx]. rewrite be_bits_length, IH.
  rewrite Nat2N.inj_succ, N.pow_succ_r' by lia.
  pose proof (N.testbit_spec' x (N.of_nat m)) as Hb.
  assert (2 ^ N.of_nat m <> 0) as Hnz by (apply N.pow_nonzero; lia).
  pose proof (N.div_mod x (2 ^ N.of_nat m) Hnz) as Hdm.
  pose proof (N.mod_lt x (2 ^ N.of_nat m) Hnz) as Hlt.
  pose proof (N.div_mod (x / 2 ^ N.of_nat m) 2 ltac:(lia)) as Hdm2.
  pose proof (N.mod_lt (x / 2 ^ N.of_nat m) 2 ltac:(lia)) as Hlt2.
  apply (N.mod_unique x (2 * 2 ^ N.of_nat m) (x / 2 ^ N.of_nat m / 2)).
  - destruct (N.testbit x (N.of_nat m)); cbn [N.b2n] in Hb; lia.
  - destruct (N.testbit x (N.of_nat m)); cbn [N.b2n] in Hb; nia.
Qed.

(* the climb of List.pop / Bitlist.pop: some k trailing zero bits of the index are stripped *)
Lemma climb_exists : forall fuel D j, j < 2 ^ N.of_nat D ->
  exists k, (k <= D)%nat /\ j mod 2 ^ N.of_nat k = 0 /\
            climb fuel (2 ^ N.of_nat (S D) + j) = 2 ^ N.of_nat (S (D - k)) + j / 2 ^ N.of_nat k.
Proof.
  induction fuel as [|fuel IH]; intros D j Hj.
  - exists 0%nat. rewrite Nat.sub_0_r. cbn [climb N.of_nat]. rewrite N.pow_0_r, N.mod_1_r, N.div_1_r. split; [lia|split; reflexivity].
  - cbn [climb]. set (g := 2 ^ N.of_nat (S D) + j).
    destruct (N.even g && negb (g =? 2)) eqn:Ec.
    + apply andb_true_iff in Ec as [Hev Hne]. apply negb_true_iff, N.eqb_neq in Hne.
      destruct D as [|D'].
      { cbn in Hj. assert (j = 0) as -> by lia. unfold g in Hne. cbn in Hne. lia. }
      assert (N.even j = true) as Hej.
      { unfold g in Hev. rewrite Nat2N.inj_succ, N.pow_succ_r' in Hev by lia. rewrite N.add_comm, N.even_add_mul_2 in Hev. exact Hev. }
      apply N.even_spec in Hej as (h & Eh).
      assert (g / 2 = 2 ^ N.of_nat (S D') + h) as Eg.
      { unfold g. rewrite (Nat2N.inj_succ (S D')), N.pow_succ_r' by lia. subst j. rewrite <- N.mul_add_distr_l, N.mul_comm, N.div_mul by lia. reflexivity. }
      rewrite Eg. destruct (IH D' h) as (k & Hk & Hmod & Hcl).
      { rewrite Nat2N.inj_succ, N.pow_succ_r' in Hj by lia. lia. }
      exists (S k). split; [lia|]. rewrite Hcl. replace (S D' - S k)%nat with (D' - k)%nat by lia.
      rewrite Nat2N.inj_succ, N.pow_succ_r' by lia. subst j.
      assert (2 ^ N.of_nat k <> 0) as Hnz by (apply N.pow_nonzero; lia).
      split.
      * rewrite N.mul_mod_distr_l by lia. rewrite Hmod. lia.
      * f_equal. rewrite N.div_mul_cancel_l by lia. reflexivity.
    + exists 0%nat. rewrite Nat.sub_0_r. cbn [N.of_nat]. rewrite N.pow_0_r, N.mod_1_r, N.div_1_r. split; [lia|split; reflexivity].
Qed.
(* the summarisation step on a list backing whose contents tree already represents ms, at an
   ancestor of position j = |ms| reached by stripping k trailing zero bits *)
Lemma summarize_list_backing d c lenn ms k (j : N) : CRep d c ms -> lenN ms = j -> j < 2 ^ N.of_nat d ->
  (k <= d)%nat -> j mod 2 ^ N.of_nat k = 0 ->
  (exists leaf, getter src c (be_bits d j) = Ok leaf) ->
  exists c', summarize_into_g H src (PairN c lenn) (2 ^ N.of_nat (S (d - k)) + j / 2 ^ N.of_nat k) = Ok (PairN c' lenn) /\ CRep d c' ms.
Proof.
  intros Hc Hlen Hj Hk Hmod (leaf & Hleaf).
  assert (2 ^ N.of_nat k <> 0) as Hnz by (apply N.pow_nonzero; lia).
  assert (j / 2 ^ N.of_nat k < 2 ^ N.of_nat (d - k)) as Hq.
  { apply N.div_lt_upper_bound; [exact Hnz|]. rewrite <- N.pow_add_r. replace (N.of_nat k + N.of_nat (d - k)) with (N.of_nat d) by lia. exact Hj. }
  assert (j / 2 ^ N.of_nat k < 2 ^ N.of_nat (S (d - k))) as Hq2 by (rewrite Nat2N.inj_succ, N.pow_succ_r'; lia).
  unfold summarize_into_g. rewrite (path_of_to_gindex (S (d - k)) _ Hq2). cbn [be_bits].
  rewrite (testbit_top _ (d - k) Hq2). assert ((2 ^ N.of_nat (d - k) <=? j / 2 ^ N.of_nat k) = false) as -> by (apply N.leb_gt; exact Hq).
  set (p := be_bits (d - k) (j / 2 ^ N.of_nat k)).
  (* the prefix is navigable *)
  assert (be_bits d j = p ++ be_bits k j) as Esplit.
  { unfold p. replace d with ((d - k) + k)%nat at 1 by lia. apply be_bits_split. }
  rewrite Esplit in Hleaf. apply IterProofs.getter_app in Hleaf as (sub & Hsub & _).
  unfold summarize_into. cbn [Tree.getter children]. rewrite Hsub. cbn [bind].
  rewrite setter_unfold. cbn [Tree.setter_below children].
  destruct (CRep_summarize d c ms Hc p sub) as (c' & Hs & Hc').
  - unfold p. rewrite be_bits_length. lia.
  - exact Hsub.
  - unfold p. rewrite pidx_be_bits, be_bits_length. rewrite N.mod_small by exact Hq.
    replace (d - (d - k))%nat with k by lia. pose proof (N.div_mod j (2 ^ N.of_nat k) Hnz). rewrite Hmod in *. lia.
  - rewrite Hs. cbn [rebuild]. exists c'. auto.
Qed.

Section PopComposite.
Variable e : ty.
Variable limit : N.
Hypothesis He : basic_size e = None.
Hypothesis Hlim : limit < 2 ^ 64.
Notation t := (TList e limit).
Notation cd := (contents_depth (TList e limit)).

Theorem list_pop_rep n ns : Rep_list H e limit n ns -> ns <> [] ->
  exists n', list_pop H src t n = Ok n' /\ Rep_list H e limit n' (removelast ns).
Proof.
  intros Hr Hne. pose proof Hr as (c & -> & Hc & Hl). unfold list_pop.
  rewrite (mixin_len_node H src c (lenN ns)) by lia. cbn [bind].
  assert (1 <= lenN ns) as H1 by (destruct ns; [congruence|rewrite lenN_cons; lia]).
  assert ((lenN ns =? 0) = false) as -> by (apply N.eqb_neq; lia). rewrite He.
  pose proof (depth_fits e limit He) as Hd.
  set (i := lenN ns - 1).
  assert (i < 2 ^ N.of_nat cd) as Hi by (unfold i; lia).
  assert (tree_depth t = S cd) as -> by reflexivity.
  assert (i < 2 ^ N.of_nat (S cd)) as Hi2 by (rewrite Nat2N.inj_succ, N.pow_succ_r'; lia).
  rewrite (to_gindex_ok i (S cd) Hi2). cbn [bind].
  (* clearing position i *)
  unfold setter_g. rewrite (path_of_to_gindex (S cd) i Hi2). cbn [be_bits]. rewrite (testbit_top i cd Hi2).
  assert ((2 ^ N.of_nat cd <=? i) = false) as -> by (apply N.leb_gt; exact Hi).
  rewrite setter_unfold. cbn [Tree.setter_below children].
  destruct (CRep_set H src false _ _ _ Hc i (zero_node H 0) ltac:(unfold i; lia)) as (c1 & Hs1 & Hc1). rewrite Hs1. cbn [rebuild bind].
  assert (upd (N.to_nat i) (zero_node H 0) ns = removelast ns ++ [zero_node H 0]) as Eupd.
  { destruct (nil_or_last ns) as [->|(ns' & z & ->)]; [congruence|]. rewrite removelast_last.
    assert (N.to_nat i = length ns') as -> by (unfold i, lenN; rewrite app_length; cbn [length]; lia).
    rewrite upd_app2 by lia. rewrite Nat.sub_diag. reflexivity. }
  pose proof (CRep_get H src _ _ _ Hc1 i (RootN zero32) ltac:(unfold lenN; rewrite upd_len; unfold i, lenN in *; lia)) as Hleaf.
  rewrite Eupd in Hc1. pose proof (CRep_drop_zero _ _ _ Hc1 _ eq_refl) as Hc1'.
  assert (lenN (removelast ns) = i) as Hlen'.
  { destruct (nil_or_last ns) as [->|(ns' & z & ->)]; [congruence|]. rewrite removelast_last. unfold i, lenN. rewrite app_length. cbn [length]. lia. }
  (* summarising *)
  assert (exists c2, (if N.even (2 ^ N.of_nat (S cd) + i) then summarize_up H src (PairN c1 (len_node (lenN ns))) (2 ^ N.of_nat (S cd) + i)
                      else Ok (PairN c1 (len_node (lenN ns)))) = Ok (PairN c2 (len_node (lenN ns))) /\ CRep cd c2 (removelast ns)) as (c2 & Hsum & Hc2).
  { destruct (N.even (2 ^ N.of_nat (S cd) + i)); [|eauto].
    unfold summarize_up. destruct (climb_exists (N.size_nat (2 ^ N.of_nat (S cd) + i)) cd i Hi) as (k & Hk & Hmod & Hcl). rewrite Hcl.
    apply (summarize_list_backing cd c1 _ (removelast ns) k i Hc1' Hlen' Hi Hk Hmod). eauto. }
  rewrite Hsum. cbn [bind]. unfold rebind_right. cbn [children]. eexists; split; [reflexivity|].
  exists c2. fold i. rewrite Hlen'. split; [reflexivity|]. split; [exact Hc2|]. unfold i. lia.
Qed.
End PopComposite.

(* ---- lists of composite elements: the node-list theorems of ListProofs lifted to values ---- *)
Section OneList.
Variable e : ty.
Variable limit : N.
Hypothesis He : basic_size e = None.
Hypothesis Hlim : limit < 2 ^ 64.
Notation t := (TList e limit).

Lemma repr_list_split vs n : Repr t (VSeq vs) n -> lenN vs <= limit ->
  exists ns, Rep_list H e limit n ns /\ Forall2 (Repr e) vs ns.
Proof.
  intros Hr Hl. cbn [ReprProofs.Repr] in Hr. destruct Hr as (c & -> & Hr). rewrite He in Hr. destruct Hr as (ns & Hc & HF).
  pose proof (Forall2_len _ _ _ HF) as Hlen. exists ns. split; [|exact HF].
  exists c. unfold lenN in *. rewrite <- Hlen. auto.
Qed.
Lemma repr_list_join vs n ns : Rep_list H e limit n ns -> Forall2 (Repr e) vs ns -> Repr t (VSeq vs) n /\ lenN vs <= limit.
Proof.
  intros (c & -> & Hc & Hl) HF. pose proof (Forall2_len _ _ _ HF) as Hlen. split; [|unfold lenN in *; lia].
  cbn [ReprProofs.Repr]. exists c. split; [unfold lenN; now rewrite Hlen|]. rewrite He. exists ns. auto.
Qed.

Theorem list_set_v vs n i x m : Repr t (VSeq vs) n -> lenN vs <= limit -> (0 <= i < Z.of_N (lenN vs))%Z -> Repr e x m ->
  exists n', view_set H src t n i m = Ok n' /\ Repr t (VSeq (upd (Z.to_nat i) x vs)) n'.
Proof.
  intros Hr Hl Hi Hx. destruct (repr_list_split vs n Hr Hl) as (ns & Hrl & HF).
  pose proof (Forall2_len _ _ _ HF) as Hlen.
  destruct (list_set H src e limit He Hlim n ns i m Hrl ltac:(unfold lenN in *; lia)) as (n' & Hs & Hr').
  exists n'. split; [exact Hs|]. apply (repr_list_join _ _ _ Hr'). now apply Forall2_upd.
Qed.

Lemma Forall2_snoc {A B} (P : A -> B -> Prop) l r x y : Forall2 P l r -> P x y -> Forall2 P (l ++ [x]) (r ++ [y]).
Proof. induction 1; cbn; intros; constructor; auto. Qed.

Lemma Forall2_removelast {A B} (P : A -> B -> Prop) l r : Forall2 P l r -> Forall2 P (removelast l) (removelast r).
Proof.
  induction 1 as [|x y l r Hxy HF IH]; [constructor|]. destruct HF as [|x' y' l r Hx' HF']; cbn; [constructor|].
  constructor; [exact Hxy|exact IH].
Qed.

Theorem list_pop_v vs n : Repr t (VSeq vs) n -> lenN vs <= limit -> vs <> [] ->
  exists n', list_pop H src t n = Ok n' /\ Repr t (VSeq (removelast vs)) n'.
Proof.
  intros Hr Hl Hne. destruct (repr_list_split vs n Hr Hl) as (ns & Hrl & HF).
  assert (ns <> []) as Hne' by (intros ->; inversion HF; congruence).
  destruct (list_pop_rep e limit He Hlim n ns Hrl Hne') as (n' & Hs & Hr').
  exists n'. split; [exact Hs|]. apply (repr_list_join _ _ _ Hr'). now apply Forall2_removelast.
Qed.

Theorem list_append_v vs n x m : Repr t (VSeq vs) n -> lenN vs < limit -> Repr e x m ->
  exists n', list_append H src t n m = Ok n' /\ Repr t (VSeq (vs ++ [x])) n'.
Proof.
  intros Hr Hl Hx. destruct (repr_list_split vs n Hr ltac:(lia)) as (ns & Hrl & HF).
  pose proof (Forall2_len _ _ _ HF) as Hlen.
  destruct (list_append_rep H src e limit He Hlim n ns m Hrl ltac:(unfold lenN in *; lia)) as (n' & Hs & Hr').
  exists n'. split; [exact Hs|]. apply (repr_list_join _ _ _ Hr'). now apply Forall2_snoc.
Qed.

(* histories over values *)
Inductive vop := VSet (i : Z) (x : val) (m : node) | VAppend (x : val) (m : node) | VPop.
Definition vapply_impl (n : node) (o : vop) : result node :=
  match o with VSet i _ m => view_set H src t n i m | VAppend _ m => list_append H src t n m | VPop => list_pop H src t n end.
Definition vapply_spec (vs : list val) (o : vop) : list val :=
  match o with VSet i x _ => upd (Z.to_nat i) x vs | VAppend x _ => vs ++ [x] | VPop => removelast vs end.
Definition vvalid_op (vs : list val) (o : vop) : Prop :=
  match o with
  | VSet i x m => (0 <= i < Z.of_N (lenN vs))%Z /\ Repr e x m /\ wf e x = true
  | VAppend x m => lenN vs < limit /\ Repr e x m /\ wf e x = true
  | VPop => vs <> []
  end.
Fixpoint vvalid_ops (vs : list val) (os : list vop) : Prop :=
  match os with [] => True | o :: r => vvalid_op vs o /\ vvalid_ops (vapply_spec vs o) r end.

Lemma removelast_length_le {A} (l : list A) : (length (removelast l) <= length l)%nat.
Proof. induction l as [|a l IH]; [cbn; lia|]. destruct l; cbn in *; lia. Qed.
Lemma In_removelast {A} (x : A) l : In x (removelast l) -> In x l.
Proof. induction l as [|a l IH]; [tauto|]. destruct l as [|b l]; [cbn; tauto|]. intros [->|Hin]; [now left|right; now apply IH]. Qed.

Lemma forallb_upd {A} (p : A -> bool) l i x : forallb p l = true -> p x = true -> forallb p (upd i x l) = true.
Proof.
  revert i; induction l as [|a l IH]; intros i Hl Hx; [destruct i; reflexivity|].
  cbn [forallb] in Hl. apply andb_true_iff in Hl as [Ha Hl]. destruct i as [|i]; cbn [upd forallb].
  - now rewrite Hx, Hl.
  - now rewrite Ha, IH.
Qed.

Theorem list_value_history : forall os vs n, Repr t (VSeq vs) n -> wf t (VSeq vs) = true -> vvalid_ops vs os ->
  exists n', fold_left (fun acc o => do m <- acc; vapply_impl m o) os (Ok n) = Ok n' /\
             Repr t (VSeq (fold_left vapply_spec os vs)) n' /\ wf t (VSeq (fold_left vapply_spec os vs)) = true.
Proof.
  induction os as [|o os IH]; intros vs n Hr Hwf Hv; cbn [fold_left]; [eauto|].
  destruct Hv as [Hv1 Hv2]. cbn [wf] in Hwf. apply andb_true_iff in Hwf as [Hl Hall]. apply N.leb_le in Hl.
  destruct o as [i x m|x m|]; cbn [vvalid_op vapply_impl vapply_spec bind] in *.
  - destruct Hv1 as (Hi & Hx & Hwx). destruct (list_set_v vs n i x m Hr Hl Hi Hx) as (n1 & Hs & Hr1). rewrite Hs.
    apply IH; [exact Hr1| |exact Hv2]. cbn [wf]. unfold lenN. rewrite upd_len. apply andb_true_iff. split; [apply N.leb_le; exact Hl|now apply forallb_upd].
  - destruct Hv1 as (Hlt & Hx & Hwx). destruct (list_append_v vs n x m Hr Hlt Hx) as (n1 & Hs & Hr1). rewrite Hs.
    apply IH; [exact Hr1| |exact Hv2]. cbn [wf]. rewrite forallb_app. cbn [forallb]. rewrite Hall, Hwx. cbn [andb].
    rewrite andb_true_r. apply N.leb_le. rewrite lenN_app. unfold lenN at 2. cbn [length]. lia.
  - destruct (list_pop_v vs n Hr Hl Hv1) as (n1 & Hs & Hr1). rewrite Hs.
    apply IH; [exact Hr1| |exact Hv2]. cbn [wf]. apply andb_true_iff. split.
    + apply N.leb_le. unfold lenN in *. pose proof (removelast_length_le vs). lia.
    + apply forallb_forall. intros x Hx. rewrite forallb_forall in Hall. apply Hall. now apply In_removelast in Hx.
Qed.
End OneList.

(* ==== packed (basic) elements ==== *)
(* ---- uniform pieces: chunks, groups and updates ---- *)
Local Open Scope nat_scope.

Lemma chunks_of_uniform (s epc : nat) (ls : list bytes) : s * epc = 32 -> 0 < s ->
  Forall (fun l => length l = s) ls ->
  chunks (concat ls) = map (fun g => pad32 (concat g)) (group epc ls).
Proof.
  intros Hse Hs Hall. assert (0 < epc) as He by (destruct epc; lia).
  rewrite chunks_group. unfold group. rewrite <- Hse, (Nat.mul_comm s epc).
  rewrite (group_concat_uniform s epc Hs He (length ls) _ ls Hall (le_n _) (le_n _)).
  now rewrite map_map.
Qed.

Lemma concat_upd_uniform (s : nat) : forall (ls : list bytes) j (eb : bytes), Forall (fun l => length l = s) ls -> j < length ls ->
  concat (upd j eb ls) = firstn (s * j) (concat ls) ++ eb ++ skipn (s * (j + 1)) (concat ls).
Proof.
  induction ls as [|l ls IH]; intros j eb Hall Hj; [cbn in Hj; lia|].
  inversion Hall as [|? ? Hl Hls]; subst. destruct j as [|j]; cbn [upd concat].
  - rewrite Nat.mul_0_r. cbn [firstn app]. replace (length l * (0 + 1)) with (length l) by lia.
    rewrite skipn_app. rewrite (skipn_all2 l) by lia. rewrite Nat.sub_diag. reflexivity.
  - rewrite (IH j eb Hls) by (cbn in Hj; lia).
    replace (length l * S j) with (length l + length l * j) by lia.
    replace (length l * (S j + 1)) with (length l + length l * (j + 1)) by lia.
    rewrite firstn_app, skipn_app. rewrite (firstn_all2 l) by lia. rewrite (skipn_all2 l) by lia.
    replace (length l + length l * j - length l) with (length l * j) by lia.
    replace (length l + length l * (j + 1) - length l) with (length l * (j + 1)) by lia.
    cbn [app]. now rewrite <- app_assoc.
Qed.

(* BasicView.backing_from_base: splicing an element into a chunk = updating the piece *)
Lemma splice_concat (s : nat) (g : list bytes) (j : nat) (eb : bytes) : Forall (fun l => length l = s) g ->
  j < length g -> length eb = s -> length (concat g) <= 32 ->
  splice (pad32 (concat g)) (N.of_nat j) eb = pad32 (concat (upd j eb g)).
Proof.
  intros Hall Hj Heb H32. unfold splice. rewrite Nat2N.id, Heb.
  pose proof (concat_uniform_length s g Hall) as Hlen.
  rewrite (concat_upd_uniform s g j eb Hall Hj). unfold bytes in *.
  unfold pad32, pad_to.
  assert (s * (j + 1) <= length (concat g)) as Hb by (rewrite Hlen; nia).
  assert (s * j <= s * (j + 1)) as Hb2 by (apply Nat.mul_le_mono_l; lia).
  rewrite firstn_app. replace (s * j - length (concat g)) with 0 by lia. cbn [firstn]. rewrite app_nil_r.
  rewrite skipn_app. replace (s * (j + 1) - length (concat g)) with 0 by lia. cbn [skipn].
  rewrite !app_length, firstn_length, skipn_length, Heb.
  replace (s * (j + 1)) with (s * j + s) in * by lia.
  replace (Nat.min (s * j) (length (concat g)) + (s + (length (concat g) - (s * j + s)))) with (length (concat g)) by lia.
  now rewrite <- !app_assoc.
Qed.

Lemma upd_nil {A} i (x : A) : upd i x [] = [].
Proof. destruct i; reflexivity. Qed.
Lemma firstn_upd_lt {A} (x : A) : forall l i k, i < k -> firstn k (upd i x l) = upd i x (firstn k l).
Proof.
  induction l as [|h l IH]; intros i k Hik; [now rewrite upd_nil, firstn_nil, upd_nil|].
  destruct k as [|k]; [lia|]. destruct i as [|i]; cbn [upd firstn]; [reflexivity|]. f_equal. apply IH. lia.
Qed.
Lemma skipn_upd_lt {A} (x : A) : forall l i k, i < k -> skipn k (upd i x l) = skipn k l.
Proof.
  induction l as [|h l IH]; intros i k Hik; [now rewrite upd_nil|].
  destruct k as [|k]; [lia|]. destruct i as [|i]; cbn [upd skipn]; [reflexivity|]. apply IH. lia.
Qed.
Lemma firstn_upd_ge {A} (x : A) : forall l i k, k <= i -> firstn k (upd i x l) = firstn k l.
Proof.
  induction l as [|h l IH]; intros i k Hik; [now rewrite upd_nil|].
  destruct k as [|k]; [reflexivity|]. destruct i as [|i]; [lia|]. cbn [upd firstn]. f_equal. apply IH. lia.
Qed.
Lemma skipn_upd_ge {A} (x : A) : forall l i k, k <= i -> skipn k (upd i x l) = upd (i - k) x (skipn k l).
Proof.
  induction l as [|h l IH]; intros i k Hik; [now rewrite upd_nil, skipn_nil, upd_nil|].
  destruct k as [|k]; [now rewrite Nat.sub_0_r|]. destruct i as [|i]; [lia|]. cbn [upd skipn]. change (S i - S k) with (i - k). apply IH. lia.
Qed.

(* updating element i of the flat list updates piece (i mod k) of group (i / k) *)
Lemma group_fuel_upd {A} (k : nat) : 0 < k -> forall f (ls : list A) i x, length ls <= f -> i < length ls ->
  group_fuel f k (upd i x ls) = upd (i / k) (upd (i mod k) x (nth (i / k) (group_fuel f k ls) [])) (group_fuel f k ls).
Proof.
  intros Hk. induction f as [|f IH]; intros ls i x Hf Hi; [destruct ls; cbn in *; lia|].
  destruct ls as [|a ls]; [cbn in Hi; lia|].
  cbn [group_fuel]. destruct (upd i x (a :: ls)) as [|b ls'] eqn:Eu; [destruct i; discriminate|]. rewrite <- Eu.
  destruct (Nat.lt_ge_cases i k) as [Hlt|Hge].
  - rewrite (Nat.div_small i k Hlt), (Nat.mod_small i k Hlt). cbn [upd nth].
    rewrite (firstn_upd_lt x _ i k Hlt), (skipn_upd_lt x _ i k Hlt). reflexivity.
  - assert (i / k = S ((i - k) / k)) as Ediv.
    { replace i with ((i - k) + 1 * k) at 1 by lia. rewrite Nat.div_add by lia. lia. }
    assert (i mod k = (i - k) mod k) as Emod.
    { replace i with ((i - k) + 1 * k) at 1 by lia. rewrite Nat.mod_add by lia. reflexivity. }
    rewrite Ediv, Emod. cbn [upd nth].
    rewrite (firstn_upd_ge x _ i k Hge), (skipn_upd_ge x _ i k Hge). f_equal.
    apply IH; rewrite skipn_length; cbn [length] in *; lia.
Qed.
Lemma group_fuel_nth {A} (k : nat) : 0 < k -> forall f (l : list A) i, length l <= f -> i < length l ->
  i mod k < length (nth (i / k) (group_fuel f k l) []) /\ length (nth (i / k) (group_fuel f k l) []) <= k /\
  (forall y, In y (nth (i / k) (group_fuel f k l) []) -> In y l) /\ i / k < length (group_fuel f k l).
Proof.
  intros Hk. induction f as [|f IH]; intros l i Hf Hi; [destruct l; cbn in *; lia|].
  destruct l as [|a l]; [cbn in Hi; lia|]. cbn [group_fuel].
  destruct (Nat.lt_ge_cases i k) as [Hlt|Hge].
  - rewrite (Nat.div_small i k Hlt), (Nat.mod_small i k Hlt). cbn [nth length].
    rewrite firstn_length. repeat split; try lia. intros y Hy. eapply In_firstn; eauto.
  - assert (i / k = S ((i - k) / k)) as Ediv.
    { replace i with ((i - k) + 1 * k) at 1 by lia. rewrite Nat.div_add by lia. lia. }
    assert (i mod k = (i - k) mod k) as Emod.
    { replace i with ((i - k) + 1 * k) at 1 by lia. rewrite Nat.mod_add by lia. reflexivity. }
    rewrite Ediv, Emod. cbn [nth length].
    destruct (IH (skipn k (a :: l)) (i - k)) as (H1 & H2 & H3 & H4); [rewrite skipn_length; cbn [length] in *; lia|rewrite skipn_length; cbn [length] in *; lia|].
    repeat split; try lia; auto. intros y Hy. eapply In_skipn. apply H3. exact Hy.
Qed.

Lemma map_upd {A B} (F : A -> B) : forall l i x, map F (upd i x l) = upd i (F x) (map F l).
Proof. induction l as [|h l IH]; intros [|i] x; cbn; auto. now rewrite IH. Qed.

(* writing element i of a packed sequence = splicing its bytes into chunk i / epc *)
Lemma packed_set_chunks e s (vs : list val) (i : nat) (x : val) :
  wf_ty e = true -> basic_size e = Some s -> forallb (wf e) vs = true -> wf e x = true -> i < length vs ->
  let epc := N.to_nat (elems_per_chunk s) in
  chunks (concat (map (ser e) (upd i x vs))) =
  upd (i / epc) (splice (nth (i / epc) (chunks (concat (map (ser e) vs))) []) (N.of_nat (i mod epc)) (ser e x))
      (chunks (concat (map (ser e) vs))).
Proof.
  intros Hw E Hall Hx Hi epc. pose proof (basic_size_ok e s Hw E) as Hs.
  set (s' := N.to_nat s).
  assert (s' * epc = 32 /\ 0 < s' /\ 0 < epc) as (Hse & Hs0 & He0) by (unfold s', epc, elems_per_chunk; destruct Hs as [ -> | [ -> | [ -> | [ -> | [ -> | -> ]]]]]; cbn; lia).
  set (ls := map (ser e) vs).
  assert (Forall (fun l => length l = s') ls) as Hu.
  { apply Forall_forall. intros b Hb. apply in_map_iff in Hb as (y & <- & Hy). apply (ser_basic_length e s y Hw E). rewrite forallb_forall in Hall. now apply Hall. }
  assert (length (ser e x) = s') as Hxl by (apply (ser_basic_length e s x Hw E Hx)).
  rewrite map_upd. fold ls.
  assert (Forall (fun l => length l = s') (upd i (ser e x) ls)) as Hu'.
  { apply Forall_forall. intros b Hb. rewrite Forall_forall in Hu.
    clear - Hb Hu Hxl. revert i Hb. induction ls as [|h l IH]; intros [|i] Hb; cbn in Hb; try tauto.
    - destruct Hb as [<-|Hb]; [exact Hxl|apply Hu; now right].
    - destruct Hb as [<-|Hb]; [apply Hu; now left|]. apply (IH (fun y Hy => Hu y (or_intror Hy)) i Hb). }
  rewrite (chunks_of_uniform s' epc _ Hse Hs0 Hu'), (chunks_of_uniform s' epc _ Hse Hs0 Hu).
  unfold group. rewrite upd_len.
  assert (i < length ls) as Hil by (unfold ls; now rewrite map_length).
  rewrite (group_fuel_upd epc He0 (length ls) ls i (ser e x) (le_n _) Hil).
  destruct (group_fuel_nth epc He0 (length ls) ls i (le_n _) Hil) as (Hj & Hgl & Hin & Hci).
  set (G := group_fuel (length ls) epc ls) in *. set (g := nth (i / epc) G []) in *.
  rewrite map_upd. f_equal.
  match goal with |- context [nth ?c (map ?F ?GG) ?d] =>
    assert (nth c (map F GG) d = F g) as -> by (rewrite (nth_indep _ d (F [])) by (now rewrite map_length); unfold g; apply (map_nth F)) end.
  assert (Forall (fun l => length l = s') g) as Hug.
  { apply Forall_forall. intros b Hb. rewrite Forall_forall in Hu. apply Hu. now apply Hin. }
  symmetry. apply (splice_concat s' g (i mod epc) (ser e x) Hug Hj Hxl).
  rewrite (concat_uniform_length s' g Hug). apply Nat.le_trans with (epc * s'); [apply Nat.mul_le_mono_r; exact Hgl|lia].
Qed.
Local Open Scope N_scope.

(* a basic element's backing carries its encoding in the first s bytes *)
Lemma basic_repr_bytes e s x m : wf_ty e = true -> basic_size e = Some s -> wf e x = true -> Repr e x m ->
  firstn (N.to_nat s) (root m) = ser e x.
Proof.
  intros Hw E Hx Hr. destruct (mk_basic_ser e s x Hw E Hx) as (v & Hv & Hs).
  assert (mk e x = Ok m) as Hm by (destruct e; cbn in E; try discriminate; exact Hr).
  assert (m = RootN (pad32 (le_bytes (N.to_nat s) v))) as ->.
  { destruct e; cbn in E; try discriminate; inversion E; subst; cbn [ModelViews.mk] in Hm; rewrite Hv in Hm; cbn [bind] in Hm; now inversion Hm. }
  cbn [Tree.root]. rewrite Hs. pose proof (ser_basic_length e s x Hw E Hx) as Hl. rewrite <- Hl. apply firstn_pad32.
  rewrite Hl. pose proof (basic_size_ok e s Hw E). lia.
Qed.

(* the chunk-level write shared by packed vectors and lists, over abstract accessors *)
Lemma packed_write (setp : N -> node -> result node) (getp : N -> result node) (wrap : node -> node)
    (d : nat) (c0 : node) e s (vs : list val) (i : N) (x : val) (m : node) :
  wf_ty e = true -> basic_size e = Some s -> forallb (wf e) vs = true -> wf e x = true -> Repr e x m ->
  i < lenN vs -> CRep d c0 (map RootN (chunks (concat (map (ser e) vs)))) ->
  (forall j v, j < lenN (chunks (concat (map (ser e) vs))) ->
     exists c', setp j v = Ok (wrap c') /\ CRep d c' (upd (N.to_nat j) v (map RootN (chunks (concat (map (ser e) vs)))))) ->
  (forall j, j < lenN (chunks (concat (map (ser e) vs))) ->
     getp j = Ok (nth (N.to_nat j) (map RootN (chunks (concat (map (ser e) vs)))) (RootN zero32))) ->
  let epc := elems_per_chunk s in
  exists c',
    (do probe <- setp (i / epc) (RootN zero32);
     do c <- getp (i / epc);
     setp (i / epc) (RootN (splice (root c) (i mod epc) (firstn (N.to_nat s) (root m))))) = Ok (wrap c') /\
    CRep d c' (map RootN (chunks (concat (map (ser e) (upd (N.to_nat i) x vs))))).
Proof.
  intros Hw E Hall Hx Hr Hi Hc Hset Hget epc. pose proof (basic_size_ok e s Hw E) as Hs.
  set (D := concat (map (ser e) vs)) in *.
  assert (1 <= epc /\ N.to_nat epc = N.to_nat (elems_per_chunk s)) as [Hepc _] by (unfold epc, elems_per_chunk; destruct Hs as [ -> | [ -> | [ -> | [ -> | [ -> | -> ]]]]]; cbn; lia).
  pose proof (packed_set_chunks e s vs (N.to_nat i) x Hw E Hall Hx ltac:(unfold lenN in Hi; lia)) as Hch. cbv zeta in Hch. fold D in Hch.
  assert (N.to_nat i / N.to_nat (elems_per_chunk s) = N.to_nat (i / epc))%nat as Ediv by (unfold epc; rewrite N2Nat.inj_div; reflexivity).
  assert (N.to_nat i mod N.to_nat (elems_per_chunk s) = N.to_nat (i mod epc))%nat as Emod by (unfold epc; rewrite N2Nat.inj_mod; reflexivity).
  rewrite Ediv, Emod, N2Nat.id in Hch.
  (* the chunk index is in range *)
  assert (i / epc < lenN (chunks D)) as Hci.
  {     assert (forallb (wf e) (upd (N.to_nat i) x vs) = true) as Hall' by (apply forallb_upd; assumption).
    pose proof (f_equal (@length bytes) Hch) as Hlen. rewrite upd_len in Hlen.
    destruct (Nat.lt_ge_cases (N.to_nat (i / epc)) (length (chunks D))) as [Hlt|Hge]; [unfold lenN; lia|exfalso].
    (* otherwise element i would lie beyond the data *)
    rewrite chunks_length in Hge. unfold D in Hge. rewrite (concat_ser_length e s vs Hw E Hall) in Hge.
    unfold lenN in Hi. pose proof (N.div_mod i epc ltac:(lia)) as Hdm. pose proof (N.mod_lt i epc ltac:(lia)) as Hml.
    assert (N.to_nat s * N.to_nat epc = 32)%nat as Hse by (unfold epc, elems_per_chunk; destruct Hs as [ -> | [ -> | [ -> | [ -> | [ -> | -> ]]]]]; cbn; lia).
    pose proof (Nat.div_mod (length vs * N.to_nat s + 31) 32 ltac:(lia)) as Hq. pose proof (Nat.mod_upper_bound (length vs * N.to_nat s + 31) 32 ltac:(lia)) as Hr'.
    set (q := ((length vs * N.to_nat s + 31) / 32)%nat) in *. set (ci := i / epc) in *. set (r := i mod epc) in *.
    assert (N.to_nat i = N.to_nat epc * N.to_nat ci + N.to_nat r)%nat as Hi' by lia.
    assert (32 * q <= 32 * N.to_nat ci)%nat as H1 by lia.
    assert (N.to_nat i * N.to_nat s = 32 * N.to_nat ci + N.to_nat r * N.to_nat s)%nat as H2 by (rewrite Hi'; nia).
    nia. }
  fold D in Hset, Hget.
  destruct (Hset (i / epc) (RootN zero32) Hci) as (pr & Hpr & _). rewrite Hpr. cbn [bind].
  rewrite (Hget (i / epc) Hci). cbn [bind].
  rewrite (nth_map_RootN (chunks D)) by (unfold lenN, bytes in *; lia). cbn [Tree.root].
  rewrite (basic_repr_bytes e s x m Hw E Hx Hr).
  destruct (Hset (i / epc) (RootN (splice (nth (N.to_nat (i / epc)) (chunks D) zero32) (i mod epc) (ser e x))) Hci) as (c' & Hs' & Hc'). rewrite Hs'.
  exists c'. split; [reflexivity|]. rewrite Hch, map_upd.
  rewrite (nth_indep _ [] zero32) by (unfold lenN, bytes in *; lia). exact Hc'.
Qed.
(* list-like backing: writes go through the length mix-in *)
Lemma crep_setter_i_list d c lenn ns i x : CRep d c ns -> i < lenN ns ->
  exists c', setter_i H src false (PairN c lenn) i (S d) x = Ok (PairN c' lenn) /\ CRep d c' (upd (N.to_nat i) x ns).
Proof.
  intros Hc Hi. pose proof (CRep_len H _ _ _ Hc) as Hl. pose proof (pow_nat_N d) as Hp.
  assert (i < 2 ^ N.of_nat d) as Hi1 by (unfold lenN in Hi; lia).
  assert (i < 2 ^ N.of_nat (S d)) as Hi2 by (rewrite Nat2N.inj_succ, N.pow_succ_r'; lia).
  unfold setter_i. rewrite (to_gindex_ok i (S d) Hi2). cbn [bind]. unfold setter_g. rewrite (path_of_to_gindex (S d) i Hi2).
  cbn [be_bits]. rewrite (testbit_top i d Hi2). assert ((2 ^ N.of_nat d <=? i) = false) as -> by (apply N.leb_gt; exact Hi1).
  rewrite setter_unfold. cbn [Tree.setter_below children].
  destruct (CRep_set H src false _ _ _ Hc i x Hi) as (c' & Hs & Hc'). rewrite Hs. cbn [rebuild]. eauto.
Qed.

Theorem packed_vector_set e k s vs n i x m : wf_ty (TVector e k) = true -> basic_size e = Some s ->
  wf (TVector e k) (VSeq vs) = true -> Repr (TVector e k) (VSeq vs) n -> (0 <= i < Z.of_N k)%Z -> wf e x = true -> Repr e x m ->
  exists n', view_set H src (TVector e k) n i m = Ok n' /\ Repr (TVector e k) (VSeq (upd (Z.to_nat i) x vs)) n'.
Proof.
  intros Hty E Hwf Hr Hi Hx Hm. cbn [wf] in Hwf. apply andb_true_iff in Hwf as [Hn Hall]. apply N.eqb_eq in Hn.
  cbn [wf_ty] in Hty. apply andb_true_iff in Hty as [Hty _]. apply andb_true_iff in Hty as [Hte _].
  cbn [ReprProofs.Repr chunk_data] in Hr. rewrite E in Hr.
  unfold view_set, check_index. cbn [view_len bind].
  assert (((i <? 0)%Z || (Z.of_N k <=? i)%Z) = false) as -> by lia. cbn [bind].
  unfold sub_set. cbn [elem_ty bind]. rewrite E.
  assert (tree_depth (TVector e k) = contents_depth (TVector e k)) as -> by reflexivity.
  destruct (packed_write (fun j v => setter_i H src false n j (contents_depth (TVector e k)) v)
              (fun j => getter_i src n j (contents_depth (TVector e k))) (fun c => c)
              _ n e s vs (Z.to_N i) x m Hte E Hall Hx Hm ltac:(lia) Hr) as (c' & Hs & Hc').
  - intros j v Hj. apply crep_setter_i; [exact Hr|unfold lenN in *; rewrite map_length; exact Hj].
  - intros j Hj. apply (getter_i_crep H src _ _ _ _ _ Hr). unfold lenN in *. rewrite map_length. exact Hj.
  - cbv zeta in Hs. rewrite Hs. exists c'. split; [reflexivity|]. cbn [ReprProofs.Repr chunk_data]. rewrite E.
    replace (Z.to_nat i) with (N.to_nat (Z.to_N i)) by lia. exact Hc'.
Qed.

Theorem packed_list_set e l s vs n i x m : wf_ty (TList e l) = true -> basic_size e = Some s ->
  wf (TList e l) (VSeq vs) = true -> Repr (TList e l) (VSeq vs) n -> (0 <= i < Z.of_N (lenN vs))%Z -> wf e x = true -> Repr e x m ->
  exists n', view_set H src (TList e l) n i m = Ok n' /\ Repr (TList e l) (VSeq (upd (Z.to_nat i) x vs)) n'.
Proof.
  intros Hty E Hwf Hr Hi Hx Hm. cbn [wf] in Hwf. apply andb_true_iff in Hwf as [Hn Hall]. apply N.leb_le in Hn.
  cbn [wf_ty] in Hty. apply andb_true_iff in Hty as [Hte Hlb]. apply N.ltb_lt in Hlb. unfold LIMIT_BOUND in Hlb.
  cbn [ReprProofs.Repr chunk_data] in Hr. destruct Hr as (c & -> & Hr). rewrite E in Hr.
  unfold view_set, check_index. cbn [view_len]. rewrite (mixin_len_node H src c (lenN vs)) by lia. cbn [bind].
  assert (((i <? 0)%Z || (Z.of_N (lenN vs) <=? i)%Z) = false) as -> by lia. cbn [bind].
  unfold sub_set. cbn [elem_ty bind]. rewrite E.
  assert (tree_depth (TList e l) = S (contents_depth (TList e l))) as -> by reflexivity.
  destruct (packed_write (fun j v => setter_i H src false (PairN c (len_node (lenN vs))) j (S (contents_depth (TList e l))) v)
              (fun j => getter_i src (PairN c (len_node (lenN vs))) j (S (contents_depth (TList e l)))) (fun c' => PairN c' (len_node (lenN vs)))
              _ c e s vs (Z.to_N i) x m Hte E Hall Hx Hm ltac:(lia) Hr) as (c' & Hs & Hc').
  - intros j v Hj. apply crep_setter_i_list; [exact Hr|unfold lenN in *; rewrite map_length; exact Hj].
  - intros j Hj. apply (getter_i_crep_list H src _ _ _ _ _ _ Hr). unfold lenN in *. rewrite map_length. exact Hj.
  - cbv zeta in Hs. rewrite Hs. eexists. split; [reflexivity|]. cbn [ReprProofs.Repr chunk_data]. exists c'.
    split; [unfold lenN; now rewrite upd_len|]. rewrite E.
    replace (Z.to_nat i) with (N.to_nat (Z.to_N i)) by lia. exact Hc'.
Qed.

Local Open Scope nat_scope.
(* whole 32-byte chunks followed by a short tail *)
Lemma split32 : forall f (D : bytes), length D <= f ->
  exists cs lastq, D = concat cs ++ lastq /\ Forall (fun c => length c = 32) cs /\ length lastq < 32.
Proof.
  induction f as [|f IH]; intros D Hf.
  - destruct D; [|cbn in Hf; lia]. exists [], []. cbn. repeat split; [constructor|lia].
  - destruct (Nat.lt_ge_cases (length D) 32) as [Hlt|Hge].
    + exists [], D. cbn. repeat split; [constructor|exact Hlt].
    + destruct (IH (skipn 32 D)) as (cs & lastq & E & Hall & Hl); [rewrite skipn_length; lia|].
      exists (firstn 32 D :: cs), lastq. cbn [concat]. rewrite <- app_assoc, <- E, firstn_skipn. repeat split; auto.
      constructor; [rewrite firstn_length; lia|exact Hall].
Qed.

Lemma chunks_split cs lastq : Forall (fun c => length c = 32) cs -> length lastq < 32 ->
  chunks (concat cs ++ lastq) = cs ++ (match lastq with [] => [] | _ => [pad32 lastq] end).
Proof. intros Hall Hl. apply (chunks_app_full H); [exact Hall|lia]. Qed.

Lemma skipn_repeat' {A} (a : A) j k : skipn j (repeat a k) = repeat a (k - j).
Proof. revert k; induction j as [|j IH]; intros [|k]; cbn; auto. Qed.

(* appending s bytes after a tail of j pieces of s bytes inside one chunk *)
Lemma splice_append (s j : nat) (lastq eb : bytes) : length lastq = s * j -> length eb = s -> s * (j + 1) <= 32 ->
  splice (pad32 lastq) (N.of_nat j) eb = pad32 (lastq ++ eb).
Proof.
  intros Hl Heb Hb. unfold splice. rewrite Nat2N.id, Heb. unfold pad32, pad_to, zero_bytes.
  rewrite firstn_app, <- Hl, firstn_all, Nat.sub_diag. cbn [firstn]. rewrite app_nil_r.
  rewrite skipn_app. rewrite (skipn_all2 lastq) by lia. cbn [app].
  rewrite skipn_repeat'. rewrite app_length, Heb, <- app_assoc. f_equal. f_equal. f_equal. lia.
Qed.
(* clearing the last piece of a tail *)
Lemma splice_clear (s j : nat) (lastq eb : bytes) : length lastq = s * j -> length eb = s -> s * (j + 1) <= 32 ->
  splice (pad32 (lastq ++ eb)) (N.of_nat j) (zero_bytes s) = pad32 lastq.
Proof.
  intros Hl Heb Hb. unfold splice. rewrite Nat2N.id.
  assert (length (zero_bytes s) = s) as -> by (unfold zero_bytes; apply repeat_length).
  unfold pad32, pad_to, zero_bytes.
  rewrite <- (app_assoc lastq eb). rewrite firstn_app, <- Hl, firstn_all, Nat.sub_diag. cbn [firstn]. rewrite app_nil_r.
  rewrite skipn_app. rewrite (skipn_all2 lastq) by lia. cbn [app].
  replace (s * (j + 1) - length lastq) with s by lia.
  rewrite skipn_app. rewrite (skipn_all2 eb) by lia. cbn [app]. rewrite Heb, Nat.sub_diag. cbn [skipn].
  rewrite app_length, Heb. f_equal. rewrite <- repeat_app. f_equal. lia.
Qed.
Local Open Scope N_scope.

(* the data of a packed sequence as whole chunks plus the tail of (len mod epc) elements *)
Lemma packed_layout e s (vs : list val) : wf_ty e = true -> basic_size e = Some s -> forallb (wf e) vs = true ->
  exists cs lastq, concat (map (ser e) vs) = concat cs ++ lastq /\ Forall (fun c => length c = 32%nat) cs /\
    length cs = N.to_nat (lenN vs / elems_per_chunk s) /\
    length lastq = (N.to_nat s * N.to_nat (lenN vs mod elems_per_chunk s))%nat /\
    (N.to_nat s * (N.to_nat (lenN vs mod elems_per_chunk s) + 1) <= 32)%nat.
Proof.
  intros Hw E Hall. pose proof (basic_size_ok e s Hw E) as Hs.
  set (D := concat (map (ser e) vs)). pose proof (concat_ser_length e s vs Hw E Hall) as HD. fold D in HD.
  destruct (split32 (length D) D (le_n _)) as (cs & lastq & ED & Hcs & Hlq).
  exists cs, lastq. split; [exact ED|]. split; [exact Hcs|].
  pose proof (f_equal (@length byte) ED) as Hlen. rewrite app_length, (concat_uniform_length 32 cs Hcs), HD in Hlen.
  set (epc := elems_per_chunk s).
  assert (N.to_nat s * N.to_nat epc = 32 /\ 0 < N.to_nat epc /\ 0 < N.to_nat s)%nat as (Hse & He0 & Hs0)
    by (unfold epc, elems_per_chunk; destruct Hs as [ -> | [ -> | [ -> | [ -> | [ -> | -> ]]]]]; cbn; lia).
  pose proof (N.div_mod (lenN vs) epc ltac:(lia)) as Hdm. pose proof (N.mod_lt (lenN vs) epc ltac:(lia)) as Hml.
  set (q := lenN vs / epc) in *. set (r := lenN vs mod epc) in *.
  assert (length vs = N.to_nat epc * N.to_nat q + N.to_nat r)%nat as Hv by (unfold lenN in Hdm; lia).
  assert (N.to_nat s * N.to_nat r < 32)%nat as Hr32 by nia.
  assert (length cs = N.to_nat q /\ length lastq = N.to_nat s * N.to_nat r)%nat as [H1 H2].
  { assert (length cs * 32 + length lastq = 32 * N.to_nat q + N.to_nat s * N.to_nat r)%nat as Heq by (rewrite Hv in Hlen; nia).
    split; nia. }
  split; [exact H1|]. split; [exact H2|]. nia.
Qed.

Theorem packed_list_append e l s vs n x m : wf_ty (TList e l) = true -> basic_size e = Some s ->
  wf (TList e l) (VSeq vs) = true -> Repr (TList e l) (VSeq vs) n -> lenN vs < l -> wf e x = true -> Repr e x m ->
  exists n', list_append H src (TList e l) n m = Ok n' /\ Repr (TList e l) (VSeq (vs ++ [x])) n'.
Proof.
  intros Hty E Hwf Hr Hlt Hx Hm. cbn [wf] in Hwf. apply andb_true_iff in Hwf as [Hn Hall]. apply N.leb_le in Hn.
  pose proof Hty as Hty0. cbn [wf_ty] in Hty. apply andb_true_iff in Hty as [Hte Hlb]. apply N.ltb_lt in Hlb. unfold LIMIT_BOUND in Hlb.
  cbn [ReprProofs.Repr chunk_data] in Hr. destruct Hr as (c & -> & Hr). rewrite E in Hr.
  pose proof (basic_size_ok e s Hte E) as Hs.
  unfold list_append. rewrite (mixin_len_node H src c (lenN vs)) by lia. cbn [bind].
  assert ((l <=? lenN vs) = false) as -> by (apply N.leb_gt; exact Hlt). rewrite E.
  assert (tree_depth (TList e l) = S (contents_depth (TList e l))) as -> by reflexivity.
  set (cd := contents_depth (TList e l)) in *.
  rewrite (basic_repr_bytes e s x m Hte E Hx Hm).
  destruct (packed_layout e s vs Hte E Hall) as (cs & lastq & ED & Hcs & Hlcs & Hllq & Hfit).
  set (D := concat (map (ser e) vs)) in *. set (epc := elems_per_chunk s) in *.
  pose proof (ser_basic_length e s x Hte E Hx) as Hxl.
  assert (concat (map (ser e) (vs ++ [x])) = D ++ ser e x) as ED' by (rewrite map_app, concat_app; cbn [map concat]; now rewrite app_nil_r).
  assert (lenN (vs ++ [x]) = lenN vs + 1) as Elen by (unfold lenN; rewrite app_length; cbn [length]; lia).
  (* capacity *)
  assert (length (chunks (D ++ ser e x)) <= 2 ^ cd)%nat as Hcap.
  { rewrite chunks_length, <- ED', (concat_ser_length e s (vs ++ [x]) Hte E) by (rewrite forallb_app; cbn [forallb]; now rewrite Hall, Hx).
    unfold cd. cbn [contents_depth]. unfold to_chunk_length. rewrite E. rewrite (chunk_len_eq s l Hs).
    pose proof (get_depth_fits ((l * s + 31) / 32)). rewrite app_length. cbn [length]. unfold lenN in *. nia. }
  destruct (lenN vs mod epc =? 0) eqn:Er.
  - (* a new chunk *)
    apply N.eqb_eq in Er. rewrite Er in Hllq. rewrite Nat.mul_0_r in Hllq. destruct lastq; [|discriminate]. rewrite app_nil_r in ED.
    assert (chunks D = cs) as Ech by (rewrite ED; rewrite <- (app_nil_r (concat cs)); rewrite (chunks_split cs [] Hcs ltac:(cbn; lia)); now rewrite app_nil_r).
    rewrite Ech in Hr.
    assert (chunks (D ++ ser e x) = cs ++ [pad32 (ser e x)]) as Ech'.
    { rewrite ED. rewrite (chunks_app_full H cs (ser e x) Hcs) by lia. destruct (ser e x) eqn:Es; [cbn in Hxl; lia|reflexivity]. }
    assert (splice zero32 0 (ser e x) = pad32 (ser e x)) as Esp.
    { change zero32 with (pad32 []). apply (splice_append (N.to_nat s) 0 [] (ser e x)); [cbn; lia|exact Hxl|lia]. }
    rewrite Esp.
    (* the expanding write at position |cs| *)
    assert (lenN vs / epc = lenN (map RootN cs)) as Eq by (unfold lenN, bytes in *; rewrite map_length; lia).
    pose proof (CRep_len H _ _ _ Hr) as Hcl. pose proof (pow_nat_N cd) as Hp.
    assert (lenN (map RootN cs) < 2 ^ N.of_nat cd) as Hq1.
    { rewrite Ech' in Hcap. rewrite app_length in Hcap. cbn [length] in Hcap. unfold lenN, bytes in *. rewrite map_length. lia. }
    assert (lenN (map RootN cs) < 2 ^ N.of_nat (S cd)) as Hq2 by (rewrite Nat2N.inj_succ, N.pow_succ_r'; lia).
    unfold setter_i. rewrite Eq, (to_gindex_ok _ (S cd) Hq2). cbn [bind]. unfold setter_g. rewrite (path_of_to_gindex (S cd) _ Hq2).
    cbn [be_bits]. rewrite (testbit_top _ cd Hq2). assert ((2 ^ N.of_nat cd <=? lenN (map RootN cs)) = false) as -> by (apply N.leb_gt; exact Hq1).
    rewrite setter_unfold. cbn [Tree.setter_below children].
    destruct (CRep_append H src _ _ _ Hr (RootN (pad32 (ser e x)))) as (c' & Hs' & Hc'); [unfold lenN in Hq1; lia|].
    rewrite Hs'. cbn [rebuild bind]. unfold rebind_right. cbn [children].
    eexists; split; [reflexivity|]. cbn [ReprProofs.Repr chunk_data]. exists c'. split; [now rewrite Elen|]. rewrite E, ED', Ech', map_app. exact Hc'.
  - (* into the partial last chunk *)
    apply N.eqb_neq in Er.
    assert (lastq <> []) as Hlqne by (intros ->; cbn in Hllq; pose proof Hs; nia).
    assert (chunks D = cs ++ [pad32 lastq]) as Ech.
    { rewrite ED. rewrite (chunks_app_full H cs lastq Hcs) by lia. destruct lastq; [congruence|reflexivity]. }
    rewrite Ech in Hr.
    assert (chunks (D ++ ser e x) = cs ++ [pad32 (lastq ++ ser e x)]) as Ech'.
    { rewrite ED, <- app_assoc. rewrite (chunks_app_full H cs (lastq ++ ser e x) Hcs) by (rewrite app_length; lia).
      destruct (lastq ++ ser e x) eqn:Es; [destruct lastq; [congruence|discriminate]|reflexivity]. }
    set (ns := map RootN (cs ++ [pad32 lastq])) in *.
    assert (lenN vs / epc < lenN ns) as Hq by (unfold ns, lenN, bytes in *; rewrite map_length, app_length; cbn [length]; lia).
    destruct (crep_setter_i_list cd c (len_node (lenN vs)) ns (lenN vs / epc) (RootN zero32) Hr Hq) as (pr & Hpr & _). rewrite Hpr. cbn [bind].
    rewrite (getter_i_crep_list H src cd c _ ns (lenN vs / epc) (RootN zero32) Hr Hq). cbn [bind].
    assert (nth (N.to_nat (lenN vs / epc)) ns (RootN zero32) = RootN (pad32 lastq)) as ->.
    { unfold ns. rewrite map_app. cbn [map]. unfold bytes in *. rewrite app_nth2 by (rewrite map_length; lia). rewrite map_length, <- Hlcs, Nat.sub_diag. reflexivity. }
    cbn [Tree.root].
    rewrite <- (N2Nat.id (lenN vs mod epc)). rewrite (splice_append (N.to_nat s) _ lastq (ser e x) Hllq Hxl Hfit).
    destruct (crep_setter_i_list cd c (len_node (lenN vs)) ns (lenN vs / epc) (RootN (pad32 (lastq ++ ser e x))) Hr Hq) as (c' & Hs' & Hc'). rewrite Hs'.
    cbn [bind]. unfold rebind_right. cbn [children].
    eexists; split; [reflexivity|]. cbn [ReprProofs.Repr chunk_data]. exists c'. split; [now rewrite Elen|]. rewrite E, ED', Ech'.
    unfold ns in Hc'. rewrite map_app in Hc'. cbn [map] in Hc'. unfold bytes in *. rewrite upd_app2 in Hc' by (rewrite map_length; lia).
    rewrite map_length, <- Hlcs, Nat.sub_diag in Hc'. cbn [upd] in Hc'. rewrite map_app. exact Hc'.
Qed.
(* the same accessors with the generalized index already computed *)
Lemma list_setter_g d c lenn ns q v : CRep d c ns -> q < lenN ns ->
  exists c', setter_g H src false (PairN c lenn) (2 ^ N.of_nat (S d) + q) v = Ok (PairN c' lenn) /\ CRep d c' (upd (N.to_nat q) v ns).
Proof.
  intros Hc Hq. pose proof (CRep_len H _ _ _ Hc) as Hl. pose proof (pow_nat_N d) as Hp.
  assert (q < 2 ^ N.of_nat d) as Hq1 by (unfold lenN in Hq; lia).
  assert (q < 2 ^ N.of_nat (S d)) as Hq2 by (rewrite Nat2N.inj_succ, N.pow_succ_r'; lia).
  unfold setter_g. rewrite (path_of_to_gindex (S d) q Hq2). cbn [be_bits]. rewrite (testbit_top q d Hq2).
  assert ((2 ^ N.of_nat d <=? q) = false) as -> by (apply N.leb_gt; exact Hq1).
  rewrite setter_unfold. cbn [Tree.setter_below children].
  destruct (CRep_set H src false _ _ _ Hc q v Hq) as (c' & Hs & Hc'). rewrite Hs. cbn [rebuild]. eauto.
Qed.
Lemma list_getter_g d c lenn ns q dflt : CRep d c ns -> q < lenN ns ->
  getter_g src (PairN c lenn) (2 ^ N.of_nat (S d) + q) = Ok (nth (N.to_nat q) ns dflt).
Proof.
  intros Hc Hq. pose proof (CRep_len H _ _ _ Hc) as Hl. pose proof (pow_nat_N d) as Hp.
  assert (q < 2 ^ N.of_nat d) as Hq1 by (unfold lenN in Hq; lia).
  assert (q < 2 ^ N.of_nat (S d)) as Hq2 by (rewrite Nat2N.inj_succ, N.pow_succ_r'; lia).
  unfold getter_g. rewrite (path_of_to_gindex (S d) q Hq2). cbn [be_bits]. rewrite (testbit_top q d Hq2).
  assert ((2 ^ N.of_nat d <=? q) = false) as -> by (apply N.leb_gt; exact Hq1).
  cbn [Tree.getter children]. now apply (CRep_get H src _ _ _ Hc).
Qed.

Lemma splice_zero_clear s : (N.to_nat s <= 32)%nat -> splice zero32 0 (zero_bytes (N.to_nat s)) = zero32.
Proof.
  intros Hs. unfold splice, zero32, zero_bytes. rewrite repeat_length. cbn [N.to_nat Nat.mul firstn app].
  rewrite Nat.mul_0_r. cbn [firstn app]. rewrite Nat.mul_1_r, skipn_repeat', <- repeat_app. f_equal. lia.
Qed.

Theorem packed_list_pop e l s vs n : wf_ty (TList e l) = true -> basic_size e = Some s ->
  wf (TList e l) (VSeq vs) = true -> Repr (TList e l) (VSeq vs) n -> vs <> [] ->
  exists n', list_pop H src (TList e l) n = Ok n' /\ Repr (TList e l) (VSeq (removelast vs)) n'.
Proof.
  intros Hty E Hwf Hr Hne. cbn [wf] in Hwf. apply andb_true_iff in Hwf as [Hn Hall]. apply N.leb_le in Hn.
  cbn [wf_ty] in Hty. apply andb_true_iff in Hty as [Hte Hlb]. apply N.ltb_lt in Hlb. unfold LIMIT_BOUND in Hlb.
  cbn [ReprProofs.Repr chunk_data] in Hr. destruct Hr as (c & -> & Hr). rewrite E in Hr.
  pose proof (basic_size_ok e s Hte E) as Hs.
  destruct (nil_or_last vs) as [->|(vs' & xl & ->)]; [congruence|]. clear Hne. rewrite removelast_last.
  rewrite forallb_app in Hall. apply andb_true_iff in Hall as [Hall' Hxl]. cbn [forallb] in Hxl. rewrite andb_true_r in Hxl.
  assert (lenN (vs' ++ [xl]) = lenN vs' + 1) as Elen by (unfold lenN; rewrite app_length; cbn [length]; lia).
  unfold list_pop. rewrite (mixin_len_node H src c _) by lia. cbn [bind]. rewrite Elen.
  assert ((lenN vs' + 1 =? 0) = false) as -> by (apply N.eqb_neq; lia). rewrite E.
  replace (lenN vs' + 1 - 1) with (lenN vs') by lia.
  assert (tree_depth (TList e l) = S (contents_depth (TList e l))) as -> by reflexivity.
  set (cd := contents_depth (TList e l)) in *. set (epc := elems_per_chunk s) in *.
  destruct (packed_layout e s vs' Hte E Hall') as (cs & lastq & ED & Hcs & Hlcs & Hllq & Hfit). fold epc in Hlcs, Hllq, Hfit.
  pose proof (ser_basic_length e s xl Hte E Hxl) as Hxll.
  assert (concat (map (ser e) (vs' ++ [xl])) = concat cs ++ (lastq ++ ser e xl)) as ED'.
  { rewrite map_app, concat_app. cbn [map concat]. rewrite app_nil_r, ED, <- app_assoc. reflexivity. }
  rewrite ED' in Hr.
  assert (chunks (concat cs ++ lastq ++ ser e xl) = cs ++ [pad32 (lastq ++ ser e xl)]) as Ech.
  { rewrite (chunks_app_full H cs (lastq ++ ser e xl) Hcs) by (rewrite app_length; lia).
    destruct (lastq ++ ser e xl) eqn:Es; [apply (f_equal (@length byte)) in Es; rewrite app_length in Es; cbn in Es; lia|reflexivity]. }
  rewrite Ech in Hr. set (ns := map RootN (cs ++ [pad32 (lastq ++ ser e xl)])) in *.
  set (q := lenN vs' / epc) in *.
  assert (lenN ns = q + 1) as Hlns by (unfold ns, lenN, bytes in *; rewrite map_length, app_length; cbn [length]; lia).
  pose proof (CRep_len H _ _ _ Hr) as Hcl. pose proof (pow_nat_N cd) as Hp.
  assert (q < 2 ^ N.of_nat cd) as Hq1 by (unfold lenN in *; lia).
  assert (q < 2 ^ N.of_nat (S cd)) as Hq2 by (rewrite Nat2N.inj_succ, N.pow_succ_r'; lia).
  rewrite (to_gindex_ok q (S cd) Hq2). cbn [bind].
  destruct (lenN vs' mod epc =? 0) eqn:Er.
  - (* the chunk held only this element *)
    apply N.eqb_eq in Er. rewrite Er in Hllq. rewrite Nat.mul_0_r in Hllq. destruct lastq; [|discriminate]. rewrite app_nil_r in ED.
    rewrite Er. cbn [N.eqb bind Tree.root Tree.zero_node Tree.zero_hash].
    rewrite (splice_zero_clear s) by (destruct Hs as [ -> | [ -> | [ -> | [ -> | [ -> | -> ]]]]]; cbn; lia).
    destruct (list_setter_g cd c (len_node (lenN vs' + 1)) ns q (RootN zero32) Hr ltac:(lia)) as (c1 & Hs1 & Hc1).
    change (RootN zero32) with (zero_node H 0) in *. rewrite Hs1. cbn [bind].
    assert (upd (N.to_nat q) (zero_node H 0) ns = map RootN cs ++ [zero_node H 0]) as Eupd.
    { unfold ns. rewrite map_app. cbn [map]. unfold bytes in *. rewrite upd_app2 by (rewrite map_length; lia). rewrite map_length, <- Hlcs, Nat.sub_diag. reflexivity. }
    rewrite Eupd in Hc1. pose proof (CRep_drop_zero _ _ _ Hc1 _ eq_refl) as Hc1'.
    assert (lenN (map RootN cs) = q) as Hlen' by (unfold lenN, bytes in *; rewrite map_length; lia).
    assert (exists c2, (if N.even (2 ^ N.of_nat (S cd) + q) && true then summarize_up H src (PairN c1 (len_node (lenN vs' + 1))) (2 ^ N.of_nat (S cd) + q)
                        else Ok (PairN c1 (len_node (lenN vs' + 1)))) = Ok (PairN c2 (len_node (lenN vs' + 1))) /\ CRep cd c2 (map RootN cs)) as (c2 & Hsum & Hc2).
    { rewrite andb_true_r. destruct (N.even (2 ^ N.of_nat (S cd) + q)); [|eauto].
      unfold summarize_up. destruct (climb_exists (N.size_nat (2 ^ N.of_nat (S cd) + q)) cd q Hq1) as (k & Hk & Hmod & Hcl'). rewrite Hcl'.
      apply (summarize_list_backing cd c1 _ (map RootN cs) k q Hc1' Hlen' Hq1 Hk Hmod).
      (* the cleared leaf is reachable *)
      exists (zero_node H 0).
      assert (q < lenN (map RootN cs ++ [zero_node H 0])) as Hql by (rewrite lenN_app, Hlen'; unfold lenN; cbn [length]; clear; lia).
      rewrite (CRep_get H src _ _ _ Hc1 q (RootN zero32) Hql).
      assert (length (map RootN cs) = N.to_nat q) as Hlq' by (clear - Hlen'; unfold lenN in Hlen'; lia).
      rewrite app_nth2 by (rewrite Hlq'; apply le_n). rewrite Hlq', Nat.sub_diag. reflexivity. }
    rewrite Hsum. cbn [bind]. unfold rebind_right. cbn [children]. eexists; split; [reflexivity|].
    cbn [ReprProofs.Repr chunk_data]. exists c2. split; [reflexivity|]. rewrite E, ED.
    rewrite <- (app_nil_r (concat cs)), (chunks_split cs [] Hcs ltac:(cbn; lia)), app_nil_r. exact Hc2.
  - (* other elements stay in the chunk *)
    apply N.eqb_neq in Er. rewrite andb_false_r.
    assert (lastq <> []) as Hlqne by (intros ->; cbn in Hllq; pose proof Hs; nia).
    rewrite (list_getter_g cd c _ ns q (RootN zero32) Hr ltac:(lia)).
    assert (nth (N.to_nat q) ns (RootN zero32) = RootN (pad32 (lastq ++ ser e xl))) as ->.
    { unfold ns. rewrite map_app. cbn [map]. unfold bytes in *. rewrite app_nth2 by (rewrite map_length; lia). rewrite map_length, <- Hlcs, Nat.sub_diag. reflexivity. }
    cbn [bind Tree.root].
    rewrite <- (N2Nat.id (lenN vs' mod epc)). rewrite (splice_clear (N.to_nat s) _ lastq (ser e xl) Hllq Hxll Hfit).
    destruct (list_setter_g cd c (len_node (lenN vs' + 1)) ns q (RootN (pad32 lastq)) Hr ltac:(lia)) as (c1 & Hs1 & Hc1).
    rewrite Hs1. cbn [bind]. unfold rebind_right. cbn [children]. eexists; split; [reflexivity|].
    cbn [ReprProofs.Repr chunk_data]. exists c1. split; [reflexivity|]. rewrite E, ED.
    rewrite (chunks_app_full H cs lastq Hcs) by lia. destruct lastq as [|b0 lq] eqn:Elq; [congruence|]. rewrite <- Elq in *.
    unfold ns in Hc1. rewrite map_app in Hc1. cbn [map] in Hc1. unfold bytes in *. rewrite upd_app2 in Hc1 by (rewrite map_length; lia).
    rewrite map_length, <- Hlcs, Nat.sub_diag in Hc1. cbn [upd] in Hc1. rewrite map_app. exact Hc1.
Qed.


(* ---- lists of ANY element type: assignment, append, pop; steps and histories ---- *)
Lemma rl_len {A} (l : list A) : (length (removelast l) <= length l)%nat.
Proof. induction l as [|a l IH]; [apply le_n|]. destruct l; [cbn; apply le_S, le_n|]. cbn [removelast length] in *. apply le_n_S. exact IH. Qed.
Lemma rl_in {A} (x : A) l : In x (removelast l) -> In x l.
Proof. induction l as [|a l IH]; [tauto|]. destruct l as [|b l]; [cbn; tauto|]. intros [->|Hin]; [now left|right; now apply IH]. Qed.

Section AnyList.
Variable e : ty.
Variable limit : N.
Notation t := (TList e limit).
Hypothesis Hty : wf_ty t = true.

Lemma any_limit : limit < 2 ^ 64.
Proof. cbn [wf_ty] in Hty. apply andb_true_iff in Hty as [_ Hb]. now apply N.ltb_lt in Hb. Qed.

Theorem list_set_any vs n i x m : wf t (VSeq vs) = true -> Repr t (VSeq vs) n -> (0 <= i < Z.of_N (lenN vs))%Z ->
  wf e x = true -> Repr e x m ->
  exists n', view_set H src t n i m = Ok n' /\ Repr t (VSeq (upd (Z.to_nat i) x vs)) n'.
Proof.
  intros Hwf Hr Hi Hx Hm. destruct (basic_size e) as [s|] eqn:Eb.
  - exact (packed_list_set e limit s vs n i x m Hty Eb Hwf Hr Hi Hx Hm).
  - cbn [wf] in Hwf. apply andb_true_iff in Hwf as [Hl _]. apply N.leb_le in Hl.
    exact (list_set_v e limit Eb any_limit vs n i x m Hr Hl Hi Hm).
Qed.
Theorem list_append_any vs n x m : wf t (VSeq vs) = true -> Repr t (VSeq vs) n -> lenN vs < limit ->
  wf e x = true -> Repr e x m ->
  exists n', list_append H src t n m = Ok n' /\ Repr t (VSeq (vs ++ [x])) n'.
Proof.
  intros Hwf Hr Hl Hx Hm. destruct (basic_size e) as [s|] eqn:Eb.
  - exact (packed_list_append e limit s vs n x m Hty Eb Hwf Hr Hl Hx Hm).
  - exact (list_append_v e limit Eb any_limit vs n x m Hr Hl Hm).
Qed.
Theorem list_pop_any vs n : wf t (VSeq vs) = true -> Repr t (VSeq vs) n -> vs <> [] ->
  exists n', list_pop H src t n = Ok n' /\ Repr t (VSeq (removelast vs)) n'.
Proof.
  intros Hwf Hr Hne. destruct (basic_size e) as [s|] eqn:Eb.
  - exact (packed_list_pop e limit s vs n Hty Eb Hwf Hr Hne).
  - cbn [wf] in Hwf. apply andb_true_iff in Hwf as [Hl _]. apply N.leb_le in Hl.
    exact (list_pop_v e limit Eb any_limit vs n Hr Hl Hne).
Qed.

Theorem list_history_any : forall os vs n, Repr t (VSeq vs) n -> wf t (VSeq vs) = true -> vvalid_ops e limit vs os ->
  exists n', fold_left (fun acc o => do m <- acc; vapply_impl e limit m o) os (Ok n) = Ok n' /\
             Repr t (VSeq (fold_left vapply_spec os vs)) n' /\ wf t (VSeq (fold_left vapply_spec os vs)) = true.
Proof.
  induction os as [|o os IH]; intros vs n Hr Hwf Hv; cbn [fold_left]; [eauto|].
  destruct Hv as [Hv1 Hv2]. pose proof Hwf as Hwf0. cbn [wf] in Hwf. apply andb_true_iff in Hwf as [Hl Hall]. apply N.leb_le in Hl.
  destruct o as [i x m|x m|]; cbn [vvalid_op vapply_impl vapply_spec bind] in *.
  - destruct Hv1 as (Hi & Hx & Hwx). destruct (list_set_any vs n i x m Hwf0 Hr Hi Hwx Hx) as (n1 & Hs & Hr1). rewrite Hs.
    apply IH; [exact Hr1| |exact Hv2]. cbn [wf]. unfold lenN. rewrite upd_len. apply andb_true_iff. split; [apply N.leb_le; exact Hl|now apply forallb_upd].
  - destruct Hv1 as (Hlt & Hx & Hwx). destruct (list_append_any vs n x m Hwf0 Hr Hlt Hwx Hx) as (n1 & Hs & Hr1). rewrite Hs.
    apply IH; [exact Hr1| |exact Hv2]. cbn [wf]. rewrite forallb_app. cbn [forallb]. rewrite Hall, Hwx. cbn [andb].
    rewrite andb_true_r. apply N.leb_le. rewrite lenN_app. unfold lenN at 2. cbn [length]. lia.
  - destruct (list_pop_any vs n Hwf0 Hr Hv1) as (n1 & Hs & Hr1). rewrite Hs.
    apply IH; [exact Hr1| |exact Hv2]. cbn [wf]. apply andb_true_iff. split.
    + apply N.leb_le. unfold lenN in *. pose proof (rl_len vs). lia.
    + apply forallb_forall. intros x Hx. rewrite forallb_forall in Hall. apply Hall. now apply rl_in in Hx.
Qed.
End AnyList.

(* ==== bitfields ==== *)
Local Open Scope nat_scope.
(* ---- bits ---- *)
Lemma bits_byte_set (g : list bool) (j : nat) (v : bool) : j < length g -> length g <= 8 ->
  bits_byte (upd j v g) = set_bit_byte (bits_byte g) (N.of_nat j) v.
Proof.
  intros Hj Hl.
  destruct g as [|b0 g]; [cbn in Hj; lia|].
  destruct g as [|b1 g]; [destruct j as [|j]; [destruct b0, v; reflexivity|cbn in Hj; lia]|].
  destruct g as [|b2 g]; [do 2 (destruct j as [|j]; [destruct b0, b1, v; reflexivity|]); cbn in Hj; lia|].
  destruct g as [|b3 g]; [do 3 (destruct j as [|j]; [destruct b0, b1, b2, v; reflexivity|]); cbn in Hj; lia|].
  destruct g as [|b4 g]; [do 4 (destruct j as [|j]; [destruct b0, b1, b2, b3, v; reflexivity|]); cbn in Hj; lia|].
  destruct g as [|b5 g]; [do 5 (destruct j as [|j]; [destruct b0, b1, b2, b3, b4, v; reflexivity|]); cbn in Hj; lia|].
  destruct g as [|b6 g]; [do 6 (destruct j as [|j]; [destruct b0, b1, b2, b3, b4, b5, v; reflexivity|]); cbn in Hj; lia|].
  destruct g as [|b7 g]; [do 7 (destruct j as [|j]; [destruct b0, b1, b2, b3, b4, b5, b6, v; reflexivity|]); cbn in Hj; lia|].
  destruct g as [|b8 g]; [do 8 (destruct j as [|j]; [destruct b0, b1, b2, b3, b4, b5, b6, b7, v; reflexivity|]); cbn in Hj; lia|].
  cbn [length] in Hl. lia.
Qed.
(* byte level *)
Lemma bits_to_bytes_upd (bs : list bool) (k : nat) (v : bool) : k < length bs ->
  bits_to_bytes (upd k v bs) =
  upd (k / 8) (set_bit_byte (nth (k / 8) (bits_to_bytes bs) x00) (N.of_nat (k mod 8)) v) (bits_to_bytes bs).
Proof.
  intros Hk. rewrite !bits_group. unfold group. rewrite upd_len.
  rewrite (group_fuel_upd 8 ltac:(lia) (length bs) bs k v (le_n _) Hk).
  destruct (group_fuel_nth 8 ltac:(lia) (length bs) bs k (le_n _) Hk) as (Hj & Hgl & _ & Hci).
  set (G := group_fuel (length bs) 8 bs) in *. set (g := nth (k / 8) G []) in *.
  rewrite map_upd. f_equal.
  assert (nth (k / 8) (map bits_byte G) x00 = bits_byte g) as ->.
  { rewrite (nth_indep _ x00 (bits_byte [])) by (now rewrite map_length). unfold g. apply (map_nth bits_byte). }
  now apply bits_byte_set.
Qed.

Lemma pad32_upd (g : bytes) j x : j < length g -> length g <= 32 -> pad32 (upd j x g) = upd j x (pad32 g).
Proof.
  intros Hj Hl. unfold pad32, pad_to. rewrite upd_len. now rewrite upd_app1.
Qed.

(* chunk level *)
Lemma chunks_upd (B : bytes) (bi : nat) (nb : byte) : bi < length B ->
  chunks (upd bi nb B) = upd (bi / 32) (upd (bi mod 32) nb (nth (bi / 32) (chunks B) [])) (chunks B).
Proof.
  intros Hb. rewrite !chunks_group. unfold group. rewrite upd_len.
  rewrite (group_fuel_upd 32 ltac:(lia) (length B) B bi nb (le_n _) Hb).
  destruct (group_fuel_nth 32 ltac:(lia) (length B) B bi (le_n _) Hb) as (Hj & Hgl & _ & Hci).
  set (G := group_fuel (length B) 32 B) in *. set (g := nth (bi / 32) G []) in *.
  rewrite map_upd. f_equal.
  match goal with |- context [nth ?c (map ?F ?GG) ?d] =>
    assert (nth c (map F GG) d = F g) as -> by (rewrite (nth_indep _ d (F [])) by (now rewrite map_length); unfold g; apply (map_nth F)) end.
  now apply pad32_upd.
Qed.

Lemma upd_firstn_skipn {A} (x : A) : forall l j, j < length l -> firstn j l ++ [x] ++ skipn (S j) l = upd j x l.
Proof. induction l as [|c l IH]; intros [|j] Hj; cbn in Hj; try lia; cbn [firstn skipn upd app]; [reflexivity|]. f_equal. apply IH. lia. Qed.

(* _new_chunk_with_bit is a byte update *)
Lemma chunk_with_bit_upd (chunk : bytes) (i : N) (v : bool) : (N.to_nat ((i mod 256) / 8) < length chunk) ->
  chunk_with_bit chunk i v =
  upd (N.to_nat ((i mod 256) / 8)) (set_bit_byte (nth (N.to_nat ((i mod 256) / 8)) chunk x00) (i mod 8) v) chunk.
Proof.
  intros Hb. unfold chunk_with_bit. set (bi := N.to_nat ((i mod 256) / 8)) in *.
  destruct (nth_error chunk bi) as [b|] eqn:Hn; [|apply nth_error_None in Hn; lia].
  rewrite (nth_error_nth chunk bi x00 Hn). apply upd_firstn_skipn. exact Hb.
Qed.

Lemma nth_firstn_lt {A} (d : A) : forall n l i, i < n -> nth i (firstn n l) d = nth i l d.
Proof. induction n as [|n IH]; intros [|x l] [|i] Hi; cbn; try lia; auto. apply IH. lia. Qed.
Lemma nth_skipn_add {A} (d : A) : forall n l i, nth i (skipn n l) d = nth (n + i) l d.
Proof. induction n as [|n IH]; intros [|x l] i; cbn; auto. destruct i; reflexivity. Qed.

(* setting bit k of a bitfield = _new_chunk_with_bit on chunk k / 256 *)
Lemma bit_set_chunks (bs : list bool) (k : nat) (v : bool) : k < length bs ->
  chunks (bits_to_bytes (upd k v bs)) =
  upd (k / 256) (chunk_with_bit (nth (k / 256) (chunks (bits_to_bytes bs)) zero32) (N.of_nat (k mod 256)) v) (chunks (bits_to_bytes bs)).
Proof.
  intros Hk. set (B := bits_to_bytes bs).
  pose proof (bits_to_bytes_lenN bs) as HB. fold B in HB. unfold lenN in HB.
  assert (k / 8 < length B) as Hb by (apply Nat.div_lt_upper_bound; lia).
  rewrite (bits_to_bytes_upd bs k v Hk). fold B. rewrite (chunks_upd B (k / 8) _ Hb).
  assert (k / 8 / 32 = k / 256) as -> by (rewrite Nat.div_div by lia; reflexivity).
  f_equal. unfold bytes in *.
  assert (k / 256 < length (chunks B)) as Hci by (rewrite chunks_length; apply Nat.div_lt_upper_bound; lia).
  assert (length (nth (k / 256) (chunks B) zero32) = 32) as Hc32.
  { pose proof (chunks_all32 B) as Hall. rewrite Forall_forall in Hall. apply Hall. now apply nth_In. }
  rewrite (nth_indep _ [] zero32 Hci).
  assert (N.to_nat ((N.of_nat (k mod 256) mod 256) / 8) = (k / 8) mod 32) as Ebi.
  { rewrite N.mod_small by (pose proof (Nat.mod_upper_bound k 256 ltac:(lia)); lia).
    rewrite N2Nat.inj_div, Nat2N.id. change (N.to_nat 8) with 8.
    pose proof (Nat.div_mod k 256 ltac:(lia)). pose proof (Nat.mod_upper_bound k 256 ltac:(lia)).
    pose proof (Nat.div_mod (k mod 256) 8 ltac:(lia)). pose proof (Nat.mod_upper_bound (k mod 256) 8 ltac:(lia)).
    apply (Nat.mod_unique (k / 8) 32 (k / 256)); [apply Nat.div_lt_upper_bound; lia|].
    symmetry. apply (Nat.div_unique k 8 _ ((k mod 256) mod 8)); lia. }
  match goal with |- _ = chunk_with_bit ?C ?I ?V =>
    assert (N.to_nat (I mod 256 / 8) < length C) as Hside by (rewrite Ebi; apply Nat.lt_le_trans with 32; [apply Nat.mod_upper_bound; lia|apply Nat.eq_le_incl; symmetry; exact Hc32]);
    rewrite (chunk_with_bit_upd C I V Hside) end.
  rewrite Ebi.
  assert (N.of_nat (k mod 256) mod 8 = N.of_nat (k mod 8))%N as ->.
  { change 8%N with (N.of_nat 8). rewrite <- Nat2N.inj_mod. f_equal. pose proof (Nat.div_mod k 256 ltac:(lia)). pose proof (Nat.mod_upper_bound k 256 ltac:(lia)).
    pose proof (Nat.div_mod (k mod 256) 8 ltac:(lia)). pose proof (Nat.mod_upper_bound (k mod 256) 8 ltac:(lia)).
    apply (Nat.mod_unique k 8 (32 * (k / 256) + (k mod 256) / 8)); lia. }
  f_equal. f_equal.
  (* the byte read from the chunk is the byte of B *)
  transitivity (nth ((k / 8) mod 32) (nth (k / 256) (chunks B) []) x00); [|f_equal; apply nth_indep; exact Hci].
  pose proof (nth_uniform 32 _ _ (chunks_all32 B) Hci) as Enu. unfold bytes in *. rewrite Enu. clear Enu.
  destruct (concat_chunks B) as (z & ->).
  rewrite nth_firstn_lt by (apply Nat.mod_upper_bound; lia).
  assert (k / 256 = k / 8 / 32) as E256 by (rewrite Nat.div_div by lia; reflexivity).
  pose proof (Nat.div_mod (k / 8) 32 ltac:(lia)) as Hdm. rewrite <- E256 in Hdm.
  rewrite nth_skipn_add. replace (k / 256 * 32 + (k / 8) mod 32) with (k / 8) by lia.
  now rewrite app_nth1 by lia.
Qed.
Local Open Scope N_scope.

Lemma bit_write (setp : N -> node -> result node) (getp : N -> result node) (wrap : node -> node)
    (d : nat) (c0 : node) (bs : list bool) (k : N) (v : bool) :
  k < lenN bs -> CRep d c0 (map RootN (chunks (bits_to_bytes bs))) ->
  (forall j x, j < lenN (chunks (bits_to_bytes bs)) ->
     exists c', setp j x = Ok (wrap c') /\ CRep d c' (upd (N.to_nat j) x (map RootN (chunks (bits_to_bytes bs))))) ->
  (forall j, j < lenN (chunks (bits_to_bytes bs)) ->
     getp j = Ok (nth (N.to_nat j) (map RootN (chunks (bits_to_bytes bs))) (RootN zero32))) ->
  exists c',
    (do probe <- setp (k / 256) (RootN zero32);
     do c <- getp (k / 256);
     setp (k / 256) (RootN (chunk_with_bit (root c) (k mod 256) v))) = Ok (wrap c') /\
    CRep d c' (map RootN (chunks (bits_to_bytes (upd (N.to_nat k) v bs)))).
Proof.
  intros Hk Hc Hset Hget. set (B := bits_to_bytes bs) in *.
  pose proof (bits_to_bytes_lenN bs) as HB. fold B in HB.
  assert (k / 256 < lenN (chunks B)) as Hci.
  { unfold lenN in *. rewrite chunks_length. pose proof (N.div_mod k 256 ltac:(lia)). pose proof (N.mod_lt k 256 ltac:(lia)).
    assert (N.to_nat (k / 256) < (length B + 31) / 32)%nat; [|lia]. apply Nat.div_le_lower_bound; lia. }
  pose proof (bit_set_chunks bs (N.to_nat k) v ltac:(unfold lenN in Hk; lia)) as Hch. fold B in Hch.
  assert (N.to_nat k / 256 = N.to_nat (k / 256))%nat as Ediv by (rewrite N2Nat.inj_div; reflexivity).
  assert (N.of_nat (N.to_nat k mod 256) = k mod 256) as Emod by (rewrite N2Nat.inj_mod || idtac; change 256%nat with (N.to_nat 256); rewrite <- N2Nat.inj_mod, N2Nat.id; reflexivity).
  rewrite Ediv, Emod in Hch.
  destruct (Hset (k / 256) (RootN zero32) Hci) as (pr & Hpr & _). rewrite Hpr. cbn [bind].
  rewrite (Hget (k / 256) Hci). cbn [bind].
  rewrite (nth_map_RootN (chunks B)) by (unfold lenN, bytes in *; lia). cbn [Tree.root].
  destruct (Hset (k / 256) (RootN (chunk_with_bit (nth (N.to_nat (k / 256)) (chunks B) zero32) (k mod 256) v)) Hci) as (c' & Hs' & Hc'). rewrite Hs'.
  exists c'. split; [reflexivity|]. rewrite Hch, map_upd. exact Hc'.
Qed.

Theorem bitvector_set k bs n i v : wf (TBitvector k) (VBits bs) = true -> Repr (TBitvector k) (VBits bs) n ->
  (0 <= i < Z.of_N k)%Z ->
  exists n', bits_set H src (TBitvector k) n i v = Ok n' /\ Repr (TBitvector k) (VBits (upd (Z.to_nat i) v bs)) n'.
Proof.
  intros Hwf Hr Hi. cbn [wf] in Hwf. apply N.eqb_eq in Hwf. cbn [ReprProofs.Repr chunk_data] in Hr.
  unfold bits_set. cbn [bits_len bind]. assert (((i <? 0)%Z || (Z.of_N k <=? i)%Z) = false) as -> by lia.
  assert (tree_depth (TBitvector k) = contents_depth (TBitvector k)) as -> by reflexivity.
  destruct (bit_write (fun j x => setter_i H src false n j (contents_depth (TBitvector k)) x)
              (fun j => getter_i src n j (contents_depth (TBitvector k))) (fun c => c) _ n bs (Z.to_N i) v ltac:(lia) Hr) as (c' & Hs & Hc').
  - intros j x Hj. apply crep_setter_i; [exact Hr|unfold lenN in *; rewrite map_length; exact Hj].
  - intros j Hj. apply (getter_i_crep H src _ _ _ _ _ Hr). unfold lenN in *. rewrite map_length. exact Hj.
  - rewrite Hs. exists c'. split; [reflexivity|]. cbn [ReprProofs.Repr chunk_data].
    replace (Z.to_nat i) with (N.to_nat (Z.to_N i)) by lia. exact Hc'.
Qed.

Theorem bitlist_set l bs n i v : wf_ty (TBitlist l) = true -> wf (TBitlist l) (VBits bs) = true -> Repr (TBitlist l) (VBits bs) n ->
  (0 <= i < Z.of_N (lenN bs))%Z ->
  exists n', bits_set H src (TBitlist l) n i v = Ok n' /\ Repr (TBitlist l) (VBits (upd (Z.to_nat i) v bs)) n'.
Proof.
  intros Hty Hwf Hr Hi. cbn [wf] in Hwf. apply N.leb_le in Hwf. cbn [wf_ty] in Hty. apply N.ltb_lt in Hty. unfold LIMIT_BOUND in Hty.
  cbn [ReprProofs.Repr chunk_data val_len] in Hr. destruct Hr as (c & -> & Hr).
  unfold bits_set. cbn [bits_len]. rewrite (mixin_len_node H src c (lenN bs)) by lia. cbn [bind].
  assert (((i <? 0)%Z || (Z.of_N (lenN bs) <=? i)%Z) = false) as -> by lia.
  assert (tree_depth (TBitlist l) = S (contents_depth (TBitlist l))) as -> by reflexivity.
  destruct (bit_write (fun j x => setter_i H src false (PairN c (len_node (lenN bs))) j (S (contents_depth (TBitlist l))) x)
              (fun j => getter_i src (PairN c (len_node (lenN bs))) j (S (contents_depth (TBitlist l)))) (fun c' => PairN c' (len_node (lenN bs)))
              _ c bs (Z.to_N i) v ltac:(lia) Hr) as (c' & Hs & Hc').
  - intros j x Hj. apply crep_setter_i_list; [exact Hr|unfold lenN in *; rewrite map_length; exact Hj].
  - intros j Hj. apply (getter_i_crep_list H src _ _ _ _ _ _ Hr). unfold lenN in *. rewrite map_length. exact Hj.
  - rewrite Hs. eexists. split; [reflexivity|]. cbn [ReprProofs.Repr chunk_data val_len]. exists c'.
    split; [unfold lenN; now rewrite upd_len|]. replace (Z.to_nat i) with (N.to_nat (Z.to_N i)) by lia. exact Hc'.
Qed.
Local Open Scope nat_scope.
Lemma bits_byte_snoc_false (t : list bool) : length t < 8 -> bits_byte (t ++ [false]) = bits_byte t.
Proof.
  intros Hl.
  destruct t as [|[|] t]; [reflexivity| |];
  (destruct t as [|[|] t]; [reflexivity| |]);
  (destruct t as [|[|] t]; [reflexivity| |]);
  (destruct t as [|[|] t]; [reflexivity| |]);
  (destruct t as [|[|] t]; [reflexivity| |]);
  (destruct t as [|[|] t]; [reflexivity| |]);
  (destruct t as [|[|] t]; [reflexivity| |]);
  (destruct t as [|[|] t]; [reflexivity| |]);
  exfalso; cbn [length] in Hl; lia.
Qed.

(* appending a cleared bit: the bytes gain a zero byte at a byte boundary, nothing else changes *)
Lemma bits_append_false_bytes (bs : list bool) :
  bits_to_bytes (bs ++ [false]) = bits_to_bytes bs ++ (if length bs mod 8 =? 0 then [x00] else []).
Proof.
  set (q := length bs / 8). set (a := firstn (q * 8) bs). set (t := skipn (q * 8) bs).
  pose proof (Nat.div_mod (length bs) 8 ltac:(lia)) as Hdm. pose proof (Nat.mod_upper_bound (length bs) 8 ltac:(lia)) as Hm.
  assert (length a = q * 8) as Ha by (unfold a; rewrite firstn_length; unfold q; lia).
  assert (length t = length bs mod 8) as Ht by (unfold t; rewrite skipn_length; unfold q; lia).
  assert (bs = a ++ t) as Ebs by (unfold a, t; now rewrite firstn_skipn).
  set (r := length bs mod 8) in *. clearbody a t r q. clear Hdm. subst bs.
  rewrite !bits_group. rewrite <- app_assoc.
  rewrite !(group_app_full 8 ltac:(lia) q a _ Ha), !map_app, <- app_assoc. f_equal.
  rewrite (group_small 8 (t ++ [false])) by (rewrite app_length; cbn [length]; lia).
  destruct (r =? 0) eqn:Er.
  - apply Nat.eqb_eq in Er. assert (t = []) as -> by (destruct t; [reflexivity|cbn in Ht; lia]). reflexivity.
  - apply Nat.eqb_neq in Er. rewrite (group_small 8 t) by lia. cbn [map]. rewrite bits_byte_snoc_false by lia. now rewrite app_nil_r.
Qed.

Lemma chunks_snoc_zero (B : bytes) :
  chunks (B ++ [x00]) = chunks B ++ (if length B mod 32 =? 0 then [zero32] else []).
Proof.
  destruct (split32 (length B) B (le_n _)) as (cs & lastq & EB & Hcs & Hlq).
  pose proof (f_equal (@length byte) EB) as Hlen. rewrite app_length, (concat_uniform_length 32 cs Hcs) in Hlen.
  assert (length B mod 32 = length lastq) as Emod.
  { symmetry. apply (Nat.mod_unique (length B) 32 (length cs)); lia. }
  rewrite Emod, EB, <- app_assoc.
  rewrite (chunks_app_full H cs (lastq ++ [x00]) Hcs) by (rewrite app_length; cbn [length]; lia).
  rewrite (chunks_app_full H cs lastq Hcs) by lia.
  destruct lastq as [|b lq] eqn:Elq.
  - cbn [app length Nat.eqb]. rewrite app_nil_r. reflexivity.
  - rewrite <- Elq in *. assert ((length lastq =? 0) = false) as -> by (apply Nat.eqb_neq; rewrite Elq; cbn; lia).
    rewrite app_nil_r. destruct (lastq ++ [x00]) eqn:E; [destruct lastq; discriminate|]. rewrite <- E.
    rewrite (pad32_snoc_zero H lastq) by lia. rewrite Elq. reflexivity.
Qed.

Lemma bits_append_false_chunks (bs : list bool) :
  chunks (bits_to_bytes (bs ++ [false])) = chunks (bits_to_bytes bs) ++ (if length bs mod 256 =? 0 then [zero32] else []).
Proof.
  rewrite bits_append_false_bytes. pose proof (bits_to_bytes_lenN bs) as HB. unfold lenN in HB.
  pose proof (Nat.div_mod (length bs) 8 ltac:(lia)) as Hd8. pose proof (Nat.mod_upper_bound (length bs) 8 ltac:(lia)) as Hm8.
  destruct (length bs mod 8 =? 0) eqn:E8.
  - apply Nat.eqb_eq in E8. rewrite chunks_snoc_zero.
    assert (length (bits_to_bytes bs) = length bs / 8) as HlB by lia.
    assert ((length (bits_to_bytes bs) mod 32 =? 0) = (length bs mod 256 =? 0)) as ->; [|reflexivity].
    rewrite HlB. pose proof (Nat.div_mod (length bs / 8) 32 ltac:(lia)). pose proof (Nat.mod_upper_bound (length bs / 8) 32 ltac:(lia)).
    pose proof (Nat.div_mod (length bs) 256 ltac:(lia)). pose proof (Nat.mod_upper_bound (length bs) 256 ltac:(lia)).
    destruct (Nat.eqb_spec ((length bs / 8) mod 32) 0), (Nat.eqb_spec (length bs mod 256) 0); try reflexivity; exfalso; lia.
  - apply Nat.eqb_neq in E8. rewrite app_nil_r.
    assert ((length bs mod 256 =? 0) = false) as ->; [|now rewrite app_nil_r].
    apply Nat.eqb_neq. pose proof (Nat.div_mod (length bs) 256 ltac:(lia)). pose proof (Nat.mod_upper_bound (length bs) 256 ltac:(lia)). lia.
Qed.
Local Open Scope N_scope.
Lemma upd_snoc {A} (l : list A) x y : upd (length l) y (l ++ [x]) = l ++ [y].
Proof. rewrite upd_app2 by lia. rewrite Nat.sub_diag. reflexivity. Qed.

Lemma bit_chunks_count (bs : list bool) : length (chunks (bits_to_bytes bs)) = ((length bs + 255) / 256)%nat.
Proof. rewrite chunks_length. pose proof (bits_to_bytes_lenN bs) as HB. unfold lenN in HB. lia. Qed.

Theorem bitlist_append_repr l bs n v : wf_ty (TBitlist l) = true -> wf (TBitlist l) (VBits bs) = true ->
  Repr (TBitlist l) (VBits bs) n -> lenN bs < l ->
  exists n', bitlist_append H src (TBitlist l) n v = Ok n' /\ Repr (TBitlist l) (VBits (bs ++ [v])) n'.
Proof.
  intros Hty Hwf Hr Hlt. cbn [wf] in Hwf. apply N.leb_le in Hwf. cbn [wf_ty] in Hty. apply N.ltb_lt in Hty. unfold LIMIT_BOUND in Hty.
  cbn [ReprProofs.Repr chunk_data val_len] in Hr. destruct Hr as (c & -> & Hr).
  unfold bitlist_append. rewrite (mixin_len_node H src c (lenN bs)) by lia. cbn [bind].
  assert ((l <=? lenN bs) = false) as -> by (apply N.leb_gt; exact Hlt).
  assert (tree_depth (TBitlist l) = S (contents_depth (TBitlist l))) as -> by reflexivity.
  set (cd := contents_depth (TBitlist l)) in *. set (B := bits_to_bytes bs) in *.
  assert (lenN (bs ++ [v]) = lenN bs + 1) as Elen by (unfold lenN; rewrite app_length; cbn [length]; lia).
  assert (bs ++ [v] = upd (length bs) v (bs ++ [false])) as Eupd by (now rewrite upd_snoc).
  pose proof (bit_set_chunks (bs ++ [false]) (length bs) v ltac:(rewrite app_length; cbn [length]; lia)) as Hch.
  rewrite <- Eupd, bits_append_false_chunks in Hch. fold B in Hch.
  assert (N.of_nat (length bs mod 256) = lenN bs mod 256) as Emod by (unfold lenN; change 256 with (N.of_nat 256); now rewrite Nat2N.inj_mod).
  assert (N.of_nat (length bs / 256) = lenN bs / 256) as Ediv by (unfold lenN; change 256 with (N.of_nat 256); now rewrite Nat2N.inj_div).
  rewrite Emod in Hch.
  (* capacity: the new chunk list fits *)
  assert (length (chunks (bits_to_bytes (bs ++ [v]))) <= 2 ^ cd)%nat as Hcap.
  { rewrite bit_chunks_count, app_length. cbn [length]. unfold cd. cbn [contents_depth].
    pose proof (get_depth_fits ((l + 255) / 256)). unfold lenN in *.
    assert ((length bs + 1 + 255) / 256 <= N.to_nat ((l + 255) / 256))%nat; [|lia].
    rewrite N2Nat.inj_div. change (N.to_nat 256) with 256%nat. apply Nat.div_le_mono; lia. }
  destruct (lenN bs mod 256 =? 0) eqn:Er.
  - (* a new chunk *)
    apply N.eqb_eq in Er. assert ((length bs mod 256 =? 0)%nat = true) as Er' by (apply Nat.eqb_eq; unfold lenN in *; lia).
    rewrite Er' in Hch. rewrite Er in Hch.
    assert (length (chunks B) = length bs / 256)%nat as Hcnt.
    { unfold B. rewrite bit_chunks_count. apply Nat.eqb_eq in Er'. pose proof (Nat.div_mod (length bs) 256 ltac:(lia)) as Hdm.
      rewrite Er' in Hdm. symmetry. apply (Nat.div_unique (length bs + 255) 256 _ 255); lia. }
    rewrite <- Hcnt in Hch. rewrite app_nth2 in Hch by lia. rewrite Nat.sub_diag in Hch. cbn [nth] in Hch. rewrite upd_snoc in Hch.
    assert (lenN bs / 256 = lenN (map RootN (chunks B))) as Eq by (rewrite <- Ediv; unfold lenN; rewrite map_length; lia).
    pose proof (pow_nat_N cd) as Hp.
    assert (lenN (map RootN (chunks B)) < 2 ^ N.of_nat cd) as Hq1.
    { rewrite Hch, app_length in Hcap. cbn [length] in Hcap. unfold lenN. rewrite map_length. lia. }
    assert (lenN (map RootN (chunks B)) < 2 ^ N.of_nat (S cd)) as Hq2 by (rewrite Nat2N.inj_succ, N.pow_succ_r'; lia).
    unfold setter_i. rewrite Eq, (to_gindex_ok _ (S cd) Hq2). cbn [bind]. unfold setter_g. rewrite (path_of_to_gindex (S cd) _ Hq2).
    cbn [be_bits]. rewrite (testbit_top _ cd Hq2). assert ((2 ^ N.of_nat cd <=? lenN (map RootN (chunks B))) = false) as -> by (apply N.leb_gt; exact Hq1).
    rewrite setter_unfold. cbn [Tree.setter_below children].
    destruct (CRep_append H src _ _ _ Hr (RootN (chunk_with_bit zero32 0 v))) as (c' & Hs' & Hc'); [unfold lenN in Hq1; lia|].
    rewrite Hs'. cbn [rebuild bind]. unfold rebind_right. cbn [children].
    eexists; split; [reflexivity|]. cbn [ReprProofs.Repr chunk_data val_len]. exists c'. split; [now rewrite Elen|]. rewrite Hch, map_app. exact Hc'.
  - (* into the partial last chunk *)
    apply N.eqb_neq in Er. assert ((length bs mod 256 =? 0)%nat = false) as Er' by (apply Nat.eqb_neq; unfold lenN in *; lia).
    rewrite Er', app_nil_r in Hch.
    assert (chunks (bits_to_bytes (bs ++ [false])) = chunks B) as EB1 by (rewrite bits_append_false_chunks, Er'; now rewrite app_nil_r).
    destruct (bit_write (fun j x => setter_i H src false (PairN c (len_node (lenN bs))) j (S cd) x)
                (fun j => getter_i src (PairN c (len_node (lenN bs))) j (S cd)) (fun c' => PairN c' (len_node (lenN bs)))
                cd c (bs ++ [false]) (lenN bs) v) as (c' & Hs & Hc').
    + unfold lenN. rewrite app_length. cbn [length]. lia.
    + rewrite EB1. exact Hr.
    + rewrite EB1. intros j x Hj. apply crep_setter_i_list; [exact Hr|unfold lenN in *; rewrite map_length; exact Hj].
    + rewrite EB1. intros j Hj. apply (getter_i_crep_list H src _ _ _ _ _ _ Hr). unfold lenN in *. rewrite map_length. exact Hj.
    + rewrite Hs. cbn [bind]. unfold rebind_right. cbn [children]. eexists; split; [reflexivity|].
      cbn [ReprProofs.Repr chunk_data val_len]. exists c'. split; [now rewrite Elen|].
      unfold lenN in Hc'. rewrite Nat2N.id in Hc'. rewrite <- Eupd in Hc'. exact Hc'.
Qed.
Lemma firstn_upd_same {A} (x : A) : forall l j, firstn j (upd j x l) = firstn j l.
Proof. induction l as [|h l IH]; intros [|j]; cbn; auto. now rewrite IH. Qed.

Theorem bitlist_pop_repr l bs n : wf_ty (TBitlist l) = true -> wf (TBitlist l) (VBits bs) = true ->
  Repr (TBitlist l) (VBits bs) n -> bs <> [] ->
  exists n', bitlist_pop H src (TBitlist l) n = Ok n' /\ Repr (TBitlist l) (VBits (removelast bs)) n'.
Proof.
  intros Hty Hwf Hr Hne. cbn [wf] in Hwf. apply N.leb_le in Hwf. cbn [wf_ty] in Hty. apply N.ltb_lt in Hty. unfold LIMIT_BOUND in Hty.
  cbn [ReprProofs.Repr chunk_data val_len] in Hr. destruct Hr as (c & -> & Hr).
  destruct (nil_or_last bs) as [->|(bs' & b & ->)]; [congruence|]. clear Hne. rewrite removelast_last.
  assert (lenN (bs' ++ [b]) = lenN bs' + 1) as Elen by (unfold lenN; rewrite app_length; cbn [length]; lia).
  unfold bitlist_pop. rewrite (mixin_len_node H src c _) by lia. cbn [bind]. rewrite Elen.
  assert ((lenN bs' + 1 =? 0) = false) as -> by (apply N.eqb_neq; lia).
  replace (lenN bs' + 1 - 1) with (lenN bs') by lia.
  assert (tree_depth (TBitlist l) = S (contents_depth (TBitlist l))) as -> by reflexivity.
  set (cd := contents_depth (TBitlist l)) in *. set (B := bits_to_bytes (bs' ++ [b])) in *. set (B' := bits_to_bytes bs').
  (* clearing the last bit = the bytes of bs' ++ [false] *)
  assert (upd (length bs') false (bs' ++ [b]) = bs' ++ [false]) as Eupd by apply upd_snoc.
  pose proof (bit_set_chunks (bs' ++ [b]) (length bs') false ltac:(rewrite app_length; cbn [length]; lia)) as Hch.
  rewrite Eupd, bits_append_false_chunks in Hch. fold B B' in Hch.
  assert (N.of_nat (length bs' mod 256) = lenN bs' mod 256) as Emod by (unfold lenN; change 256 with (N.of_nat 256); now rewrite Nat2N.inj_mod).
  assert (N.of_nat (length bs' / 256) = lenN bs' / 256) as Ediv by (unfold lenN; change 256 with (N.of_nat 256); now rewrite Nat2N.inj_div).
  rewrite Emod in Hch.
  set (q := lenN bs' / 256) in *.
  assert (length (chunks B) = (length bs' + 1 + 255) / 256)%nat as HcntB by (unfold B; rewrite bit_chunks_count, app_length; reflexivity).
  assert (q < lenN (map RootN (chunks B))) as Hq.
  { unfold lenN. rewrite map_length, HcntB, <- Ediv.
    assert (length bs' / 256 < (length bs' + 1 + 255) / 256)%nat; [|lia]. apply Nat.div_le_lower_bound; [lia|].
    pose proof (Nat.div_mod (length bs') 256 ltac:(lia)). pose proof (Nat.mod_upper_bound (length bs') 256 ltac:(lia)). lia. }
  pose proof (CRep_len H _ _ _ Hr) as Hcl. pose proof (pow_nat_N cd) as Hp.
  assert (q < 2 ^ N.of_nat cd) as Hq1 by (unfold lenN in *; lia).
  assert (q < 2 ^ N.of_nat (S cd)) as Hq2 by (rewrite Nat2N.inj_succ, N.pow_succ_r'; lia).
  rewrite (to_gindex_ok q (S cd) Hq2). cbn [bind].
  destruct (lenN bs' mod 256 =? 0) eqn:Er.
  - (* the chunk held only this bit *)
    apply N.eqb_eq in Er. assert ((length bs' mod 256 =? 0)%nat = true) as Er' by (apply Nat.eqb_eq; unfold lenN in *; lia).
    rewrite Er' in Hch.
    assert (length (chunks B') = N.to_nat q) as HcntB'.
    { unfold B'. rewrite bit_chunks_count. apply Nat.eqb_eq in Er'. pose proof (Nat.div_mod (length bs') 256 ltac:(lia)) as Hdm.
      rewrite Er' in Hdm. rewrite <- Ediv, Nat2N.id. symmetry. apply (Nat.div_unique (length bs' + 255) 256 _ 255); lia. }
    (* the first q chunks of B are the chunks of B' *)
    assert (exists lastc, chunks B = chunks B' ++ [lastc]) as (lastc & EchB).
    { replace (length bs' / 256)%nat with (N.to_nat q) in Hch by (rewrite <- Ediv; lia).
      pose proof (f_equal (firstn (N.to_nat q)) Hch) as Hf.
      rewrite <- HcntB' in Hf. rewrite firstn_app, firstn_all, Nat.sub_diag in Hf. cbn [firstn] in Hf. rewrite app_nil_r in Hf.
      rewrite firstn_upd_same in Hf.
      assert (length (chunks B) = S (length bs' / 256))%nat as HlB.
      { rewrite HcntB. apply Nat.eqb_eq in Er'. pose proof (Nat.div_mod (length bs') 256 ltac:(lia)) as Hdm. rewrite Er' in Hdm.
        symmetry. apply (Nat.div_unique (length bs' + 1 + 255) 256 _ 0); lia. }
      destruct (nil_or_last (chunks B)) as [E|(pre & lastc & E)]; [rewrite E in HlB; cbn in HlB; lia|].
      exists lastc. rewrite E in Hf, HlB |- *. rewrite app_length in HlB. cbn [length] in HlB.
      assert (length (chunks B') = length pre) as Hlp by (rewrite HcntB', <- Ediv, Nat2N.id; lia).
      rewrite firstn_app, Hlp, firstn_all, Nat.sub_diag in Hf. cbn [firstn] in Hf. rewrite app_nil_r in Hf. now rewrite Hf. }
    destruct (list_setter_g cd c (len_node (lenN bs' + 1)) (map RootN (chunks B)) q (zero_node H 0) Hr Hq) as (c1 & Hs1 & Hc1).
    rewrite Hs1. cbn [bind].
    assert (upd (N.to_nat q) (zero_node H 0) (map RootN (chunks B)) = map RootN (chunks B') ++ [zero_node H 0]) as Eupd2.
    { rewrite EchB, map_app. cbn [map]. rewrite <- HcntB', <- (map_length RootN (chunks B')). apply upd_snoc. }
    rewrite Eupd2 in Hc1. pose proof (CRep_drop_zero _ _ _ Hc1 _ eq_refl) as Hc1'.
    assert (lenN (map RootN (chunks B')) = q) as Hlen' by (unfold lenN; rewrite map_length; lia).
    assert (exists c2, (if N.even (2 ^ N.of_nat (S cd) + q) && true then summarize_up H src (PairN c1 (len_node (lenN bs' + 1))) (2 ^ N.of_nat (S cd) + q)
                        else Ok (PairN c1 (len_node (lenN bs' + 1)))) = Ok (PairN c2 (len_node (lenN bs' + 1))) /\ CRep cd c2 (map RootN (chunks B'))) as (c2 & Hsum & Hc2).
    { rewrite andb_true_r. destruct (N.even (2 ^ N.of_nat (S cd) + q)); [|eauto].
      unfold summarize_up. destruct (climb_exists (N.size_nat (2 ^ N.of_nat (S cd) + q)) cd q Hq1) as (k & Hk & Hmod & Hcl'). rewrite Hcl'.
      apply (summarize_list_backing cd c1 _ (map RootN (chunks B')) k q Hc1' Hlen' Hq1 Hk Hmod).
      exists (zero_node H 0).
      assert (q < lenN (map RootN (chunks B') ++ [zero_node H 0])) as Hql by (rewrite lenN_app, Hlen'; unfold lenN; cbn [length]; clear; lia).
      rewrite (CRep_get H src _ _ _ Hc1 q (RootN zero32) Hql).
      assert (length (map RootN (chunks B')) = N.to_nat q) as Hlq' by (clear - Hlen'; unfold lenN in Hlen'; lia).
      rewrite app_nth2 by (rewrite Hlq'; apply le_n). rewrite Hlq', Nat.sub_diag. reflexivity. }
    rewrite Hsum. cbn [bind]. unfold rebind_right. cbn [children]. eexists; split; [reflexivity|].
    cbn [ReprProofs.Repr chunk_data val_len]. exists c2. split; [reflexivity|exact Hc2].
  - (* other bits stay in the chunk *)
    apply N.eqb_neq in Er. rewrite andb_false_r. assert ((length bs' mod 256 =? 0)%nat = false) as Er' by (apply Nat.eqb_neq; unfold lenN in *; lia).
    rewrite Er', app_nil_r in Hch.
    destruct (list_setter_g cd c (len_node (lenN bs' + 1)) (map RootN (chunks B)) q (RootN zero32) Hr Hq) as (pr & Hpr & _). rewrite Hpr. cbn [bind].
    rewrite (list_getter_g cd c _ (map RootN (chunks B)) q (RootN zero32) Hr Hq). cbn [bind].
    rewrite (nth_map_RootN (chunks B)) by (unfold lenN in Hq; rewrite map_length in Hq; lia). cbn [Tree.root].
    destruct (list_setter_g cd c (len_node (lenN bs' + 1)) (map RootN (chunks B)) q
                (RootN (chunk_with_bit (nth (N.to_nat q) (chunks B) zero32) (lenN bs' mod 256) false)) Hr Hq) as (c1 & Hs1 & Hc1).
    rewrite Hs1. cbn [bind]. unfold rebind_right. cbn [children]. eexists; split; [reflexivity|].
    cbn [ReprProofs.Repr chunk_data val_len]. exists c1. split; [reflexivity|]. fold B'. rewrite Hch, map_upd.
    replace (length bs' / 256)%nat with (N.to_nat q) by (rewrite <- Ediv; lia). exact Hc1.
Qed.

(* ---- what Repr buys: indistinguishable from a freshly constructed value ---- *)
Theorem repr_fresh t v n : wf_ty t = true -> wf t v = true -> Repr t v n ->
  exists n0, mk t v = Ok n0 /\ root n = root n0 /\ root n = htr H t v /\
             ser_impl t n = Ok (ser t v, lenN (ser t v)) /\ ser_impl t n0 = Ok (ser t v, lenN (ser t v)).
Proof.
  intros Hty Hwf Hr. destruct (mk_root H t v Hty Hwf) as (n0 & Hn0 & Hr0). exists n0.
  pose proof (Repr_root H t v n Hty Hwf Hr) as Hroot.
  split; [exact Hn0|]. split; [congruence|]. split; [exact Hroot|]. split.
  - exact (Repr_ser H src t v n Hty Hwf Hr).
  - exact (ser_constructed H src t v n0 Hty Hwf Hn0).
Qed.

End WithHash.
