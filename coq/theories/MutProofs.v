(* MutProofs.v — mutations preserve the representation relation Repr (C04 / C05): container field
   assignment, vector element assignment, list element assignment and append (composite elements),
   as single steps and as arbitrary valid histories over VALUES; and what Repr buys: a represented
   value is indistinguishable (root, encoding, returned count) from a freshly constructed one. *)
Require Import RM.Base RM.Gindex RM.Tree RM.TreeProofs RM.Types RM.Spec RM.ModelViews RM.ModelCodec RM.ModelMut
               RM.SerLen RM.FactsProofs RM.MerkleProofs RM.PackProofs RM.CtorProofs RM.PathProofs RM.CRepProofs
               RM.ListProofs RM.SerProofs RM.CodecBasicProofs RM.SerProofs2 RM.BitProofs RM.ChunkProofs RM.SerAll RM.ReprProofs.
From Coq Require Import ZifyBool ZifyNat ZifyN.
Local Open Scope N_scope.
Section WithHash.
Variable H : bytes -> bytes -> bytes.
Variable src : bytes -> option (bytes * bytes).
Notation root := (root H).
Notation CRep := (CRep H).
Notation ser_impl := (ser_impl H src).
Notation mk := (mk H).
Notation ser_ok := (ser_ok H src).
Notation Repr := (Repr H).
(* ---- writing position i of a contents tree through the public setter ---- *)
Lemma crep_top_setter e d n ns i v : CRep d n ns -> i < lenN ns ->
  setter H src e n (be_bits d i) v = setter_below H src e n (be_bits d i) v.
Proof.
  intros Hc Hi. rewrite setter_unfold. destruct (be_bits d i) as [|b p] eqn:Eb; [reflexivity|].
  destruct Hc as [d'|x|d' l r ls rs Hl Hr Hor]; try reflexivity.
  cbn [be_bits] in Eb. discriminate.
Qed.

Lemma crep_setter_i d n ns i x : CRep d n ns -> i < lenN ns ->
  exists n', setter_i H src false n i d x = Ok n' /\ CRep d n' (upd (N.to_nat i) x ns).
Proof.
  intros Hc Hi. pose proof (CRep_len H _ _ _ Hc) as Hl. pose proof (pow_nat_N d) as Hp.
  assert (i < 2 ^ N.of_nat d) as Hi2 by (unfold lenN in Hi; lia).
  unfold setter_i. rewrite (to_gindex_ok i d Hi2). cbn [bind]. unfold setter_g. rewrite (path_of_to_gindex d i Hi2).
  rewrite (crep_top_setter false d n ns i x Hc Hi).
  exact (CRep_set H src false _ _ _ Hc i x Hi).
Qed.
(* ---- container field assignment ---- *)
Definition go_repr :=
  fix go (fs : list ty) (vs : list val) (ns : list node) : Prop :=
    match fs, vs, ns with
    | [], [], [] => True
    | f :: fs', x :: vs', m :: ns' => Repr f x m /\ go fs' vs' ns'
    | _, _, _ => False
    end.
Lemma go_repr_len : forall fs vs ns, go_repr fs vs ns -> length vs = length fs /\ length ns = length fs.
Proof.
  induction fs as [|f fs IH]; intros [|x vs] [|m ns] Hg; try contradiction; [split; reflexivity|].
  destruct Hg as [_ Hg]. destruct (IH vs ns Hg). cbn. split; lia.
Qed.
Lemma go_repr_upd : forall fs vs ns i x m, go_repr fs vs ns -> (i < length fs)%nat -> Repr (nth i fs TBool) x m ->
  go_repr fs (upd i x vs) (upd i m ns).
Proof.
  induction fs as [|f fs IH]; intros [|y vs] [|k ns] i x m Hg Hi Hx; try contradiction; [cbn in Hi; lia|].
  destruct Hg as [Hy Hg]. destruct i as [|i]; cbn [upd nth] in *; [split; assumption|]. split; [exact Hy|]. apply IH; auto. cbn [length] in Hi. lia.
Qed.

Theorem container_set fs vs n i x m : Repr (TContainer fs) (VCont vs) n ->
  (0 <= i < Z.of_nat (length fs))%Z -> Repr (nth (Z.to_nat i) fs TBool) x m ->
  exists n', view_set H src (TContainer fs) n i m = Ok n' /\ Repr (TContainer fs) (VCont (upd (Z.to_nat i) x vs)) n'.
Proof.
  intros Hr Hi Hx. cbn [ReprProofs.Repr] in Hr. destruct Hr as (ns & Hc & Hg). fold go_repr in Hg.
  destruct (go_repr_len fs vs ns Hg) as [Hlv Hln].
  unfold view_set, check_index.
  assert (((i <? 0)%Z || (Z.of_N (lenN fs) <=? i)%Z) = false) as -> by (unfold lenN; lia). cbn [bind].
  unfold sub_set. cbn [elem_ty]. replace (N.to_nat (Z.to_N i)) with (Z.to_nat i) by lia.
  destruct (nth_error fs (Z.to_nat i)) as [f|] eqn:Hnth; [|apply nth_error_None in Hnth; lia]. cbn [bind].
  assert (tree_depth (TContainer fs) = contents_depth (TContainer fs)) as -> by reflexivity.
  destruct (crep_setter_i _ n ns (Z.to_N i) m Hc ltac:(unfold lenN; lia)) as (n' & Hs & Hc'). rewrite Hs.
  exists n'. split; [reflexivity|]. cbn [ReprProofs.Repr]. exists (upd (N.to_nat (Z.to_N i)) m ns). split; [exact Hc'|].
  fold go_repr. replace (N.to_nat (Z.to_N i)) with (Z.to_nat i) by lia. apply go_repr_upd; auto. lia.
Qed.

(* ---- vector element assignment (composite elements) ---- *)
Lemma Forall2_upd {A B} (P : A -> B -> Prop) l r i x y : Forall2 P l r -> P x y -> Forall2 P (upd i x l) (upd i y r).
Proof.
  intros HF Hxy. revert i. induction HF as [|a b l r Hab HF IH]; intros i; [destruct i; cbn; constructor|].
  destruct i; cbn [upd]; [constructor; [exact Hxy|exact HF]|constructor; [exact Hab|apply IH]].
Qed.

Lemma Forall2_len {A B} (P : A -> B -> Prop) l r : Forall2 P l r -> length l = length r.
Proof. induction 1; cbn; auto. Qed.

Theorem vector_set e k vs n i x m : basic_size e = None -> Repr (TVector e k) (VSeq vs) n -> lenN vs = k ->
  (0 <= i < Z.of_N k)%Z -> Repr e x m ->
  exists n', view_set H src (TVector e k) n i m = Ok n' /\ Repr (TVector e k) (VSeq (upd (Z.to_nat i) x vs)) n'.
Proof.
  intros Eb Hr Hk Hi Hx. cbn [ReprProofs.Repr] in Hr. rewrite Eb in Hr. destruct Hr as (ns & Hc & HF).
  assert (length ns = length vs) as Hl by (symmetry; eapply Forall2_len; eauto).
  unfold view_set, check_index. cbn [view_len bind].
  assert (((i <? 0)%Z || (Z.of_N k <=? i)%Z) = false) as -> by lia. cbn [bind].
  unfold sub_set. cbn [elem_ty bind]. rewrite Eb.
  assert (tree_depth (TVector e k) = contents_depth (TVector e k)) as -> by reflexivity.
  destruct (crep_setter_i _ n ns (Z.to_N i) m Hc ltac:(unfold lenN in *; lia)) as (n' & Hs & Hc'). rewrite Hs.
  exists n'. split; [reflexivity|]. cbn [ReprProofs.Repr]. rewrite Eb. exists (upd (N.to_nat (Z.to_N i)) m ns). split; [exact Hc'|].
  replace (N.to_nat (Z.to_N i)) with (Z.to_nat i) by lia. now apply Forall2_upd.
Qed.
(* ---- lists of composite elements: the node-list theorems of ListProofs lifted to values ---- *)
Section OneList.
Variable e : ty.
Variable limit : N.
Hypothesis He : basic_size e = None.
Hypothesis Hlim : limit < 2 ^ 64.
Notation t := (TList e limit).

Lemma repr_list_split vs n : Repr t (VSeq vs) n -> lenN vs <= limit ->
  exists ns, Rep_list H e limit n ns /\ Forall2 (Repr e) vs ns.
Proof.
  intros Hr Hl. cbn [ReprProofs.Repr] in Hr. destruct Hr as (c & -> & Hr). rewrite He in Hr. destruct Hr as (ns & Hc & HF).
  pose proof (Forall2_len _ _ _ HF) as Hlen. exists ns. split; [|exact HF].
  exists c. unfold lenN in *. rewrite <- Hlen. auto.
Qed.
Lemma repr_list_join vs n ns : Rep_list H e limit n ns -> Forall2 (Repr e) vs ns -> Repr t (VSeq vs) n /\ lenN vs <= limit.
Proof.
  intros (c & -> & Hc & Hl) HF. pose proof (Forall2_len _ _ _ HF) as Hlen. split; [|unfold lenN in *; lia].
  cbn [ReprProofs.Repr]. exists c. split; [unfold lenN; now rewrite Hlen|]. rewrite He. exists ns. auto.
Qed.

Theorem list_set_v vs n i x m : Repr t (VSeq vs) n -> lenN vs <= limit -> (0 <= i < Z.of_N (lenN vs))%Z -> Repr e x m ->
  exists n', view_set H src t n i m = Ok n' /\ Repr t (VSeq (upd (Z.to_nat i) x vs)) n'.
Proof.
  intros Hr Hl Hi Hx. destruct (repr_list_split vs n Hr Hl) as (ns & Hrl & HF).
  pose proof (Forall2_len _ _ _ HF) as Hlen.
  destruct (list_set H src e limit He Hlim n ns i m Hrl ltac:(unfold lenN in *; lia)) as (n' & Hs & Hr').
  exists n'. split; [exact Hs|]. apply (repr_list_join _ _ _ Hr'). now apply Forall2_upd.
Qed.

Lemma Forall2_snoc {A B} (P : A -> B -> Prop) l r x y : Forall2 P l r -> P x y -> Forall2 P (l ++ [x]) (r ++ [y]).
Proof. induction 1; cbn; intros; constructor; auto. Qed.

Theorem list_append_v vs n x m : Repr t (VSeq vs) n -> lenN vs < limit -> Repr e x m ->
  exists n', list_append H src t n m = Ok n' /\ Repr t (VSeq (vs ++ [x])) n'.
Proof.
  intros Hr Hl Hx. destruct (repr_list_split vs n Hr ltac:(lia)) as (ns & Hrl & HF).
  pose proof (Forall2_len _ _ _ HF) as Hlen.
  destruct (list_append_rep H src e limit He Hlim n ns m Hrl ltac:(unfold lenN in *; lia)) as (n' & Hs & Hr').
  exists n'. split; [exact Hs|]. apply (repr_list_join _ _ _ Hr'). now apply Forall2_snoc.
Qed.

(* histories over values *)
Inductive vop := VSet (i : Z) (x : val) (m : node) | VAppend (x : val) (m : node).
Definition vapply_impl (n : node) (o : vop) : result node :=
  match o with VSet i _ m => view_set H src t n i m | VAppend _ m => list_append H src t n m end.
Definition vapply_spec (vs : list val) (o : vop) : list val :=
  match o with VSet i x _ => upd (Z.to_nat i) x vs | VAppend x _ => vs ++ [x] end.
Definition vvalid_op (vs : list val) (o : vop) : Prop :=
  match o with
  | VSet i x m => (0 <= i < Z.of_N (lenN vs))%Z /\ Repr e x m /\ wf e x = true
  | VAppend x m => lenN vs < limit /\ Repr e x m /\ wf e x = true
  end.
Fixpoint vvalid_ops (vs : list val) (os : list vop) : Prop :=
  match os with [] => True | o :: r => vvalid_op vs o /\ vvalid_ops (vapply_spec vs o) r end.

Lemma forallb_upd {A} (p : A -> bool) l i x : forallb p l = true -> p x = true -> forallb p (upd i x l) = true.
Proof.
  revert i; induction l as [|a l IH]; intros i Hl Hx; [destruct i; reflexivity|].
  cbn [forallb] in Hl. apply andb_true_iff in Hl as [Ha Hl]. destruct i as [|i]; cbn [upd forallb].
  - now rewrite Hx, Hl.
  - now rewrite Ha, IH.
Qed.

Theorem list_value_history : forall os vs n, Repr t (VSeq vs) n -> wf t (VSeq vs) = true -> vvalid_ops vs os ->
  exists n', fold_left (fun acc o => do m <- acc; vapply_impl m o) os (Ok n) = Ok n' /\
             Repr t (VSeq (fold_left vapply_spec os vs)) n' /\ wf t (VSeq (fold_left vapply_spec os vs)) = true.
Proof.
  induction os as [|o os IH]; intros vs n Hr Hwf Hv; cbn [fold_left]; [eauto|].
  destruct Hv as [Hv1 Hv2]. cbn [wf] in Hwf. apply andb_true_iff in Hwf as [Hl Hall]. apply N.leb_le in Hl.
  destruct o as [i x m|x m]; cbn [vvalid_op vapply_impl vapply_spec bind] in *.
  - destruct Hv1 as (Hi & Hx & Hwx). destruct (list_set_v vs n i x m Hr Hl Hi Hx) as (n1 & Hs & Hr1). rewrite Hs.
    apply IH; [exact Hr1| |exact Hv2]. cbn [wf]. unfold lenN. rewrite upd_len. apply andb_true_iff. split; [apply N.leb_le; exact Hl|now apply forallb_upd].
  - destruct Hv1 as (Hlt & Hx & Hwx). destruct (list_append_v vs n x m Hr Hlt Hx) as (n1 & Hs & Hr1). rewrite Hs.
    apply IH; [exact Hr1| |exact Hv2]. cbn [wf]. rewrite forallb_app. cbn [forallb]. rewrite Hall, Hwx. cbn [andb].
    rewrite andb_true_r. apply N.leb_le. rewrite lenN_app. unfold lenN at 2. cbn [length]. lia.
Qed.
End OneList.

(* ---- what Repr buys: indistinguishable from a freshly constructed value ---- *)
Theorem repr_fresh t v n : wf_ty t = true -> wf t v = true -> Repr t v n ->
  exists n0, mk t v = Ok n0 /\ root n = root n0 /\ root n = htr H t v /\
             ser_impl t n = Ok (ser t v, lenN (ser t v)) /\ ser_impl t n0 = Ok (ser t v, lenN (ser t v)).
Proof.
  intros Hty Hwf Hr. destruct (mk_root H t v Hty Hwf) as (n0 & Hn0 & Hr0). exists n0.
  pose proof (Repr_root H t v n Hty Hwf Hr) as Hroot.
  split; [exact Hn0|]. split; [congruence|]. split; [exact Hroot|]. split.
  - exact (Repr_ser H src t v n Hty Hwf Hr).
  - exact (ser_constructed H src t v n0 Hty Hwf Hn0).
Qed.

End WithHash.
