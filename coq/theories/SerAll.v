(* SerAll.v — C02 for constructed values of EVERY type: the backing tree the constructor builds
   serialises to exactly the specification bytes, and the returned count is their length. *)
Require Import RM.Base RM.Gindex RM.Tree RM.TreeProofs RM.Types RM.Spec RM.ModelViews RM.ModelCodec
               RM.SerLen RM.FactsProofs RM.MerkleProofs RM.PackProofs RM.CtorProofs RM.PathProofs RM.CRepProofs
               RM.ListProofs RM.SerProofs RM.CodecBasicProofs RM.SerProofs2 RM.BitProofs RM.ChunkProofs.
From Coq Require Import ZifyBool ZifyNat ZifyN.
Local Open Scope N_scope.

Section WithHash.
Variable H : bytes -> bytes -> bytes.
Variable src : bytes -> option (bytes * bytes).
Notation root := (root H).
Notation CRep := (CRep H).
Notation ser_impl := (ser_impl H src).
Notation mk := (mk H).
Notation ser_ok := (ser_ok H src).
Notation elems_ser := (elems_ser H src).
Notation getter_i_crep := (getter_i_crep H src).
Notation getter_i_crep_list := (getter_i_crep_list H src).
Notation cont_go := (cont_go H src).

Theorem ser_constructed : forall t v n, wf_ty t = true -> wf t v = true ->
  mk t v = Ok n -> ser_ok t v n.
Proof.
  induction t as [k| |nn|l|nn|l|e nn IHe|e l IHe|fs Hfs|b os Hos] using ty_ind'; intros v n0 Hty Hwf Hmk;
    destruct v; try (cbn [wf] in Hwf; discriminate).
  - (* uint *) cbn [wf] in Hwf. unfold ser_ok. apply ser_uint; [exact Hty|now apply N.ltb_lt|exact Hmk].
  - (* bool *) unfold ser_ok. rewrite (ser_bool H src b n0 Hmk). reflexivity.
  - (* bitvector *) exact (ser_bitvector H src nn bs n0 Hty Hwf Hmk).
  - (* bitlist *) exact (ser_bitlist H src l bs n0 Hty Hwf Hmk).
  - (* bytevector *) exact (ser_bytevector H src nn bs n0 Hty Hwf Hmk).
  - (* bytelist *) exact (ser_bytelist H src l bs n0 Hty Hwf Hmk).
  - (* vector *)
    destruct (basic_size e) as [s|] eqn:Eb; [exact (ser_packed_vector H src e nn vs n0 s Hty Eb Hwf Hmk)|].
    cbn [wf] in Hwf. apply andb_true_iff in Hwf as [Hn Hall]. apply N.eqb_eq in Hn.
    pose proof Hty as Hty0. cbn [wf_ty] in Hty. apply andb_true_iff in Hty as [Hty Hnb2]. apply andb_true_iff in Hty as [Hte Hn1]. apply N.leb_le in Hn1.
    cbn [ModelViews.mk] in Hmk. destruct vs as [|x0 vs0] eqn:Evs; [unfold lenN in Hn; cbn in Hn; lia|]. rewrite <- Evs in *.
    assert ((lenN vs =? nn) = true) as Hn' by now apply N.eqb_eq. rewrite Hn' in Hmk. cbn [negb] in Hmk. rewrite Eb in Hmk.
    destruct (seq_res (map (mk e) vs)) as [ns|] eqn:Hns; [|discriminate]. cbn [bind] in Hmk.
    destruct (seq_res_map_ok (mk e) vs ns Hns) as [Hl _].
    destruct (fill_to_contents_CRep H (contents_depth (TVector e nn)) ns) as (n' & Hf & Hc).
    { rewrite Hl. cbn [contents_depth]. unfold to_chunk_length. rewrite Eb. pose proof (get_depth_fits nn). unfold lenN in Hn. lia. }
    rewrite Hf in Hmk. inversion Hmk; subst n'. clear Hmk.
    unfold ser_ok. cbn [ModelCodec.ser_impl view_len bind]. rewrite Eb.
    assert (tree_depth (TVector e nn) = contents_depth (TVector e nn)) as -> by reflexivity.
    replace (N.to_nat nn) with (length vs) by (unfold lenN in Hn; lia).
    rewrite (elems_ser e vs ns (fun i => getter_i src n0 i (contents_depth (TVector e nn)))
               (fun x n Hx Hm => IHe x n Hte Hx Hm) Hall Hns).
    2:{ intros j Hj. rewrite <- (Nat2N.id j) at 2. apply (getter_i_crep _ _ ns _ _ Hc). unfold lenN. lia. }
    cbn [bind]. rewrite is_fixed_impl_eq, min_impl_eq. cbn [Spec.ser]. rewrite <- Hn.
    exact (seq_assemble e vs Hte Hall).
  - (* list *)
    destruct (basic_size e) as [s|] eqn:Eb; [exact (ser_packed_list H src e l vs n0 s Hty Eb Hwf Hmk)|].
    cbn [wf] in Hwf. apply andb_true_iff in Hwf as [Hn Hall]. apply N.leb_le in Hn.
    pose proof Hty as Hty0. cbn [wf_ty] in Hty. apply andb_true_iff in Hty as [Hte Hlb]. apply N.ltb_lt in Hlb.
    cbn [ModelViews.mk] in Hmk. destruct vs as [|x0 vs0] eqn:Evs.
    + cbn [default_node] in Hmk. inversion Hmk; subst n0. clear Hmk.
      change (zero_node H 0) with (len_node 0).
      unfold ser_ok. cbn [ModelCodec.ser_impl view_len]. rewrite (mixin_len_node H src _ 0) by (cbn; lia). cbn [bind]. rewrite Eb.
      cbn. rewrite is_fixed_impl_eq. destruct (is_fixed e); [rewrite N.mul_0_r|]; reflexivity.
    + rewrite <- Evs in *. assert ((l <? lenN vs) = false) as Hlt by (apply N.ltb_ge; exact Hn). rewrite Hlt, Eb in Hmk.
      destruct (seq_res (map (mk e) vs)) as [ns|] eqn:Hns; [|discriminate]. cbn [bind] in Hmk.
      destruct (seq_res_map_ok (mk e) vs ns Hns) as [Hl _].
      destruct (fill_to_contents_CRep H (contents_depth (TList e l)) ns) as (c & Hf & Hc).
      { rewrite Hl. cbn [contents_depth]. unfold to_chunk_length. rewrite Eb. pose proof (get_depth_fits l). unfold lenN in Hn. lia. }
      rewrite Hf in Hmk. cbn [bind] in Hmk. inversion Hmk; subst n0. clear Hmk.
      assert (lenN vs < 2 ^ 64) as H64 by (unfold LIMIT_BOUND in Hlb; lia).
      unfold ser_ok. cbn [ModelCodec.ser_impl view_len]. rewrite (mixin_len_node H src c (lenN vs) H64). cbn [bind]. rewrite Eb.
      assert (tree_depth (TList e l) = S (contents_depth (TList e l))) as -> by reflexivity.
      replace (N.to_nat (lenN vs)) with (length vs) by (unfold lenN; lia).
      rewrite (elems_ser e vs ns (fun i => getter_i src (PairN c (len_node (lenN vs))) i (S (contents_depth (TList e l))))
                 (fun x n Hx Hm => IHe x n Hte Hx Hm) Hall Hns).
      2:{ intros j Hj. rewrite <- (Nat2N.id j) at 2. apply (getter_i_crep_list _ _ _ ns _ _ Hc). unfold lenN. lia. }
      cbn [bind]. rewrite is_fixed_impl_eq, min_impl_eq. cbn [Spec.ser].
      exact (seq_assemble e vs Hte Hall).
  - (* container *)
    cbn [wf] in Hwf.
    pose proof Hty as Hty0. cbn [wf_ty] in Hty. apply andb_true_iff in Hty as [Hne Htys].
    cbn [ModelViews.mk] in Hmk.
    (* the field nodes *)
    assert (exists ns, (fix go (fs : list ty) (vs : list val) : result (list node) :=
                 match fs, vs with
                 | [], [] => Ok []
                 | f :: fs', x :: vs' => do a <- mk f x; do r <- go fs' vs'; Ok (a :: r)
                 | _, _ => Err EAttr
                 end) fs vs = Ok ns /\ length ns = length fs /\ length vs = length fs /\
              forall j, (j < length fs)%nat ->
                ser_ok (nth j fs TBool) (nth j vs (VUint 0)) (nth j ns (RootN zero32))) as (ns & Hgo & Hlns & Hlvs & Hfield).
    { clear Hmk Hty0 Hne. revert vs Hwf. induction Hfs as [|f fs Hf Hfs' IH]; intros vs Hwf.
      - destruct vs; [|discriminate]. exists []. repeat split. intros j Hj. cbn in Hj. lia.
      - destruct vs as [|x vs]; [discriminate|]. apply andb_true_iff in Hwf as [Hx Hrest].
        cbn [forallb] in Htys. apply andb_true_iff in Htys as [Htf Htys].
        destruct (mk_root H f x Htf Hx) as (a & Ha & _).
        destruct (IH Htys vs Hrest) as (ns & Hgo & Hl1 & Hl2 & Hfield).
        exists (a :: ns). rewrite Ha. cbn [bind]. rewrite Hgo. cbn [bind length]. repeat split; try lia.
        intros [|j] Hj; cbn [nth]; [now apply Hf|]. apply Hfield. cbn in Hj. lia. }
    rewrite Hgo in Hmk. cbn [bind] in Hmk.
    destruct (fill_to_contents_CRep H (contents_depth (TContainer fs)) ns) as (n' & Hf & Hc).
    { rewrite Hlns. cbn [contents_depth]. pose proof (get_depth_fits (lenN fs)). unfold lenN in *. lia. }
    rewrite Hf in Hmk. inversion Hmk; subst n'. clear Hmk.
    unfold ser_ok. cbn [ModelCodec.ser_impl].
    assert (tree_depth (TContainer fs) = contents_depth (TContainer fs)) as -> by reflexivity.
    set (xs := map (fun j => (ser (nth j fs TBool) (nth j vs (VUint 0)), lenN (ser (nth j fs TBool) (nth j vs (VUint 0))))) (seq 0 (length fs))).
    rewrite (cont_go n0 (contents_depth (TContainer fs)) fs ns xs 0).
    + (* assemble *)
      cbn [bind].
      assert (forall (fs0 : list ty) a, fold_left (fun acc f => acc + (if is_fixed_impl f then min_impl f else OFFSET)) fs0 a
                = a + sumN (map (fun f => if is_fixed f then fsize f else OFFSET) fs0)) as Hw.
      { induction fs0 as [|f fs0 IH0]; intros a; cbn [fold_left map]; [unfold sumN; cbn; lia|].
        rewrite IH0. unfold sumN. cbn [fold_right]. rewrite is_fixed_impl_eq, min_impl_eq.
        destruct (is_fixed f) eqn:Ef; [destruct (fixed_min_eq_fsize f Ef) as [-> _]|]; lia. }
      rewrite Hw, N.add_0_l.
      set (fields := combine (map is_fixed_impl fs) xs).
      assert (parts_of fields =
              (fix go (fs : list ty) (vs : list val) : list (bool * bytes) :=
                 match fs, vs with
                 | f :: fs', x :: vs' => (is_fixed f, ser f x) :: go fs' vs'
                 | _, _ => []
                 end) fs vs) as Hparts.
      { unfold fields, xs. clear - Hlvs. 
        assert (forall (fs : list ty) (vs : list val) (pre : nat) (F : list ty) (V : list val),
                  length vs = length fs -> (forall j, (j < length fs)%nat -> nth (pre + j) F TBool = nth j fs TBool /\ nth (pre + j) V (VUint 0) = nth j vs (VUint 0)) ->
                  parts_of (combine (map is_fixed_impl fs)
                     (map (fun j => (ser (nth j F TBool) (nth j V (VUint 0)), lenN (ser (nth j F TBool) (nth j V (VUint 0))))) (seq pre (length fs))))
                  = (fix go (fs : list ty) (vs : list val) : list (bool * bytes) :=
                       match fs, vs with
                       | f :: fs', x :: vs' => (is_fixed f, ser f x) :: go fs' vs'
                       | _, _ => []
                       end) fs vs) as Hgen.
        { induction fs0 as [|f fs0 IH]; intros vs0 pre F V Hl Hnth; [reflexivity|].
          destruct vs0 as [|x vs0]; [discriminate|]. cbn [length seq map combine fst snd].
          destruct (Hnth 0%nat ltac:(cbn; lia)) as [E1 E2]. rewrite Nat.add_0_r in E1, E2. cbn [nth] in E1, E2.
          rewrite E1, E2, is_fixed_impl_eq. f_equal.
          apply (IH vs0 (S pre) F V); [cbn in Hl; lia|]. intros j Hj.
          destruct (Hnth (S j) ltac:(cbn; lia)) as [E3 E4]. replace (S pre + j)%nat with (pre + S j)%nat by lia. now split. }
        apply (Hgen fs vs 0%nat fs vs Hlvs). intros j Hj. now split. }
      pose proof (cont_ser fields) as Hcs.
      assert (sumN (map fixed_part_len (parts_of fields)) = sumN (map (fun f => if is_fixed f then fsize f else OFFSET) fs)) as Hfx.
      { rewrite Hparts. clear - Hwf Htys. revert vs Hwf Htys. induction fs as [|f fs IH]; intros vs Hwf Htys; [reflexivity|].
        destruct vs as [|x vs]; [discriminate|]. apply andb_true_iff in Hwf as [Hx Hrest].
        cbn [forallb] in Htys. apply andb_true_iff in Htys as [Htf Htys].
        cbn [map]. unfold sumN in *. cbn [fold_right]. rewrite (IH vs Hrest Htys).
        unfold fixed_part_len at 1. cbn [fst snd]. destruct (is_fixed f) eqn:Ef; [|reflexivity].
        now rewrite (ser_len_fixed f x Htf Hx Ef). }
      rewrite Hfx in Hcs. destruct Hcs as [Hb Ho].
      { intros [pf px] Hp. unfold fields in Hp. apply in_combine_r in Hp. unfold xs in Hp. apply in_map_iff in Hp as (j & <- & _). reflexivity. }
      destruct (cont_loop fields ([], [], sumN (map (fun f => if is_fixed f then fsize f else OFFSET) fs))) as [[fx vr] written].
      cbn [fst snd] in Hb, Ho. cbn [Spec.ser]. rewrite <- Hparts. now rewrite Hb, Ho.
    + exact Hlns.
    + unfold xs. now rewrite map_length, seq_length.
    + intros j Hj. rewrite N.add_0_l. rewrite <- (Nat2N.id j) at 2. apply (getter_i_crep _ _ ns _ _ Hc). unfold lenN. lia.
    + intros j Hj. unfold xs.
      set (F := fun j0 : nat => (ser (nth j0 fs TBool) (nth j0 vs (VUint 0)), lenN (ser (nth j0 fs TBool) (nth j0 vs (VUint 0))))).
      rewrite (nth_indep _ ([], 0) (F 0%nat)) by (rewrite map_length, seq_length; exact Hj).
      rewrite (map_nth F), seq_nth by exact Hj. cbn [Nat.add]. unfold F. apply Hfield. exact Hj.
  - (* union *)
    cbn [wf] in Hwf.
    cbn [wf_ty] in Hty. apply andb_true_iff in Hty as [Hty Hcount]. apply andb_true_iff in Hty as [Htys Hne].
    apply N.leb_le in Hcount.
    cbn [ModelViews.mk] in Hmk.
    destruct v as [x|].
    + apply andb_true_iff in Hwf as [Hsel Hpick].
      (* the selected option *)
      assert (exists o, nth_error os (if b then pred sel else sel) = Some o /\ wf o x = true /\ wf_ty o = true /\
                (forall n, mk o x = Ok n -> ser_ok o x n) /\
                (forall (A : Type) (F : ty -> A) (dflt : A),
                   (fix pick (os : list ty) (i : nat) : A :=
                      match os, i with o :: _, O => F o | _ :: os', S i' => pick os' i' | [], _ => dflt end) os (if b then pred sel else sel) = F o))
        as (o & Hnth & Hwo & Hto & Hio & Hpk).
      { clear Hmk Hne Hcount Hsel. generalize dependent (if b then pred sel else sel). clear sel.
        induction Hos as [|o os Ho Hos' IH]; intros i Hpick; [destruct i; discriminate|].
        cbn [forallb] in Htys. apply andb_true_iff in Htys as [Hto Htys].
        destruct i as [|i].
        - exists o. repeat split; auto.
        - destruct (IH Htys i Hpick) as (o' & Hn' & H1 & H2 & H4 & H5). exists o'. repeat split; auto. }
      assert ((lenN os + (if b then 1 else 0) <=? N.of_nat sel) = false) as Hin.
      { apply N.leb_gt. pose proof (proj1 (nth_error_Some os (if b then pred sel else sel)) ltac:(congruence)) as Hlt.
        unfold lenN. destruct b; cbn [negb] in Hsel; [destruct sel; [discriminate|]; cbn [pred] in Hlt|]; lia. }
      rewrite Hin in Hmk.
      assert ((b && (sel =? 0)%nat) = false) as Hbs.
      { destruct b; [|reflexivity]. cbn [andb negb] in *. destruct sel; [discriminate|reflexivity]. }
      rewrite Hbs in Hmk. rewrite (Hpk _ (fun o => mk o x) (Err EIndex)) in Hmk.
      destruct (mk o x) as [c|] eqn:Hc; [|discriminate]. cbn [bind] in Hmk. inversion Hmk; subst n0. clear Hmk.
      unfold ser_ok. cbn [ModelCodec.ser_impl].
      assert (N.of_nat sel < 2 ^ 64) as Hs64.
      { pose proof (proj1 (nth_error_Some os (if b then pred sel else sel)) ltac:(congruence)) as Hlt. unfold lenN in Hcount.
        assert (2 ^ 64 > 200) by (cbn; lia). destruct b; [destruct sel; cbn [pred] in Hlt|]; lia. }
      rewrite (mixin_len_node H src c (N.of_nat sel) Hs64). cbn [bind]. rewrite Hin. cbn [get_left children bind].
      assert ((b && (N.of_nat sel =? 0)) = false) as ->.
      { destruct b; [|reflexivity]. cbn [andb]. destruct sel; [cbn in Hbs; discriminate|]. apply N.eqb_neq. lia. }
      replace (N.to_nat (if b then N.of_nat sel - 1 else N.of_nat sel)) with (if b then pred sel else sel) by (destruct b; lia).
      rewrite (Hpk _ (fun o => ser_impl o c) (Err EIndex)).
      rewrite (Hio c eq_refl). cbn [bind fst snd Spec.ser].
      rewrite (Hpk _ (fun o => ser o x) []). f_equal. f_equal. rewrite lenN_cons. reflexivity.
    + apply andb_true_iff in Hwf as [Hb Hsel]. apply Nat.eqb_eq in Hsel. subst b sel.
      assert ((lenN os + 1 <=? N.of_nat 0) = false) as Hin by (apply N.leb_gt; lia). rewrite Hin in Hmk.
      cbn [andb Nat.eqb bind] in Hmk. inversion Hmk; subst n0. clear Hmk.
      unfold ser_ok. cbn [ModelCodec.ser_impl]. rewrite (mixin_len_node H src _ (N.of_nat 0)) by (cbn; lia). cbn [bind].
      rewrite Hin. cbn [get_left children bind andb N.of_nat N.eqb Tree.root Tree.zero_node Tree.zero_hash].
      assert (bytes_eqb zero32 zero32 = true) as -> by now apply bytes_eqb_eq. reflexivity.
Qed.

(* every well-formed value of a supported type can be constructed, and its backing serialises to the spec bytes *)
Corollary ser_constructed_total : forall t v, wf_ty t = true -> wf t v = true ->
  exists n, mk t v = Ok n /\ ser_impl t n = Ok (ser t v, lenN (ser t v)).
Proof.
  intros t v Hty Hwf. destruct (mk_root H t v Hty Hwf) as (n & Hn & _). exists n. split; [exact Hn|].
  exact (ser_constructed t v n Hty Hwf Hn).
Qed.

End WithHash.
