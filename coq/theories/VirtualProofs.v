(* VirtualProofs.v — lazily loaded trees (C20): a virtual node over a root-keyed source that is
   consistent with a materialised tree m is observationally m: same roots, same navigation results
   and navigation errors, same results of writes.  Plus the per-node memo state machine. *)
Require Import RM.Base RM.Gindex RM.Tree RM.TreeProofs.

Section WithHash.
Variable H : bytes -> bytes -> bytes.
Variable src : bytes -> option (bytes * bytes).
Notation root := (root H).
Notation getter := (getter src).
Notation setter_below := (setter_below H src).
Notation setter := (setter H src).
Notation children := (children src).

(* src is a root-keyed store of the materialised tree m: every pair is listed under its root with
   its children's roots, every leaf root is absent (presupposes that no leaf equals a pair root) *)
Fixpoint consistent (m : node) : Prop :=
  match m with
  | PairN l r => src (root m) = Some (root l, root r) /\ consistent l /\ consistent r
  | RootN r => src r = None
  | VirtN _ => False
  end.

(* v is m with some subtrees replaced by virtual nodes carrying their roots *)
Inductive vrel : node -> node -> Prop :=
| vrel_refl n : vrel n n
| vrel_virt m : consistent m -> vrel (VirtN (root m)) m
| vrel_pair l r l' r' : vrel l l' -> vrel r r' -> vrel (PairN l r) (PairN l' r').

Theorem vrel_root v m : vrel v m -> root v = root m.
Proof. induction 1 as [n|m Hc|l r l' r' Hl IHl Hr IHr]; cbn [Tree.root]; congruence. Qed.

(* children of related nodes are related: a virtual node answers exactly like the materialised one *)
Lemma vrel_children v m : vrel v m -> novirt m ->
  match children m with
  | Some (ml, mr) => exists vl vr, children v = Some (vl, vr) /\ vrel vl ml /\ vrel vr mr
  | None => children v = None
  end.
Proof.
  intros Hv Hm. inversion Hv as [n|m0 Hc|l r l' r' Hl Hr]; subst.
  - destruct (children m) as [[ml mr]|]; [|reflexivity]. exists ml, mr. repeat split; constructor.
  - destruct m as [r0|ml mr|r0]; cbn in Hc, Hm; try contradiction.
    + cbn [Tree.children Tree.root]. now rewrite Hc.
    + destruct Hc as (Hs & Hcl & Hcr). cbn [Tree.children]. cbn [Tree.children Tree.root] in *. rewrite Hs.
      exists (VirtN (root ml)), (VirtN (root mr)). repeat split; now constructor.
  - cbn [Tree.children]. exists l, r. repeat split; assumption.
Qed.

Lemma novirt_child m l r : novirt m -> children m = Some (l, r) -> novirt l /\ novirt r.
Proof. destruct m; cbn; intros Hn E; try discriminate; try contradiction. inversion E; subst; exact Hn. Qed.

(* navigation: same successes (related results, hence equal roots), same failures *)
Theorem vrel_get : forall p v m, vrel v m -> novirt m ->
  match getter m p with
  | Ok y => exists x, getter v p = Ok x /\ vrel x y
  | Err e => getter v p = Err e
  end.
Proof.
  induction p as [|b p IH]; intros v m Hv Hm.
  - cbn. exists v. split; [reflexivity|exact Hv].
  - cbn [Tree.getter]. pose proof (vrel_children v m Hv Hm) as Hc.
    destruct (children m) as [[ml mr]|] eqn:Em.
    + destruct Hc as (vl & vr & Ec & Hl & Hr). rewrite Ec.
      destruct (novirt_child m ml mr Hm Em) as [Hnl Hnr].
      destruct b; [apply (IH vr mr Hr Hnr)|apply (IH vl ml Hl Hnl)].
    + now rewrite Hc.
Qed.

(* writes below the top node: same successes with related results, same failures *)
Theorem vrel_set_below e : forall p v m x, vrel v m -> novirt m ->
  match setter_below e m p x with
  | Ok m' => exists v', setter_below e v p x = Ok v' /\ vrel v' m'
  | Err er => setter_below e v p x = Err er
  end.
Proof.
  induction p as [|b p IH]; intros v m x Hv Hm.
  - cbn. exists x. split; [reflexivity|constructor].
  - cbn [Tree.setter_below]. pose proof (vrel_children v m Hv Hm) as Hc.
    destruct (children m) as [[ml mr]|] eqn:Em.
    + destruct Hc as (vl & vr & Ec & Hl & Hr). rewrite Ec.
      destruct (novirt_child m ml mr Hm Em) as [Hnl Hnr].
      destruct b.
      * pose proof (IH vr mr x Hr Hnr) as Hi. destruct (setter_below e mr p x) as [c|er].
        -- destruct Hi as (c' & Hc' & Hrc). rewrite Hc'. cbn [rebuild]. eexists; split; [reflexivity|]. now constructor.
        -- rewrite Hi. reflexivity.
      * pose proof (IH vl ml x Hl Hnl) as Hi. destruct (setter_below e ml p x) as [c|er].
        -- destruct Hi as (c' & Hc' & Hrc). rewrite Hc'. cbn [rebuild]. eexists; split; [reflexivity|]. now constructor.
        -- rewrite Hi. reflexivity.
    + rewrite Hc. rewrite (vrel_root v m Hv).
      destruct (e && bytes_eqb (root m) (zero_hash H (length (b :: p)))); [|reflexivity].
      destruct (setter_below e (zero_node H (length p)) p x) as [c|er]; cbn [rebuild].
      * eexists; split; [reflexivity|constructor].
      * reflexivity.
Qed.

(* writes through the public setter: identical on every tree whose top node has children (views'
   backings always do); a childless VirtualNode at the very top raises NavigationError even with
   expand, where a RootNode would expand — recorded in DESIGN.md as an observation *)
Theorem vrel_set e p v m x : vrel v m -> novirt m -> (exists l r, children m = Some (l, r)) ->
  match setter e m p x with
  | Ok m' => exists v', setter e v p x = Ok v' /\ vrel v' m' /\ root v' = root m'
  | Err er => setter e v p x = Err er
  end.
Proof.
  intros Hv Hm (l & r & Em).
  assert (setter e m p x = setter_below e m p x) as ->.
  { rewrite setter_unfold. destruct p; [reflexivity|]. destruct m; try reflexivity. cbn in Hm. contradiction. }
  assert (setter e v p x = setter_below e v p x) as ->.
  { rewrite setter_unfold. destruct p as [|b p]; [reflexivity|]. destruct v as [r0|vl vr|r0]; try reflexivity.
    pose proof (vrel_children _ _ Hv Hm) as Hc. rewrite Em in Hc. destruct Hc as (vl & vr & Ec & _).
    cbn [Tree.setter_below]. rewrite Ec. reflexivity. }
  pose proof (vrel_set_below e p v m x Hv Hm) as Hs.
  destruct (setter_below e m p x) as [m'|er]; [|exact Hs].
  destruct Hs as (v' & Hv' & Hr). exists v'. repeat split; auto. now apply vrel_root.
Qed.

End WithHash.

(* ---- the memo state machine of one VirtualNode (virtual.py:32-51) ---- *)
Section Memo.
Variable src : bytes -> option (bytes * bytes).
Variable r : bytes.                       (* the node's root *)

Record vstate := { vleft : option node; vright : option node; vleaf : option bool }.
Inductive question := QLeft | QRight | QLeaf.
Inductive vop := OGetLeft | OGetRight | OIsLeaf.
(* one call: new state and the questions put to the source, with whether a node came back *)
Definition vstep (s : vstate) (o : vop) : vstate * list (question * bool) :=
  match o with
  | OGetLeft =>
      match vleft s with
      | Some _ => (s, [])
      | None =>
          match vleaf s with
          | Some true => (s, [])                       (* raises without asking *)
          | _ => match src r with
                 | Some (a, _) => ({| vleft := Some (VirtN a); vright := vright s; vleaf := vleaf s |}, [(QLeft, true)])
                 | None => (s, [(QLeft, false)])        (* the source raises NavigationError *)
                 end
          end
      end
  | OGetRight =>
      match vright s with
      | Some _ => (s, [])
      | None =>
          match vleaf s with
          | Some true => (s, [])
          | _ => match src r with
                 | Some (_, b) => ({| vleft := vleft s; vright := Some (VirtN b); vleaf := vleaf s |}, [(QRight, true)])
                 | None => (s, [(QRight, false)])
                 end
          end
      end
  | OIsLeaf =>
      match vleaf s with
      | Some _ => (s, [])
      | None => ({| vleft := vleft s; vright := vright s;
                    vleaf := Some (match src r with None => true | Some _ => false end) |}, [(QLeaf, true)])
      end
  end.
Fixpoint vrun (s : vstate) (os : list vop) : vstate * list (question * bool) :=
  match os with
  | [] => (s, [])
  | o :: rest => let '(s1, l1) := vstep s o in let '(s2, l2) := vrun s1 rest in (s2, l1 ++ l2)
  end.
Definition vinit : vstate := {| vleft := None; vright := None; vleaf := None |}.

Definition q_eqb (a b : question * bool) : bool :=
  match a, b with
  | (QLeft, x), (QLeft, y) | (QRight, x), (QRight, y) | (QLeaf, x), (QLeaf, y) => Bool.eqb x y
  | _, _ => false
  end.
Definition count (q : question * bool) (l : list (question * bool)) : nat := length (filter (q_eqb q) l).

(* invariant: what has been answered is cached *)
Definition answered (s : vstate) (l : list (question * bool)) : Prop :=
  (count (QLeft, true) l = 0 \/ (count (QLeft, true) l = 1 /\ vleft s <> None)) /\
  (count (QRight, true) l = 0 \/ (count (QRight, true) l = 1 /\ vright s <> None)) /\
  (count (QLeaf, true) l = 0 \/ (count (QLeaf, true) l = 1 /\ vleaf s <> None)).

Lemma count_app q a b : count q (a ++ b) = count q a + count q b.
Proof. unfold count. rewrite filter_app, app_length. reflexivity. Qed.

Lemma vstep_inv s l o : answered s l -> let '(s1, l1) := vstep s o in answered s1 (l ++ l1).
Proof.
  intros (Hl & Hr & Hf). unfold answered.
  destruct o; cbn [vstep].
  - destruct (vleft s) eqn:El; [rewrite app_nil_r; unfold answered; rewrite El; auto|].
    destruct (vleaf s) as [[|]|] eqn:Ef; try (rewrite app_nil_r; rewrite El, Ef; auto; fail);
      destruct (src r) as [[a b]|]; cbn [vleft vright vleaf]; rewrite !count_app; cbn;
      rewrite ?El, ?Ef, ?Nat.add_0_r;
      (destruct Hl as [Hl|[_ Hl]]; [|congruence]); repeat split; auto; try (right; split; [lia|discriminate]); try (left; lia).
  - destruct (vright s) eqn:El; [rewrite app_nil_r; unfold answered; rewrite El; auto|].
    destruct (vleaf s) as [[|]|] eqn:Ef; try (rewrite app_nil_r; rewrite El, Ef; auto; fail);
      destruct (src r) as [[a b]|]; cbn [vleft vright vleaf]; rewrite !count_app; cbn;
      rewrite ?El, ?Ef, ?Nat.add_0_r;
      (destruct Hr as [Hr|[_ Hr]]; [|congruence]); repeat split; auto; try (right; split; [lia|discriminate]); try (left; lia).
  - destruct (vleaf s) eqn:Ef; [rewrite app_nil_r; rewrite Ef; auto|].
    cbn [vleft vright vleaf]. rewrite !count_app. cbn. rewrite ?Nat.add_0_r.
    destruct Hf as [Hf|[_ Hf]]; [|congruence]. repeat split; auto. right. split; [lia|discriminate].
Qed.

Lemma vrun_inv : forall os s l, answered s l -> let '(s2, l2) := vrun s os in answered s2 (l ++ l2).
Proof.
  induction os as [|o os IH]; intros s l Ha; cbn [vrun].
  - now rewrite app_nil_r.
  - pose proof (vstep_inv s l o Ha) as H1. destruct (vstep s o) as [s1 l1].
    pose proof (IH s1 (l ++ l1) H1) as H2. destruct (vrun s1 os) as [s2 l2]. now rewrite app_assoc.
Qed.

(* in any sequence of get_left / get_right / is_leaf calls on one node, the source hands out each
   child at most once and is asked is_leaf at most once *)
Theorem memo_once os :
  let l := snd (vrun vinit os) in
  count (QLeft, true) l <= 1 /\ count (QRight, true) l <= 1 /\ count (QLeaf, true) l <= 1.
Proof.
  assert (answered vinit []) as H0 by (repeat split; left; reflexivity).
  pose proof (vrun_inv os vinit [] H0) as Hi. destruct (vrun vinit os) as [s2 l2]. cbn [snd app] in *.
  destruct Hi as ([?|[? _]] & [?|[? _]] & [?|[? _]]); lia.
Qed.
End Memo.
