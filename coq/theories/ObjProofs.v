(* ObjProofs.v — C16: exporting ANY representation of a value to plain objects and importing the result
   (directly or after a JSON dump / load) yields the freshly constructed backing of that value, for
   every type: hex strings for bitfields / byte arrays / wide integers, element objects read through
   the stack iterators, dicts keyed by field name (distinct because the decimal digits determine the
   number), selector / value dicts for unions. *)
Require Import RM.Base RM.Gindex RM.Tree RM.TreeProofs RM.Types RM.Spec RM.ModelViews RM.ModelCodec RM.ModelMut RM.ModelIters RM.ModelObj
               RM.SerLen RM.FactsProofs RM.MerkleProofs RM.PackProofs RM.CtorProofs RM.PathProofs RM.CRepProofs
               RM.ListProofs RM.SerProofs RM.CodecBasicProofs RM.SerProofs2 RM.BitProofs RM.ChunkProofs RM.SerAll RM.DeserProofs
               RM.ReprProofs RM.MutProofs RM.IterProofs RM.SoundProofs.
From Coq Require Import ZifyBool ZifyNat ZifyN.
Local Open Scope N_scope.
(* ---- field names "f<i>" are distinct: the decimal digits determine the number ---- *)
Definition digits_fn :=
  fix digits (fuel : nat) (n : N) (acc : bytes) : bytes :=
     match fuel with
     | O => acc
     | S f => let acc' := byte_of_N (48 + n mod 10) :: acc in
              if n <? 10 then acc' else digits f (n / 10) acc'
     end.
Lemma field_name_eq i : field_name i = byte_of_N 102 :: digits_fn 20 (N.of_nat i) [].
Proof. reflexivity. Qed.

(* reading the digits back *)
Fixpoint dval (s : bytes) (acc : N) : N :=
  match s with [] => acc | c :: r => dval r (10 * acc + (Byte.to_N c - 48)) end.

Lemma dval_app s1 s2 acc : dval (s1 ++ s2) acc = dval s2 (dval s1 acc).
Proof. revert acc; induction s1 as [|c s1 IH]; intros acc; cbn; auto. Qed.

Lemma digit_byte d : d < 10 -> Byte.to_N (byte_of_N (48 + d)) - 48 = d.
Proof.
  intros Hd. unfold byte_of_N. rewrite N.mod_small by lia.
  destruct (Byte.of_N (48 + d)) as [b|] eqn:E.
  - apply Byte.to_of_N in E. lia.
  - exfalso. pose proof (Byte.of_N_None_iff (48 + d)) as [Hn _]. specialize (Hn E). lia.
Qed.

(* with enough fuel, the digits prepended to acc read back as n followed by acc's digits *)
Lemma digits_value : forall fuel n acc, n < 10 ^ N.of_nat fuel ->
  exists k, forall a0, dval (digits_fn fuel n acc) a0 = dval acc (a0 * 10 ^ k + n).
Proof.
  induction fuel as [|fuel IH]; intros n acc Hn.
  - cbn in Hn. assert (n = 0) as -> by lia. exists 0. intros a0. cbn [digits_fn]. f_equal. rewrite N.pow_0_r. lia.
  - cbn [digits_fn]. pose proof (N.mod_lt n 10 ltac:(lia)) as Hm. pose proof (N.div_mod n 10 ltac:(lia)) as Hdm.
    destruct (n <? 10) eqn:E.
    + apply N.ltb_lt in E. exists 1. intros a0. rewrite N.mod_small by lia. cbn [dval]. rewrite digit_byte by lia. f_equal. rewrite N.pow_1_r. lia.
    + apply N.ltb_ge in E. rewrite Nat2N.inj_succ, N.pow_succ_r' in Hn.
      destruct (IH (n / 10) (byte_of_N (48 + n mod 10) :: acc)) as (k & Hk); [apply N.div_lt_upper_bound; lia|].
      exists (k + 1). intros a0. rewrite Hk. cbn [dval]. rewrite digit_byte by lia. f_equal.
      rewrite N.pow_add_r, N.pow_1_r. lia.
Qed.

Opaque digits_fn.
Lemma field_name_inj i j : N.of_nat i < 10 ^ 20 -> N.of_nat j < 10 ^ 20 -> field_name i = field_name j -> i = j.
Proof.
  intros Hi Hj E. rewrite !field_name_eq in E. apply (f_equal (@tl byte)) in E. cbn [tl] in E. rename E into E'.
  destruct (digits_value 20 (N.of_nat i) [] Hi) as (ki & Hki). destruct (digits_value 20 (N.of_nat j) [] Hj) as (kj & Hkj).
  pose proof (Hki 0) as H1. pose proof (Hkj 0) as H2. rewrite E' in H1. rewrite H1 in H2. cbn [dval] in H2. clear - H2. lia.
Qed.
Section WithHash.
Variable H : bytes -> bytes -> bytes.
Variable src : bytes -> option (bytes * bytes).
Notation root := (root H).
Notation CRep := (CRep H).
Notation Repr := (Repr H).
Notation mk := (mk H).
Notation to_obj := (to_obj H src).
Notation from_obj := (from_obj H).

Lemma forallb_map' {A B} (f : A -> B) (p : B -> bool) l : forallb p (map f l) = forallb (fun x => p (f x)) l.
Proof. induction l as [|a l IH]; cbn; auto. now rewrite IH. Qed.

Lemma assoc_json k kvs : assoc k (map (fun kv => (fst kv, json_rt (snd kv))) kvs) = option_map json_rt (assoc k kvs).
Proof. induction kvs as [|[a v] kvs IH]; [reflexivity|]. cbn [map assoc fst snd]. destruct (bytes_eqb a k); [reflexivity|exact IH]. Qed.

(* a JSON dump / load of the object does not change what it imports to *)
Theorem from_obj_json : forall t o, from_obj t (json_rt o) = from_obj t o.
Proof.
  induction t as [k| |nn|l|nn|l|e nn IHe|e l IHe|fs Hfs|b os Hos] using ty_ind'; intros o.
  - destruct o; reflexivity.
  - destruct o; reflexivity.
  - destruct o as [| | |tp lo| |]; try reflexivity. cbn [json_rt ModelObj.from_obj].
    assert (map (fun x => match x with JBool b0 => Ok b0 | JInt n => Ok (negb (n =? 0)) | JNull => Ok false | JStr s => Ok (negb (lenN s =? 0))
                                     | JSeq _ l' => Ok (negb (lenN l' =? 0)) | JDict l' => Ok (negb (lenN l' =? 0)) end) (map json_rt lo)
            = map (fun x => match x with JBool b0 => Ok b0 | JInt n => Ok (negb (n =? 0)) | JNull => Ok false | JStr s => Ok (negb (lenN s =? 0))
                                     | JSeq _ l' => Ok (negb (lenN l' =? 0)) | JDict l' => Ok (negb (lenN l' =? 0)) end) lo) as ->.
    { rewrite map_map. apply map_ext. intros [| | |tp' l'|kvs|]; cbn [json_rt]; try reflexivity; unfold lenN; now rewrite map_length. }
    destruct lo; reflexivity.
  - destruct o as [| | |tp lo| |]; try reflexivity. cbn [json_rt ModelObj.from_obj].
    assert (map (fun x => match x with JBool b0 => Ok b0 | JInt n => Ok (negb (n =? 0)) | JNull => Ok false | JStr s => Ok (negb (lenN s =? 0))
                                     | JSeq _ l' => Ok (negb (lenN l' =? 0)) | JDict l' => Ok (negb (lenN l' =? 0)) end) (map json_rt lo)
            = map (fun x => match x with JBool b0 => Ok b0 | JInt n => Ok (negb (n =? 0)) | JNull => Ok false | JStr s => Ok (negb (lenN s =? 0))
                                     | JSeq _ l' => Ok (negb (lenN l' =? 0)) | JDict l' => Ok (negb (lenN l' =? 0)) end) lo) as ->.
    { rewrite map_map. apply map_ext. intros [| | |tp' l'|kvs|]; cbn [json_rt]; try reflexivity; unfold lenN; now rewrite map_length. }
    destruct lo; reflexivity.
  - destruct o as [| | |tp lo| |]; try reflexivity. cbn [json_rt ModelObj.from_obj].
    assert (map (fun x => match x with JInt n => if n <? 256 then Ok (byte_of_N n) else Err EValue | JBool b0 => Ok (byte_of_N (if b0 then 1 else 0)) | _ => Err EType end) (map json_rt lo)
            = map (fun x => match x with JInt n => if n <? 256 then Ok (byte_of_N n) else Err EValue | JBool b0 => Ok (byte_of_N (if b0 then 1 else 0)) | _ => Err EType end) lo) as ->; [|reflexivity].
    rewrite map_map. apply map_ext. intros [| | |tp' l'|kvs|]; reflexivity.
  - destruct o as [| | |tp lo| |]; try reflexivity. cbn [json_rt ModelObj.from_obj].
    assert (map (fun x => match x with JInt n => if n <? 256 then Ok (byte_of_N n) else Err EValue | JBool b0 => Ok (byte_of_N (if b0 then 1 else 0)) | _ => Err EType end) (map json_rt lo)
            = map (fun x => match x with JInt n => if n <? 256 then Ok (byte_of_N n) else Err EValue | JBool b0 => Ok (byte_of_N (if b0 then 1 else 0)) | _ => Err EType end) lo) as ->; [|reflexivity].
    rewrite map_map. apply map_ext. intros [| | |tp' l'|kvs|]; reflexivity.
  - destruct o as [| | |tp lo| |]; try reflexivity. cbn [json_rt ModelObj.from_obj].
    rewrite map_map. assert (map (fun x => from_obj e (json_rt x)) lo = map (from_obj e) lo) as -> by (apply map_ext; exact IHe). reflexivity.
  - destruct o as [| | |tp lo| |]; try reflexivity. cbn [json_rt ModelObj.from_obj].
    rewrite map_map. assert (map (fun x => from_obj e (json_rt x)) lo = map (from_obj e) lo) as -> by (apply map_ext; exact IHe). reflexivity.
  - destruct o as [| | | |kvs|]; try reflexivity. cbn [json_rt ModelObj.from_obj].
    rewrite forallb_map'. cbn [fst].
    match goal with |- (if ?c then _ else _) = _ => destruct c; [reflexivity|] end.
    assert (forall i, (fix go (fs : list ty) (i : nat) : result (list node) :=
                match fs with
                | [] => Ok []
                | f :: fs' => do a <- match assoc (field_name i) (map (fun kv => (fst kv, json_rt (snd kv))) kvs) with Some x => from_obj f x | None => default_node H f end;
                              do r <- go fs' (S i); Ok (a :: r)
                end) fs i =
              (fix go (fs : list ty) (i : nat) : result (list node) :=
                match fs with
                | [] => Ok []
                | f :: fs' => do a <- match assoc (field_name i) kvs with Some x => from_obj f x | None => default_node H f end;
                              do r <- go fs' (S i); Ok (a :: r)
                end) fs i) as Hgo.
    { induction Hfs as [|f fs Hf Hfs' IH]; intros i; [reflexivity|]. rewrite assoc_json. rewrite IH.
      destruct (assoc (field_name i) kvs) as [x|]; cbn [option_map]; [now rewrite Hf|reflexivity]. }
    now rewrite Hgo.
  - destruct o as [| | | |kvs|]; try reflexivity. cbn [json_rt ModelObj.from_obj]. rewrite !assoc_json.
    destruct (assoc str_selector kvs) as [[sel| | | | |]|]; cbn [option_map json_rt]; try reflexivity.
    destruct (assoc str_value kvs) as [v|]; cbn [option_map]; [|reflexivity].
    destruct (lenN os + (if b then 1 else 0) <=? sel); [reflexivity|].
    destruct (b && (sel =? 0)); [destruct v; reflexivity|].
    assert (forall i, (fix pick (os : list ty) (i : nat) : result node :=
               match os, i with o' :: _, O => from_obj o' (json_rt v) | _ :: os', S i' => pick os' i' | [], _ => Err EIndex end) os i
            = (fix pick (os : list ty) (i : nat) : result node :=
               match os, i with o' :: _, O => from_obj o' v | _ :: os', S i' => pick os' i' | [], _ => Err EIndex end) os i) as Hp.
    { induction Hos as [|o' os Ho Hos' IH]; intros [|i]; try reflexivity; [apply Ho|apply IH]. }
    now rewrite Hp.
Qed.
(* ---- the iterators on representations ---- *)
Lemma node_iter_crep d n ns : CRep d n ns -> node_iter src n d (lenN ns) = Ok ns.
Proof.
  intros Hc. pose proof (CRep_len H _ _ _ Hc) as Hl. pose proof (pow_nat_N d) as Hp.
  apply (node_iter_agrees src); [unfold lenN; lia|].
  unfold iotaN, lenN. rewrite Nat2N.id. rewrite (seq_res_tab _ (fun j => nth j ns (RootN zero32))).
  - rewrite map_nth_seq by lia. now rewrite firstn_all.
  - intros j [_ Hj]. cbn [Nat.add] in Hj. rewrite <- (Nat2N.id j) at 2. apply (CRep_get H src _ _ _ Hc). unfold lenN. lia.
Qed.
Lemma node_iter_crep_list d c lenn ns : CRep d c ns -> node_iter src (PairN c lenn) (S d) (lenN ns) = Ok ns.
Proof.
  intros Hc. pose proof (CRep_len H _ _ _ Hc) as Hl. pose proof (pow_nat_N d) as Hp.
  apply (node_iter_agrees src); [rewrite Nat2N.inj_succ, N.pow_succ_r'; unfold lenN; lia|].
  unfold iotaN, lenN. rewrite Nat2N.id. rewrite (seq_res_tab _ (fun j => nth j ns (RootN zero32))).
  - rewrite map_nth_seq by lia. now rewrite firstn_all.
  - intros j [_ Hj]. cbn [Nat.add] in Hj.
    assert (N.of_nat j < 2 ^ N.of_nat (S d)) as Hj2 by (rewrite Nat2N.inj_succ, N.pow_succ_r'; lia).
    cbn [be_bits]. rewrite (testbit_top _ d Hj2). assert ((2 ^ N.of_nat d <=? N.of_nat j) = false) as -> by (apply N.leb_gt; lia).
    cbn [Tree.getter children]. rewrite <- (Nat2N.id j) at 2. apply (CRep_get H src _ _ _ Hc). unfold lenN. lia.
Qed.

(* element-wise export / import *)
Lemma elems_obj (e : ty) (vs : list val) (ns ns0 : list node) :
  (forall x n n0, wf e x = true -> Repr e x n -> mk e x = Ok n0 -> exists o, to_obj e n = Ok o /\ from_obj e o = Ok n0) ->
  forallb (wf e) vs = true -> Forall2 (Repr e) vs ns -> seq_res (map (mk e) vs) = Ok ns0 ->
  exists os, seq_res (map (to_obj e) ns) = Ok os /\ seq_res (map (from_obj e) os) = Ok ns0.
Proof.
  intros IH Hall HF. revert ns0. induction HF as [|x n vs ns Hx HF IHF]; intros ns0 Hns0.
  - cbn in Hns0. inversion Hns0. exists []. split; reflexivity.
  - cbn [forallb] in Hall. apply andb_true_iff in Hall as [Hwx Hall]. cbn [map seq_res] in Hns0.
    destruct (mk e x) as [n0|] eqn:Em; [|discriminate]. cbn [bind] in Hns0.
    destruct (seq_res (map (mk e) vs)) as [r0|] eqn:Er; [|discriminate]. cbn [bind] in Hns0. inversion Hns0; subst ns0.
    destruct (IH x n n0 Hwx Hx Em) as (o & Ho & Hfo). destruct (IHF Hall r0 eq_refl) as (os & Hos & Hfos).
    exists (o :: os). cbn [map seq_res]. rewrite Ho, Hos, Hfo, Hfos. split; reflexivity.
Qed.
(* element j of a packed sequence, read from its chunk *)
Lemma packed_elem_at e s (vs : list val) (j : nat) : wf_ty e = true -> basic_size e = Some s -> forallb (wf e) vs = true ->
  (j < length vs)%nat ->
  let epc' := N.to_nat (elems_per_chunk s) in
  (j / epc' < length (chunks (concat (map (ser e) vs))))%nat /\
  packed_elem_bytes H e (RootN (nth (j / epc') (chunks (concat (map (ser e) vs))) zero32)) (N.of_nat (j mod epc'))
  = Ok (ser e (nth j vs (VUint 0))).
Proof.
  intros Hw E Hall Hj epc'. set (D := concat (map (ser e) vs)) in *.
  pose proof (basic_size_ok e s Hw E) as Hs.
  assert (Forall (fun l => length l = N.to_nat s) (map (ser e) vs)) as Hu.
  { apply Forall_forall. intros b Hb. apply in_map_iff in Hb as (x & <- & Hx).
    apply (ser_basic_length e s x Hw E). rewrite forallb_forall in Hall. now apply Hall. }
  pose proof (concat_ser_length e s vs Hw E Hall) as HD. fold D in HD.
  set (s' := N.to_nat s).
  assert (s' * epc' = 32 /\ 0 < s')%nat as [Hse Hs0] by (unfold s', epc', elems_per_chunk; destruct Hs as [ -> | [ -> | [ -> | [ -> | [ -> | -> ]]]]]; cbn; lia).
  assert (epc' <> 0)%nat as He by (intros E0; rewrite E0 in Hse; lia).
  assert ((j + 1) * s' <= length D)%nat as HjD by (rewrite HD; fold s'; apply Nat.mul_le_mono_r; lia).
  split.
  - rewrite chunks_length. apply Nat.div_le_lower_bound; [lia|].
    pose proof (Nat.div_mod j epc' He). pose proof (Nat.mod_upper_bound j epc' He). nia.
  - assert (nth j (map (ser e) vs) [] = ser e (nth j vs (VUint 0))) as Enth.
    { rewrite (nth_indep _ [] (ser e (VUint 0))) by (now rewrite map_length). apply map_nth. }
    apply (packed_elem_ok H e s); [exact Hw|exact E| |].
    + rewrite forallb_forall in Hall. apply Hall. now apply nth_In.
    + replace (N.to_nat (N.of_nat (j mod epc') * s)) with ((j mod epc') * s')%nat by (unfold s'; lia).
      replace (N.to_nat ((N.of_nat (j mod epc') + 1) * s)) with ((j mod epc' + 1) * s')%nat by (unfold s'; lia).
      rewrite (packed_get H src s' epc' D j Hse Hs0 HjD). rewrite <- Enth.
      symmetry. apply (nth_uniform s' _ j Hu). now rewrite map_length.
Qed.

Lemma preads_chunks anchor d e s (vs : list val) : wf_ty e = true -> basic_size e = Some s -> forallb (wf e) vs = true ->
  (forall ci, (ci < length (chunks (concat (map (ser e) vs))))%nat ->
     getter src anchor (be_bits d (N.of_nat ci)) = Ok (RootN (nth ci (chunks (concat (map (ser e) vs))) zero32))) ->
  forall k p, (p + k = length vs)%nat ->
  preads H src anchor d e (elems_per_chunk s) (N.of_nat p) k = Ok (skipn p (map (ser e) vs)).
Proof.
  intros Hw E Hall Hget. induction k as [|k IH]; intros p Hpk.
  - cbn [preads]. rewrite skipn_all2 by (rewrite map_length; lia). reflexivity.
  - cbn [preads]. destruct (packed_elem_at e s vs p Hw E Hall ltac:(lia)) as [Hci Hpe]. cbv zeta in Hci, Hpe.
    assert (N.of_nat p / elems_per_chunk s = N.of_nat (p / N.to_nat (elems_per_chunk s))) as -> by (rewrite Nat2N.inj_div, N2Nat.id; reflexivity).
    assert (N.of_nat p mod elems_per_chunk s = N.of_nat (p mod N.to_nat (elems_per_chunk s))) as -> by (rewrite Nat2N.inj_mod, N2Nat.id; reflexivity).
    rewrite (Hget _ Hci). cbn [bind is_leaf children negb]. rewrite Hpe. cbn [bind].
    replace (N.of_nat p + 1) with (N.of_nat (S p)) by lia. rewrite (IH (S p)) by lia. cbn [bind].
    assert (skipn p (map (ser e) vs) = ser e (nth p vs (VUint 0)) :: skipn (S p) (map (ser e) vs)) as ->; [|reflexivity].
    assert (p < length (map (ser e) vs))%nat as Hpl by (rewrite map_length; lia).
    rewrite <- (map_nth (ser e)). rewrite (nth_indep _ (ser e (VUint 0)) []) by exact Hpl.
    clear - Hpl. revert p Hpl. generalize (map (ser e) vs). induction l as [|h l IHl]; intros [|p] Hp; cbn in Hp; try lia; [reflexivity|].
    cbn [skipn nth]. apply IHl. lia.
Qed.
Fixpoint fields_ok (t : ty) : bool :=
  match t with
  | TContainer fs => (lenN fs <? 10 ^ 20) && forallb fields_ok fs
  | TVector e _ | TList e _ => fields_ok e
  | TUnion _ os => forallb fields_ok os
  | _ => true
  end.

Lemma starts_0x_x0x s : starts_0x (x0x ++ s) = true.
Proof. reflexivity. Qed.
Lemma skipn2_x0x s : skipn 2 (x0x ++ s) = s.
Proof. reflexivity. Qed.

Definition obj_rt (t : ty) : Prop := forall v n n0, wf t v = true -> Repr t v n -> mk t v = Ok n0 ->
  exists o, to_obj t n = Ok o /\ from_obj t o = Ok n0.

Lemma obj_rt_uint k : wf_ty (TUint k) = true -> obj_rt (TUint k).
Proof.
  intros Hty v n n0 Hwf Hr Hm. destruct v; cbn [wf] in Hwf; try discriminate. apply N.ltb_lt in Hwf.
  cbn [ReprProofs.Repr] in Hr. rewrite Hr in Hm. inversion Hm; subst n0.
  destruct (obj_uint_roundtrip H src k n1 n Hty Hwf Hr) as (o & Ho & _ & Hf & _). eauto.
Qed.
Lemma obj_rt_bool : obj_rt TBool.
Proof.
  intros v n n0 Hwf Hr Hm. destruct v; cbn [wf] in Hwf; try discriminate.
  cbn [ReprProofs.Repr] in Hr. rewrite Hr in Hm. inversion Hm; subst n0.
  destruct (obj_bool_roundtrip H src b n Hr) as [Ho Hf]. eauto.
Qed.
Lemma obj_rt_bits t : wf_ty t = true -> (exists k, t = TBitvector k) \/ (exists l, t = TBitlist l) -> obj_rt t.
Proof.
  intros Hty Hk v n n0 Hwf Hr Hm.
  pose proof (Repr_ser H src t v n Hty Hwf Hr) as Hser. unfold SerProofs2.ser_ok in Hser.
  assert (to_obj t n = Ok (JStr (x0x ++ hex_text (ser t v)))) as Ho.
  { destruct Hk as [[k ->]|[l ->]]; cbn [ModelObj.to_obj]; rewrite Hser; reflexivity. }
  exists (JStr (x0x ++ hex_text (ser t v))). split; [exact Ho|].
  assert (from_obj t (JStr (x0x ++ hex_text (ser t v))) = decode_bytes H t (ser t v)) as ->.
  { destruct Hk as [[k ->]|[l ->]]; cbn [ModelObj.from_obj]; rewrite starts_0x_x0x, skipn2_x0x, unhex_hex; reflexivity. }
  unfold decode_bytes.
  assert (DeserProofs.deser_ok H t v n0) as Hd.
  { destruct Hk as [[k ->]|[l ->]]; destruct v; try (cbn [wf] in Hwf; discriminate);
      [now apply deser_bitvector|now apply deser_bitlist]. }
  specialize (Hd []). rewrite app_nil_r in Hd. rewrite Hd. reflexivity.
Qed.
Lemma obj_rt_bytes t : wf_ty t = true -> (exists k, t = TByteVector k) \/ (exists l, t = TByteList l) -> obj_rt t.
Proof.
  intros Hty Hk v n n0 Hwf Hr Hm.
  pose proof (Repr_ser H src t v n Hty Hwf Hr) as Hser. unfold SerProofs2.ser_ok in Hser.
  assert (to_obj t n = Ok (JStr (x0x ++ hex_text (ser t v)))) as Ho.
  { destruct Hk as [[k ->]|[l ->]]; cbn [ModelObj.to_obj]; rewrite Hser; reflexivity. }
  exists (JStr (x0x ++ hex_text (ser t v))). split; [exact Ho|].
  destruct Hk as [[k ->]|[l ->]]; destruct v; try (cbn [wf] in Hwf; discriminate);
    cbn [ModelObj.from_obj]; rewrite starts_0x_x0x, skipn2_x0x, unhex_hex; cbn [bind Spec.ser]; exact Hm.
Qed.
Lemma basic_mk_node e s x : wf_ty e = true -> basic_size e = Some s -> wf e x = true -> mk e x = Ok (basic_node (ser e x)).
Proof.
  intros Hw E Hx. destruct (mk_basic_ser e s x Hw E Hx) as (v & Hv & Hs).
  destruct e; cbn in E; try discriminate; inversion E; subst; cbn [ModelViews.mk]; rewrite Hv; cbn [bind]; unfold basic_node; now rewrite Hs.
Qed.
Lemma basic_mk_nodes e s vs : wf_ty e = true -> basic_size e = Some s -> forallb (wf e) vs = true ->
  seq_res (map (mk e) vs) = Ok (map (fun x => basic_node (ser e x)) vs).
Proof.
  intros Hw E. induction vs as [|x vs IH]; intros Hall; [reflexivity|]. cbn [forallb] in Hall. apply andb_true_iff in Hall as [Hx Hall].
  cbn [map seq_res]. rewrite (basic_mk_node e s x Hw E Hx), (IH Hall). reflexivity.
Qed.

Ltac fin Hm := first [exact Hm | match type of Hm with ?X = Ok _ => destruct X; [cbn [bind] in *; exact Hm | discriminate] end].

(* import of the element objects rebuilds the constructor's backing *)
Lemma from_obj_seq (t e : ty) (vs : list val) (os : list obj) (ns0 : list node) (n0 : node) :
  (exists k, t = TVector e k) \/ (exists l, t = TList e l) -> wf_ty t = true -> wf t (VSeq vs) = true ->
  seq_res (map (mk e) vs) = Ok ns0 -> seq_res (map (from_obj e) os) = Ok ns0 -> mk t (VSeq vs) = Ok n0 ->
  forall tp, from_obj t (JSeq tp os) = Ok n0.
Proof.
  intros Ht Hty Hwf Hns0 Hfo Hm tp.
  destruct (seq_res_map_ok (mk e) vs ns0 Hns0) as [Hlen _].
  destruct Ht as [[k ->]|[l ->]]; cbn [ModelObj.from_obj]; rewrite Hfo; cbn [bind]; cbn [wf] in Hwf; apply andb_true_iff in Hwf as [Hn Hall];
    cbn [wf_ty] in Hty; cbn [ModelViews.mk] in Hm.
  - (* vector *)
    apply andb_true_iff in Hty as [Hty _]. apply andb_true_iff in Hty as [Hte Hk1]. apply N.leb_le in Hk1. apply N.eqb_eq in Hn.
    destruct vs as [|x0 vs0] eqn:Evs; [unfold lenN in Hn; cbn in Hn; lia|]. rewrite <- Evs in *.
    destruct ns0 as [|a r] eqn:Ens; [subst vs; cbn in Hlen; lia|]. rewrite <- Ens in *.
    assert (lenN ns0 = lenN vs) as Hl by (unfold lenN; lia). rewrite Hl.
    assert ((lenN vs =? k) = true) as Hn' by now apply N.eqb_eq. rewrite Hn' in Hm |- *. cbn [negb] in Hm |- *.
    destruct (basic_size e) as [s|] eqn:Eb.
    + rewrite (basic_nodes_values H e s Hte Eb vs ns0 Hns0) in Hm. cbn [bind] in Hm. rewrite Ens. rewrite <- Ens. fin Hm.
    + rewrite Hns0 in Hm. cbn [bind] in Hm. rewrite Ens. rewrite <- Ens. fin Hm.
  - (* list *)
    apply andb_true_iff in Hty as [Hte Hlb]. apply N.leb_le in Hn.
    destruct vs as [|x0 vs0] eqn:Evs.
    + cbn in Hns0. inversion Hns0; subst ns0. exact Hm.
    + rewrite <- Evs in *. destruct ns0 as [|a r] eqn:Ens; [subst vs; cbn in Hlen; lia|]. rewrite <- Ens in *.
      assert (lenN ns0 = lenN vs) as Hl by (unfold lenN; lia). rewrite Hl.
      assert ((l <? lenN vs) = false) as Hlt by (apply N.ltb_ge; exact Hn). rewrite Hlt in Hm |- *.
      destruct (basic_size e) as [s|] eqn:Eb.
      * rewrite (basic_nodes_values H e s Hte Eb vs ns0 Hns0) in Hm. cbn [bind] in Hm. rewrite Ens. rewrite <- Ens. fin Hm.
      * rewrite Hns0 in Hm. cbn [bind] in Hm. rewrite Ens. rewrite <- Ens. fin Hm.
Qed.
(* export of a sequence: the element objects, in order *)
Lemma obj_rt_seq (t e : ty) : (exists k, t = TVector e k) \/ (exists l, t = TList e l) -> wf_ty t = true -> wf_ty e = true ->
  obj_rt e -> obj_rt t.
Proof.
  intros Ht Hty Hte IHe v n n0 Hwf Hr Hm. destruct v; try (destruct Ht as [[k ->]|[l ->]]; cbn [wf] in Hwf; discriminate).
  assert (forallb (wf e) vs = true) as Hall by (destruct Ht as [[k ->]|[l ->]]; cbn [wf] in Hwf; now apply andb_true_iff in Hwf as [_ Hall]).
  destruct (mk_elems H e vs Hte Hall) as (ns0 & Hns0).
  (* the exported element objects *)
  assert (exists os tp, to_obj t n = Ok (JSeq tp os) /\ seq_res (map (from_obj e) os) = Ok ns0) as (os & tp & Hto & Hfo).
  { destruct (basic_size e) as [s|] eqn:Eb.
    - (* packed *)
      pose proof (basic_mk_nodes e s vs Hte Eb Hall) as Hbn. rewrite Hns0 in Hbn. inversion Hbn as [Ens0].
      assert (Forall2 (Repr e) vs ns0) as HF0.
      { apply seq_res_Forall2 in Hns0. revert Hall. clear - Hns0 Hte. induction Hns0 as [|x m vs ns Hx _ IH]; [constructor|].
        intros Hall. cbn [forallb] in Hall. apply andb_true_iff in Hall as [Hwx Hall]. constructor; [exact (mk_Repr H (fun _ => None) e x m Hte Hwx Hx)|now apply IH]. }
      destruct (elems_obj e vs ns0 ns0 (fun x m m0 Hx Hr0 Hm0 => IHe x m m0 Hx Hr0 Hm0) Hall HF0 Hns0) as (os & Hos & Hfos).
      exists os. pose proof (basic_size_ok e s Hte Eb) as Hs.
      assert (1 <= 32 / s) as Hper by (destruct Hs as [ -> | [ -> | [ -> | [ -> | [ -> | -> ]]]]]; cbn; lia).
      destruct Ht as [[k ->]|[l ->]]; cbn [ModelObj.to_obj view_len]; cbn [wf] in Hwf; apply andb_true_iff in Hwf as [Hn _]; cbn [ReprProofs.Repr chunk_data] in Hr.
      + rewrite Eb in Hr |- *. apply N.eqb_eq in Hn. cbn [bind]. exists true.
        assert (tree_depth (TVector e k) = contents_depth (TVector e k)) as -> by reflexivity.
        rewrite (packed_iter_agrees H src n _ k e s (map (ser e) vs) Hper).
        * cbn [bind]. replace (map (fun b => to_obj e (basic_node b)) (map (ser e) vs)) with (map (to_obj e) ns0) by (rewrite Ens0, !map_map; reflexivity).
          rewrite Hos. split; [reflexivity|]. try rewrite <- Ens0. exact Hfos.
        * pose proof (CRep_len H _ _ _ Hr) as Hcl. rewrite map_length, chunks_length, (concat_ser_length e s vs Hte Eb Hall) in Hcl.
          pose proof (pow_nat_N (contents_depth (TVector e k))). unfold lenN in Hn. 
          assert (N.to_nat s * N.to_nat (32 / s) = 32)%nat by (destruct Hs as [ -> | [ -> | [ -> | [ -> | [ -> | -> ]]]]]; cbn; lia).
          assert ((length vs * N.to_nat s + 31) / 32 * 32 >= length vs * N.to_nat s)%nat by (pose proof (Nat.div_mod (length vs * N.to_nat s + 31) 32 ltac:(lia)); pose proof (Nat.mod_upper_bound (length vs * N.to_nat s + 31) 32 ltac:(lia)); lia).
          nia.
        * replace (N.to_nat k) with (0 + length vs)%nat by (unfold lenN in Hn; lia). change 0 with (N.of_nat 0).
          rewrite (preads_chunks n _ e s vs Hte Eb Hall); [reflexivity| |lia].
          intros ci Hci. rewrite <- (nth_map_RootN _ _ Hci). rewrite <- (Nat2N.id ci) at 2. apply (CRep_get H src _ _ _ Hr). unfold lenN. rewrite map_length. lia.
      + destruct Hr as (c & -> & Hr). rewrite Eb in Hr |- *. apply N.leb_le in Hn.
        cbn [wf_ty] in Hty. apply andb_true_iff in Hty as [_ Hlb]. apply N.ltb_lt in Hlb. unfold LIMIT_BOUND in Hlb.
        rewrite (mixin_len_node H src c (lenN vs)) by lia. cbn [bind]. exists false.
        assert (tree_depth (TList e l) = S (contents_depth (TList e l))) as -> by reflexivity.
        rewrite (packed_iter_agrees H src _ _ (lenN vs) e s (map (ser e) vs) Hper).
        * cbn [bind]. replace (map (fun b => to_obj e (basic_node b)) (map (ser e) vs)) with (map (to_obj e) ns0) by (rewrite Ens0, !map_map; reflexivity).
          rewrite Hos. split; [reflexivity|]. try rewrite <- Ens0. exact Hfos.
        * pose proof (CRep_len H _ _ _ Hr) as Hcl. rewrite map_length, chunks_length, (concat_ser_length e s vs Hte Eb Hall) in Hcl.
          pose proof (pow_nat_N (contents_depth (TList e l))). rewrite Nat2N.inj_succ, N.pow_succ_r' by lia. unfold lenN.
          assert (N.to_nat s * N.to_nat (32 / s) = 32)%nat by (destruct Hs as [ -> | [ -> | [ -> | [ -> | [ -> | -> ]]]]]; cbn; lia).
          assert ((length vs * N.to_nat s + 31) / 32 * 32 >= length vs * N.to_nat s)%nat by (pose proof (Nat.div_mod (length vs * N.to_nat s + 31) 32 ltac:(lia)); pose proof (Nat.mod_upper_bound (length vs * N.to_nat s + 31) 32 ltac:(lia)); lia).
          nia.
        * replace (N.to_nat (lenN vs)) with (0 + length vs)%nat by (unfold lenN; lia). change 0 with (N.of_nat 0).
          rewrite (preads_chunks _ _ e s vs Hte Eb Hall); [reflexivity| |lia].
          intros ci Hci. pose proof (CRep_len H _ _ _ Hr) as Hcl. rewrite map_length in Hcl. pose proof (pow_nat_N (contents_depth (TList e l))) as Hp.
          assert (N.of_nat ci < 2 ^ N.of_nat (S (contents_depth (TList e l)))) as Hc2 by (rewrite Nat2N.inj_succ, N.pow_succ_r'; lia).
          cbn [be_bits]. rewrite (testbit_top _ _ Hc2). assert ((2 ^ N.of_nat (contents_depth (TList e l)) <=? N.of_nat ci) = false) as -> by (apply N.leb_gt; lia).
          cbn [Tree.getter children]. rewrite <- (nth_map_RootN _ _ Hci). rewrite <- (Nat2N.id ci) at 2. apply (CRep_get H src _ _ _ Hr). unfold lenN. rewrite map_length. lia.
    - (* composite *)
      destruct Ht as [[k ->]|[l ->]]; cbn [ModelObj.to_obj view_len]; cbn [wf] in Hwf; apply andb_true_iff in Hwf as [Hn _]; cbn [ReprProofs.Repr] in Hr.
      + rewrite Eb in Hr |- *. destruct Hr as (ns & Hc & HF). apply N.eqb_eq in Hn. cbn [bind].
        destruct (elems_obj e vs ns ns0 (fun x m m0 Hx Hr0 Hm0 => IHe x m m0 Hx Hr0 Hm0) Hall HF Hns0) as (os & Hos & Hfos).
        exists os, true. assert (tree_depth (TVector e k) = contents_depth (TVector e k)) as -> by reflexivity.
        assert (k = lenN ns) as -> by (pose proof (Forall2_len _ _ _ HF); unfold lenN in *; lia).
        rewrite (node_iter_crep _ _ _ Hc). cbn [bind]. rewrite Hos. split; [reflexivity|exact Hfos].
      + destruct Hr as (c & -> & Hr). rewrite Eb in Hr |- *. destruct Hr as (ns & Hc & HF). apply N.leb_le in Hn.
        cbn [wf_ty] in Hty. apply andb_true_iff in Hty as [_ Hlb]. apply N.ltb_lt in Hlb. unfold LIMIT_BOUND in Hlb.
        rewrite (mixin_len_node H src c (lenN vs)) by lia. cbn [bind].
        destruct (elems_obj e vs ns ns0 (fun x m m0 Hx Hr0 Hm0 => IHe x m m0 Hx Hr0 Hm0) Hall HF Hns0) as (os & Hos & Hfos).
        exists os, false. assert (tree_depth (TList e l) = S (contents_depth (TList e l))) as -> by reflexivity.
        assert (lenN vs = lenN ns) as -> by (pose proof (Forall2_len _ _ _ HF); unfold lenN in *; lia).
        rewrite (node_iter_crep_list _ _ _ _ Hc). cbn [bind]. rewrite Hos. split; [reflexivity|exact Hfos]. }
  exists (JSeq tp os). split; [exact Hto|]. exact (from_obj_seq t e vs os ns0 n0 Ht Hty Hwf Hns0 Hfo Hm tp).
Qed.
(* ---- containers ---- *)
Definition kvs_of (i0 : nat) (os : list obj) : list (bytes * obj) := combine (map field_name (seq i0 (length os))) os.

Lemma bytes_eqb_refl' b : bytes_eqb b b = true.
Proof. now apply bytes_eqb_eq. Qed.

Lemma assoc_kvs : forall os i0 j, (j < length os)%nat -> N.of_nat (i0 + length os) < 10 ^ 20 ->
  assoc (field_name (i0 + j)) (kvs_of i0 os) = Some (nth j os JNull).
Proof.
  induction os as [|o os IH]; intros i0 j Hj Hb; [cbn in Hj; lia|].
  unfold kvs_of. cbn [length seq map combine assoc]. destruct j as [|j].
  - rewrite Nat.add_0_r, bytes_eqb_refl'. reflexivity.
  - destruct (bytes_eqb (field_name i0) (field_name (i0 + S j))) eqn:E.
    + cbn [length] in Hb, Hj. apply bytes_eqb_eq in E. apply field_name_inj in E; [lia| |]; lia.
    + replace (i0 + S j)%nat with (S i0 + j)%nat by lia. cbn [nth]. apply (IH (S i0) j); cbn [length] in *; lia.
Qed.

Lemma keys_known : forall os i0 n, (i0 + length os <= n)%nat ->
  forallb (fun kv : bytes * obj => existsb (fun i => bytes_eqb (fst kv) (field_name i)) (seq 0 n)) (kvs_of i0 os) = true.
Proof.
  induction os as [|o os IH]; intros i0 n Hn; [reflexivity|].
  unfold kvs_of. cbn [length seq map combine forallb fst]. apply andb_true_iff. split.
  - apply existsb_exists. exists i0. split; [apply in_seq; cbn [length] in Hn; lia|apply bytes_eqb_refl'].
  - apply (IH (S i0) n). cbn [length] in Hn. lia.
Qed.

(* export of the fields *)
Lemma cont_to_obj : forall fs vs ns, go_repr H fs vs ns -> Forall obj_rt fs ->
  (fix go (fs : list ty) (vs : list val) : bool :=
     match fs, vs with [], [] => true | f :: fs', x :: vs' => wf f x && go fs' vs' | _, _ => false end) fs vs = true ->
  forall ns0, (fix go (fs : list ty) (vs : list val) : result (list node) :=
     match fs, vs with
     | [], [] => Ok []
     | f :: fs', x :: vs' => do a <- mk f x; do r <- go fs' vs'; Ok (a :: r)
     | _, _ => Err EAttr
     end) fs vs = Ok ns0 ->
  forall i0, exists os, length os = length fs /\
    (fix go (fs : list ty) (ns : list node) (i : nat) : result (list (bytes * obj)) :=
       match fs, ns with
       | f :: fs', x :: ns' => do o <- to_obj f x; do r <- go fs' ns' (S i); Ok ((field_name i, o) :: r)
       | _, _ => Ok []
       end) fs ns i0 = Ok (kvs_of i0 os) /\
    length ns0 = length fs /\
    forall j, (j < length fs)%nat -> from_obj (nth j fs TBool) (nth j os JNull) = Ok (nth j ns0 (RootN zero32)).
Proof.
  induction fs as [|f fs IH]; intros [|x vs] [|m ns] Hg Hrt Hwf ns0 Hgo i0; try contradiction; try discriminate.
  - inversion Hgo. exists []. repeat split. intros j Hj. cbn in Hj. lia.
  - destruct Hg as [Hx Hg]. inversion Hrt as [|? ? Hf Hfs]; subst. apply andb_true_iff in Hwf as [Hwx Hwf].
    destruct (mk f x) as [a|] eqn:Ea; [|discriminate]. cbn [bind] in Hgo.
    match type of Hgo with (do r <- ?G; _) = _ => destruct G as [r|] eqn:Er; [|discriminate] end. cbn [bind] in Hgo. inversion Hgo; subst ns0.
    destruct (Hf x m a Hwx Hx Ea) as (o & Ho & Hfo).
    destruct (IH vs ns Hg Hfs Hwf r Er (S i0)) as (os & Hlos & Hgo' & Hlr & Hfrom).
    exists (o :: os). split; [cbn; lia|]. split.
    + rewrite Ho. cbn [bind]. rewrite Hgo'. cbn [bind]. reflexivity.
    + split; [cbn; lia|]. intros [|j] Hj; cbn [nth]; [exact Hfo|]. apply Hfrom. cbn in Hj. lia.
Qed.

(* import of the fields *)
Lemma cont_from_obj (kvs : list (bytes * obj)) : forall fs os ns0 i0, length os = length fs -> length ns0 = length fs ->
  (forall j, (j < length fs)%nat -> assoc (field_name (i0 + j)) kvs = Some (nth j os JNull)) ->
  (forall j, (j < length fs)%nat -> from_obj (nth j fs TBool) (nth j os JNull) = Ok (nth j ns0 (RootN zero32))) ->
  (fix go (fs : list ty) (i : nat) : result (list node) :=
     match fs with
     | [] => Ok []
     | f :: fs' => do a <- match assoc (field_name i) kvs with Some x => from_obj f x | None => default_node H f end;
                   do r <- go fs' (S i); Ok (a :: r)
     end) fs i0 = Ok ns0.
Proof.
  induction fs as [|f fs IH]; intros [|o os] [|a ns0] i0 Hlo Hln Hassoc Hfrom; try discriminate; [reflexivity|].
  pose proof (Hassoc 0%nat ltac:(cbn; lia)) as Ha0. rewrite Nat.add_0_r in Ha0. cbn [nth] in Ha0. rewrite Ha0.
  pose proof (Hfrom 0%nat ltac:(cbn; lia)) as Hf0. cbn [nth] in Hf0. rewrite Hf0. cbn [bind].
  rewrite (IH os ns0 (S i0)); [reflexivity|cbn in *; lia|cbn in *; lia| |].
  - intros j Hj. specialize (Hassoc (S j) ltac:(cbn; lia)). replace (S i0 + j)%nat with (i0 + S j)%nat by lia. exact Hassoc.
  - intros j Hj. exact (Hfrom (S j) ltac:(cbn; lia)).
Qed.

Lemma obj_rt_container fs : wf_ty (TContainer fs) = true -> lenN fs < 10 ^ 20 -> Forall obj_rt fs -> obj_rt (TContainer fs).
Proof.
  intros Hty Hb Hrt v n n0 Hwf Hr Hm. destruct v; try (cbn [wf] in Hwf; discriminate). cbn [wf] in Hwf.
  cbn [ReprProofs.Repr] in Hr. destruct Hr as (ns & Hc & Hg). fold (go_repr H) in Hg.
  cbn [ModelViews.mk] in Hm. match type of Hm with (do x <- ?G; _) = _ => destruct G as [ns0|] eqn:Hgo; [|discriminate] end. cbn [bind] in Hm.
  destruct (cont_to_obj fs vs ns Hg Hrt Hwf ns0 Hgo 0%nat) as (os & Hlos & Hto & Hlns0 & Hfrom).
  destruct (go_repr_len H fs vs ns Hg) as [_ Hlns].
  exists (JDict (kvs_of 0 os)). split.
  - cbn [ModelObj.to_obj]. assert (tree_depth (TContainer fs) = contents_depth (TContainer fs)) as -> by reflexivity.
    assert (lenN fs = lenN ns) as -> by (unfold lenN; lia). rewrite (node_iter_crep _ _ _ Hc). cbn [bind]. rewrite Hto. reflexivity.
  - cbn [ModelObj.from_obj]. rewrite (keys_known os 0 (length fs)) by lia. cbn [negb].
    rewrite (cont_from_obj (kvs_of 0 os) fs os ns0 0 Hlos Hlns0).
    + cbn [bind]. exact Hm.
    + intros j Hj. apply (assoc_kvs os 0 j); [lia|]. unfold lenN in Hb. cbn [Nat.add]. lia.
    + exact Hfrom.
Qed.
(* ---- unions ---- *)
Lemma obj_rt_union b os : wf_ty (TUnion b os) = true -> Forall obj_rt os -> obj_rt (TUnion b os).
Proof.
  intros Hty Hrt v n n0 Hwf Hr Hm. destruct v; try (cbn [wf] in Hwf; discriminate). cbn [wf] in Hwf.
  cbn [wf_ty] in Hty. apply andb_true_iff in Hty as [Hty Hcount]. apply andb_true_iff in Hty as [Htys Hne]. apply N.leb_le in Hcount.
  cbn [ReprProofs.Repr] in Hr. destruct Hr as (c & -> & Hr). cbn [ModelViews.mk] in Hm.
  destruct (lenN os + (if b then 1 else 0) <=? N.of_nat sel) eqn:Hin; [discriminate|].
  assert (N.of_nat sel < 2 ^ 64) as Hs64 by (apply N.leb_gt in Hin; assert (2 ^ 64 > 200) by (cbn; lia); destruct b; lia).
  assert (union_selector H src (TUnion b os) (PairN c (len_node (N.of_nat sel))) = Ok (N.of_nat sel)) as Hsel.
  { cbn [union_selector]. rewrite (mixin_len_node H src c (N.of_nat sel) Hs64). cbn [bind]. now rewrite Hin. }
  cbn [ModelObj.to_obj]. rewrite Hsel. cbn [bind get_left children].
  destruct v as [x|].
  - apply andb_true_iff in Hwf as [Hselok Hpick].
    assert ((b && (sel =? 0)%nat) = false) as Hbs by (destruct b; [|reflexivity]; cbn [andb negb] in *; destruct sel; [discriminate|reflexivity]).
    rewrite Hbs in Hm.
    assert ((b && (N.of_nat sel =? 0)) = false) as Hbs' by (destruct b; [|reflexivity]; cbn [andb]; destruct sel; [cbn in Hbs; discriminate|]; apply N.eqb_neq; lia).
    rewrite Hbs'.
    set (i := if b then pred sel else sel) in *.
    replace (N.to_nat (if b then N.of_nat sel - 1 else N.of_nat sel)) with i by (unfold i; destruct b; lia).
    apply (pick_repr_nth H) in Hr as (o & Hn & Hro).
    rewrite (pick_nth (fun o' => mk o' x) (Err EIndex)) in Hm. rewrite Hn in Hm.
    destruct (mk o x) as [n1|] eqn:Em; [|discriminate]. cbn [bind] in Hm. inversion Hm; subst n0.
    assert (obj_rt o) as Ho by (rewrite Forall_forall in Hrt; apply Hrt; eapply nth_error_In; eauto).
    assert (wf o x = true) as Hwo by (rewrite (pick_nth (fun o' => wf o' x) false) in Hpick; now rewrite Hn in Hpick).
    destruct (Ho x c n1 Hwo Hro Em) as (ob & Hto & Hfo).
    rewrite (pick_nth (fun o' => to_obj o' c) (Err EIndex)), Hn, Hto. cbn [bind].
    eexists. split; [reflexivity|].
    cbn [ModelObj.from_obj assoc]. change (bytes_eqb str_selector str_selector) with true. change (bytes_eqb str_selector str_value) with false.
    change (bytes_eqb str_value str_value) with true. cbn iota. rewrite Hin, Hbs'.
    replace (N.to_nat (if b then N.of_nat sel - 1 else N.of_nat sel)) with i by (unfold i; destruct b; lia).
    rewrite (pick_nth (fun o' => from_obj o' ob) (Err EIndex)), Hn, Hfo. reflexivity.
  - apply andb_true_iff in Hwf as [Hb Hs0]. apply Nat.eqb_eq in Hs0. subst b sel.
    cbn [andb Nat.eqb bind] in Hm. inversion Hm; subst n0. cbn [N.of_nat andb N.eqb]. rewrite Hr.
    assert (bytes_eqb zero32 zero32 = true) as -> by apply bytes_eqb_refl'.
    eexists. split; [reflexivity|].
    cbn [ModelObj.from_obj assoc]. change (bytes_eqb str_selector str_selector) with true. change (bytes_eqb str_selector str_value) with false.
    change (bytes_eqb str_value str_value) with true. cbn iota. cbn [N.of_nat] in Hin. rewrite Hin. reflexivity.
Qed.

(* ---- the round trip, every type ---- *)
Theorem obj_roundtrip : forall t, wf_ty t = true -> fields_ok t = true -> obj_rt t.
Proof.
  induction t as [k| |nn|l|nn|l|e nn IHe|e l IHe|fs Hfs|b os Hos] using ty_ind'; intros Hty Hok.
  - now apply obj_rt_uint.
  - exact obj_rt_bool.
  - apply obj_rt_bits; [exact Hty|left; eauto].
  - apply obj_rt_bits; [exact Hty|right; eauto].
  - apply obj_rt_bytes; [exact Hty|left; eauto].
  - apply obj_rt_bytes; [exact Hty|right; eauto].
  - pose proof Hty as Hty0. cbn [wf_ty] in Hty. apply andb_true_iff in Hty as [Hty _]. apply andb_true_iff in Hty as [Hte _].
    apply (obj_rt_seq (TVector e nn) e); [left; eauto|exact Hty0|exact Hte|]. apply IHe; [exact Hte|exact Hok].
  - pose proof Hty as Hty0. cbn [wf_ty] in Hty. apply andb_true_iff in Hty as [Hte _].
    apply (obj_rt_seq (TList e l) e); [right; eauto|exact Hty0|exact Hte|]. apply IHe; [exact Hte|exact Hok].
  - cbn [fields_ok] in Hok. apply andb_true_iff in Hok as [Hb Hoks]. apply N.ltb_lt in Hb.
    apply obj_rt_container; [exact Hty|exact Hb|]. cbn [wf_ty] in Hty. apply andb_true_iff in Hty as [_ Htys].
    rewrite forallb_forall in Htys, Hoks. rewrite Forall_forall in *. intros f Hf. apply Hfs; auto.
  - apply obj_rt_union; [exact Hty|]. cbn [wf_ty] in Hty. apply andb_true_iff in Hty as [Hty _]. apply andb_true_iff in Hty as [Htys _].
    cbn [fields_ok] in Hok. rewrite forallb_forall in Htys, Hok. rewrite Forall_forall in *. intros f Hf. apply Hos; auto.
Qed.

(* export, optionally through a JSON dump / load, then import: the freshly constructed backing *)
Corollary obj_roundtrip_json t v n n0 : wf_ty t = true -> fields_ok t = true -> wf t v = true -> Repr t v n -> mk t v = Ok n0 ->
  exists o, to_obj t n = Ok o /\ from_obj t o = Ok n0 /\ from_obj t (json_rt o) = Ok n0 /\ root n0 = htr H t v.
Proof.
  intros Hty Hok Hwf Hr Hm. destruct (obj_roundtrip t Hty Hok v n n0 Hwf Hr Hm) as (o & Ho & Hf).
  exists o. split; [exact Ho|]. split; [exact Hf|]. split; [now rewrite from_obj_json|].
  destruct (mk_root H t v Hty Hwf) as (n' & Hn' & Hr'). rewrite Hm in Hn'. now inversion Hn'.
Qed.
End WithHash.
