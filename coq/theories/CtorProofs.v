(* CtorProofs.v — the constructors of the implementation model build backings whose root is the
   specification's hash-tree-root (C01_constructor), for every type expression and value. *)
Require Import RM.Base RM.Gindex RM.Tree RM.Types RM.Spec RM.ModelViews RM.SerLen RM.MerkleProofs RM.PackProofs.
From Coq Require Import ZifyBool ZifyNat ZifyN.
Ltac Zify.zify_post_hook ::= Z.to_euclidean_division_equations.
Local Open Scope N_scope.

Lemma pad32_full l : length l = 32%nat -> pad32 l = l.
Proof. intros E. unfold pad32, pad_to. rewrite E. cbn. apply app_nil_r. Qed.
Lemma le32_pad n : pad32 (le_bytes 32 n) = le_bytes 32 n.
Proof. apply pad32_full. apply le_bytes_length. Qed.
Lemma le32_zero : le_bytes 32 0 = zero32.
Proof. reflexivity. Qed.

Lemma uint_size_cases k : uint_size_ok k = true -> k = 1 \/ k = 2 \/ k = 4 \/ k = 8 \/ k = 16 \/ k = 32.
Proof.
  unfold uint_size_ok. rewrite !orb_true_iff, !N.eqb_eq. tauto.
Qed.

(* the implementation's chunk count for packed sequences is the specification's *)
Lemma chunk_len_eq s n : (s = 1 \/ s = 2 \/ s = 4 \/ s = 8 \/ s = 16 \/ s = 32) ->
  (n + elems_per_chunk s - 1) / elems_per_chunk s = (n * s + 31) / 32.
Proof.
  unfold elems_per_chunk. intros [->|[->|[->|[->|[->| ->]]]]]; cbn; lia.
Qed.

Lemma basic_size_ok e s : wf_ty e = true -> basic_size e = Some s ->
  s = 1 \/ s = 2 \/ s = 4 \/ s = 8 \/ s = 16 \/ s = 32.
Proof.
  destruct e; cbn; intros Hw E; inversion E; subst; [now apply uint_size_cases|now left].
Qed.

Lemma depth_eq t : wf_ty t = true -> contents_depth t = depth_of (chunk_count t).
Proof.
  destruct t; cbn [contents_depth chunk_count]; intros Hw; try (apply get_depth_eq); try reflexivity.
  - unfold to_chunk_length. destruct (basic_size t) as [s|] eqn:E; [|apply get_depth_eq].
    cbn [wf_ty] in Hw. apply andb_true_iff in Hw as [Hw _]. apply andb_true_iff in Hw as [Hw _].
    rewrite (chunk_len_eq s n (basic_size_ok t s Hw E)). apply get_depth_eq.
  - unfold to_chunk_length. destruct (basic_size t) as [s|] eqn:E; [|apply get_depth_eq].
    cbn [wf_ty] in Hw. apply andb_true_iff in Hw as [Hw _].
    rewrite (chunk_len_eq s limit (basic_size_ok t s Hw E)). apply get_depth_eq.
Qed.

Section WithHash.
Variable H : bytes -> bytes -> bytes.
Notation root := (root H).
Notation zero_hash := (zero_hash H).
Notation zero_node := (zero_node H).
Notation merkleize := (merkleize H).
Notation htr := (htr H).
Notation mk := (mk H).

Lemma map_root_RootN l : map root (map RootN l) = l.
Proof. rewrite map_map. cbn. apply map_id. Qed.

Lemma merkleize_nil d : merkleize d [] = zero_hash d.
Proof. unfold Spec.merkleize. apply mroot_zero. intros i _. now destruct i. Qed.

(* building a contents tree from chunks: its root is the merkleisation of the chunks *)
Lemma fill_chunks d (cs : list bytes) : (length cs <= 2 ^ d)%nat ->
  exists n, fill_to_contents H (map RootN cs) d = Ok n /\ root n = merkleize d cs.
Proof.
  intros Hle. destruct (fill_to_contents_root H d (map RootN cs)) as (n & Hf & Hr); [now rewrite map_length|].
  exists n. split; [exact Hf|]. now rewrite map_root_RootN in Hr.
Qed.

(* basic elements: coercion succeeds on well-formed values and yields the encoding *)
Lemma mk_basic_ser e s x : wf_ty e = true -> basic_size e = Some s -> wf e x = true ->
  exists n, mk_basic e x = Ok n /\ le_bytes (N.to_nat s) n = ser e x.
Proof.
  destruct e; cbn [basic_size]; intros Hw E Hx; inversion E; subst; destruct x; cbn [wf] in Hx; try discriminate.
  - cbn [mk_basic]. rewrite Hx. eexists; split; reflexivity.
  - exists (if b then 1 else 0). split; [reflexivity|]. destruct b; reflexivity.
Qed.

Lemma mk_basic_all e s vs : wf_ty e = true -> basic_size e = Some s -> forallb (wf e) vs = true ->
  exists ns, seq_res (map (mk_basic e) vs) = Ok ns /\ length ns = length vs /\
             map (le_bytes (N.to_nat s)) ns = map (ser e) vs.
Proof.
  intros Hw E. induction vs as [|x vs IH]; intros Hall.
  - exists []. repeat split.
  - cbn [forallb] in Hall. apply andb_true_iff in Hall as [Hx Hall].
    destruct (mk_basic_ser e s x Hw E Hx) as (n & Hn & Hs). destruct (IH Hall) as (ns & Hns & Hl & Hm).
    exists (n :: ns). cbn [map seq_res]. rewrite Hn, Hns. cbn [bind length map]. rewrite Hs, Hm, Hl. repeat split.
Qed.

Lemma ser_basic_length e s x : wf_ty e = true -> basic_size e = Some s -> wf e x = true ->
  length (ser e x) = N.to_nat s.
Proof.
  intros Hw E Hx. destruct (mk_basic_ser e s x Hw E Hx) as (n & _ & <-). apply le_bytes_length.
Qed.

Lemma concat_ser_length e s vs : wf_ty e = true -> basic_size e = Some s -> forallb (wf e) vs = true ->
  length (concat (map (ser e) vs)) = (length vs * N.to_nat s)%nat.
Proof.
  intros Hw E Hall. rewrite (concat_uniform_length (N.to_nat s)); [now rewrite map_length|].
  apply Forall_forall. intros b Hb. apply in_map_iff in Hb as (x & <- & Hx).
  apply (ser_basic_length e s x Hw E). rewrite forallb_forall in Hall. now apply Hall.
Qed.

Lemma is_basic_size e : is_basic e = match basic_size e with Some _ => true | None => false end.
Proof. reflexivity. Qed.

(* the packed contents of a sequence of basic elements *)
Lemma packed_contents e s vs d : wf_ty e = true -> basic_size e = Some s -> forallb (wf e) vs = true ->
  ((length vs * N.to_nat s + 31) / 32 <= 2 ^ d)%nat ->
  exists ns n, seq_res (map (mk_basic e) vs) = Ok ns /\
    fill_to_contents H (map RootN (pack_ints s ns)) d = Ok n /\
    root n = merkleize d (chunks (concat (map (ser e) vs))).
Proof.
  intros Hw E Hall Hfit. destruct (mk_basic_all e s vs Hw E Hall) as (ns & Hns & Hl & Hm).
  destruct (fill_chunks d (chunks (concat (map (ser e) vs)))) as (n & Hf & Hr).
  { rewrite chunks_length, (concat_ser_length e s vs Hw E Hall). exact Hfit. }
  exists ns, n. rewrite (pack_ints_chunks s ns (basic_size_ok e s Hw E)), Hm. auto.
Qed.

(* composite elements: one node per element *)
Lemma mk_all e vs : Forall (fun x => exists n, mk e x = Ok n /\ root n = htr e x) vs ->
  exists ns, seq_res (map (mk e) vs) = Ok ns /\ length ns = length vs /\ map root ns = map (htr e) vs.
Proof.
  induction 1 as [|x vs (n & Hn & Hr) Hvs (ns & Hns & Hl & Hm)].
  - exists []. repeat split.
  - exists (n :: ns). cbn [map seq_res]. rewrite Hn, Hns. cbn [bind length map]. rewrite Hr, Hm, Hl. repeat split.
Qed.

Lemma nat_le_of_N (a : nat) (b : N) d : N.of_nat a <= b -> (N.to_nat b <= 2 ^ d)%nat -> (a <= 2 ^ d)%nat.
Proof. lia. Qed.

Theorem mk_root : forall t v, wf_ty t = true -> wf t v = true ->
  exists n, mk t v = Ok n /\ root n = htr t v.
Proof.
  induction t as [k| |n|l|n|l|e n IHe|e l IHe|fs Hfs|b os Hos] using ty_ind'; intros v Hty Hwf;
    destruct v; cbn [wf] in Hwf; try discriminate.
  - (* uint *)
    cbn [ModelViews.mk mk_basic]. rewrite Hwf. cbn [bind]. eexists; split; [reflexivity|reflexivity].
  - (* bool *)
    cbn [ModelViews.mk mk_basic bind]. eexists; split; [reflexivity|]. destruct b; reflexivity.
  - (* bitvector *)
    cbn [ModelViews.mk]. rewrite Hwf. cbn [negb]. apply N.eqb_eq in Hwf.
    rewrite pack_bits_chunks. cbn [Spec.htr]. rewrite <- (depth_eq (TBitvector n) Hty).
    apply fill_chunks. rewrite chunks_length. pose proof (bits_to_bytes_lenN bs) as Hb. unfold lenN in Hb.
    cbn [contents_depth]. pose proof (get_depth_fits ((n + 255) / 256)). unfold lenN in Hwf. lia.
  - (* bitlist *)
    cbn [ModelViews.mk]. apply N.leb_le in Hwf. assert ((l <? lenN bs) = false) as -> by (apply N.ltb_ge; exact Hwf).
    rewrite pack_bits_chunks. cbn [Spec.htr]. rewrite <- (depth_eq (TBitlist l) Hty).
    destruct (fill_chunks (contents_depth (TBitlist l)) (chunks (bits_to_bytes bs))) as (c & Hc & Hr).
    { rewrite chunks_length. pose proof (bits_to_bytes_lenN bs) as Hb. unfold lenN in Hb.
      cbn [contents_depth]. pose proof (get_depth_fits ((l + 255) / 256)). unfold lenN in Hwf. lia. }
    rewrite Hc. cbn [bind]. eexists; split; [reflexivity|].
    cbn [Tree.root len_node]. rewrite Hr, le32_pad. reflexivity.
  - (* bytevector *)
    cbn [ModelViews.mk]. rewrite Hwf. cbn [negb]. apply N.eqb_eq in Hwf.
    rewrite pack_bytes_chunks. cbn [Spec.htr]. rewrite <- (depth_eq (TByteVector n) Hty).
    apply fill_chunks. rewrite chunks_length.
    cbn [contents_depth]. pose proof (get_depth_fits ((n + 31) / 32)). unfold lenN in Hwf. lia.
  - (* bytelist *)
    cbn [ModelViews.mk]. apply N.leb_le in Hwf. assert ((l <? lenN bs) = false) as -> by (apply N.ltb_ge; exact Hwf).
    rewrite pack_bytes_chunks. cbn [Spec.htr]. rewrite <- (depth_eq (TByteList l) Hty).
    destruct (fill_chunks (contents_depth (TByteList l)) (chunks bs)) as (c & Hc & Hr).
    { rewrite chunks_length. cbn [contents_depth]. pose proof (get_depth_fits ((l + 31) / 32)). unfold lenN in Hwf. lia. }
    rewrite Hc. cbn [bind]. eexists; split; [reflexivity|].
    cbn [Tree.root len_node]. rewrite Hr, le32_pad. reflexivity.
  - (* vector *)
    apply andb_true_iff in Hwf as [Hn Hall]. pose proof Hty as Hty0.
    cbn [wf_ty] in Hty. apply andb_true_iff in Hty as [Hty Hnb]. apply andb_true_iff in Hty as [Hte Hn1].
    apply N.leb_le in Hn1. pose proof Hn as Hn'. apply N.eqb_eq in Hn'.
    cbn [ModelViews.mk]. destruct vs as [|x0 vs0] eqn:Evs; [unfold lenN in Hn'; cbn in Hn'; lia|]. rewrite <- Evs in *.
    rewrite Hn. cbn [negb]. cbn [Spec.htr]. rewrite <- (depth_eq (TVector e n) Hty0).
    rewrite is_basic_size. destruct (basic_size e) as [s|] eqn:E.
    + destruct (packed_contents e s vs (contents_depth (TVector e n)) Hte E Hall) as (ns & nd & Hns & Hf & Hr).
      { cbn [contents_depth]. unfold to_chunk_length. rewrite E.
        rewrite (chunk_len_eq s n (basic_size_ok e s Hte E)).
        pose proof (get_depth_fits ((n * s + 31) / 32)). unfold lenN in Hn'. lia. }
      rewrite Hns. cbn [bind]. rewrite Hf. eexists; split; [reflexivity|exact Hr].
    + assert (Forall (fun x => exists n0, mk e x = Ok n0 /\ root n0 = htr e x) vs) as HF.
      { apply Forall_forall. intros x Hx. apply IHe; [exact Hte|]. rewrite forallb_forall in Hall. now apply Hall. }
      destruct (mk_all e vs HF) as (ns & Hns & Hl & Hm). rewrite Hns. cbn [bind].
      destruct (fill_to_contents_root H (contents_depth (TVector e n)) ns) as (nd & Hf & Hr).
      { rewrite Hl. cbn [contents_depth]. unfold to_chunk_length. rewrite E.
        pose proof (get_depth_fits n). unfold lenN in Hn'. lia. }
      rewrite Hf. eexists; split; [reflexivity|]. now rewrite Hr, Hm.
  - (* list *)
    apply andb_true_iff in Hwf as [Hn Hall]. pose proof Hty as Hty0.
    cbn [wf_ty] in Hty. apply andb_true_iff in Hty as [Hte Hnb]. apply N.leb_le in Hn.
    cbn [Spec.htr]. rewrite <- (depth_eq (TList e l) Hty0). rewrite is_basic_size.
    cbn [ModelViews.mk]. destruct vs as [|x0 vs0] eqn:Evs.
    + (* empty list: the default backing *)
      cbn [default_node]. eexists; split; [reflexivity|]. cbn [Tree.root Tree.zero_node map concat].
      destruct (basic_size e); cbn [chunks chunks_fuel length map]; rewrite merkleize_nil; reflexivity.
    + rewrite <- Evs in *. assert ((l <? lenN vs) = false) as -> by (apply N.ltb_ge; exact Hn).
      destruct (basic_size e) as [s|] eqn:E.
      * destruct (packed_contents e s vs (contents_depth (TList e l)) Hte E Hall) as (ns & nd & Hns & Hf & Hr).
        { cbn [contents_depth]. unfold to_chunk_length. rewrite E.
          rewrite (chunk_len_eq s l (basic_size_ok e s Hte E)).
          pose proof (get_depth_fits ((l * s + 31) / 32)). unfold lenN in Hn.
          pose proof (basic_size_ok e s Hte E) as Hs. nia. }
        rewrite Hns. cbn [bind]. rewrite Hf. cbn [bind]. eexists; split; [reflexivity|].
        cbn [Tree.root len_node]. rewrite Hr, le32_pad. reflexivity.
      * assert (Forall (fun x => exists n0, mk e x = Ok n0 /\ root n0 = htr e x) vs) as HF.
        { apply Forall_forall. intros x Hx. apply IHe; [exact Hte|]. rewrite forallb_forall in Hall. now apply Hall. }
        destruct (mk_all e vs HF) as (ns & Hns & Hl & Hm). rewrite Hns. cbn [bind].
        destruct (fill_to_contents_root H (contents_depth (TList e l)) ns) as (nd & Hf & Hr).
        { rewrite Hl. cbn [contents_depth]. unfold to_chunk_length. rewrite E.
          pose proof (get_depth_fits l). unfold lenN in Hn. lia. }
        rewrite Hf. cbn [bind]. eexists; split; [reflexivity|].
        cbn [Tree.root len_node]. rewrite Hr, Hm, le32_pad. reflexivity.
  - (* container *)
    pose proof Hty as Hty0. cbn [wf_ty] in Hty. apply andb_true_iff in Hty as [_ Htys].
    cbn [ModelViews.mk Spec.htr]. rewrite <- (depth_eq (TContainer fs) Hty0).
    assert (exists ns,
      (fix go (fs : list ty) (vs : list val) : result (list node) :=
         match fs, vs with
         | [], [] => Ok []
         | f :: fs', x :: vs' => do a <- mk f x; do r <- go fs' vs'; Ok (a :: r)
         | _, _ => Err EAttr
         end) fs vs = Ok ns /\ length ns = length fs /\
      map root ns = (fix go (fs : list ty) (vs : list val) : list bytes :=
         match fs, vs with
         | f :: fs', x :: vs' => htr f x :: go fs' vs'
         | _, _ => []
         end) fs vs) as (ns & Hns & Hl & Hm).
    { clear Hty0. revert vs Hwf. induction Hfs as [|f fs Hf Hfs' IH]; intros vs Hwf.
      - destruct vs; [|discriminate]. exists []. repeat split.
      - destruct vs as [|x vs]; [discriminate|]. apply andb_true_iff in Hwf as [Hx Hrest].
        cbn [forallb] in Htys. apply andb_true_iff in Htys as [Htf Htys].
        destruct (Hf x Htf Hx) as (n & Hn & Hr). destruct (IH Htys vs Hrest) as (ns & Hns & Hl & Hm).
        exists (n :: ns). rewrite Hn. cbn [bind]. rewrite Hns. cbn [bind length map]. rewrite Hr, Hm, Hl. repeat split. }
    rewrite Hns. cbn [bind].
    destruct (fill_to_contents_root H (contents_depth (TContainer fs)) ns) as (nd & Hf & Hr).
    { rewrite Hl. cbn [contents_depth]. pose proof (get_depth_fits (lenN fs)). unfold lenN in *. lia. }
    rewrite Hf. eexists; split; [reflexivity|]. now rewrite Hr, Hm.
  - (* union *)
    cbn [wf_ty] in Hty. apply andb_true_iff in Hty as [Hty Hcount]. apply andb_true_iff in Hty as [Htys Hne].
    cbn [ModelViews.mk Spec.htr].
    destruct v as [x|].
    + apply andb_true_iff in Hwf as [Hsel Hpick].
      assert (forall i,
                (fix pick (os : list ty) (i : nat) : bool :=
                   match os, i with o :: _, O => wf o x | _ :: os', S i' => pick os' i' | [], _ => false end) os i = true ->
                exists n, (fix pick (os : list ty) (i : nat) : result node :=
                           match os, i with
                           | o :: _, O => mk o x
                           | _ :: os', S i' => pick os' i'
                           | [], _ => Err EIndex
                           end) os i = Ok n /\
                        root n = (fix pick (os : list ty) (i : nat) : bytes :=
                           match os, i with
                           | o :: _, O => htr o x
                           | _ :: os', S i' => pick os' i'
                           | [], _ => zero32
                           end) os i /\ (i < length os)%nat) as Hgen.
      { clear Hne Hcount Hsel Hpick. induction Hos as [|o os Ho Hos' IH]; intros i Hpick.
        - destruct i; discriminate.
        - cbn [forallb] in Htys. apply andb_true_iff in Htys as [Hto Htys].
          destruct i as [|i].
          + destruct (Ho x Hto Hpick) as (n & Hn & Hr). exists n. cbn [length]. repeat split; auto; lia.
          + destruct (IH Htys i Hpick) as (n & Hn & Hr & Hi). exists n. cbn [length]. repeat split; auto; lia. }
      destruct (Hgen _ Hpick) as (n & Hn & Hr & Hi).
      assert ((lenN os + (if b then 1 else 0) <=? N.of_nat sel) = false) as ->.
      { apply N.leb_gt. unfold lenN. destruct b; cbn [negb] in Hsel.
        - destruct sel; [discriminate|]. cbn [pred] in Hi. lia.
        - lia. }
      assert ((b && (sel =? 0)%nat) = false) as ->.
      { destruct b; [|reflexivity]. cbn [andb]. destruct sel; [discriminate|reflexivity]. }
      rewrite Hn. cbn [bind]. eexists; split; [reflexivity|].
      cbn [Tree.root len_node]. rewrite Hr, le32_pad. reflexivity.
    + apply andb_true_iff in Hwf as [Hb Hsel]. apply Nat.eqb_eq in Hsel. subst b sel.
      assert ((lenN os + 1 <=? N.of_nat 0) = false) as -> by (apply N.leb_gt; lia).
      cbn [andb Nat.eqb bind]. eexists; split; [reflexivity|].
      cbn [Tree.root len_node Tree.zero_node Tree.zero_hash]. rewrite le32_pad. reflexivity.
Qed.

End WithHash.
