(* RootInj.v — C15: with a collision-free pair hash the hash-tree-root determines the value (htr_inj): data packing, merkleisation over the type-determined shape, and the length / selector mix-ins are all injective. *)
Require Import RM.Base RM.Gindex RM.Tree RM.TreeProofs RM.Types RM.Spec RM.ModelViews RM.ModelCodec RM.SerLen RM.FactsProofs
               RM.MerkleProofs RM.PackProofs RM.CtorProofs RM.ListProofs RM.ChunkProofs RM.BitProofs RM.ModelHistory RM.HistoryProofs.
From Coq Require Import ZifyBool ZifyNat ZifyN.
Local Open Scope N_scope.
(* ---- data packing is injective ---- *)
Lemma bits_byte_inv (t : list bool) : (length t <= 8)%nat -> firstn (length t) (bits_of_byte (bits_byte t)) = t.
Proof.
  intros Hl.
  destruct t as [|b0 t]; [reflexivity|]. destruct t as [|b1 t]; [destruct b0; reflexivity|].
  destruct t as [|b2 t]; [destruct b0, b1; reflexivity|]. destruct t as [|b3 t]; [destruct b0, b1, b2; reflexivity|].
  destruct t as [|b4 t]; [destruct b0, b1, b2, b3; reflexivity|]. destruct t as [|b5 t]; [destruct b0, b1, b2, b3, b4; reflexivity|].
  destruct t as [|b6 t]; [destruct b0, b1, b2, b3, b4, b5; reflexivity|]. destruct t as [|b7 t]; [destruct b0, b1, b2, b3, b4, b5, b6; reflexivity|].
  destruct t as [|b8 t]; [destruct b0, b1, b2, b3, b4, b5, b6, b7; reflexivity|]. cbn in Hl. lia.
Qed.

Lemma bits_byte_inj t t' : length t = length t' -> (length t <= 8)%nat -> bits_byte t = bits_byte t' -> t = t'.
Proof. intros Hl H8 E. rewrite <- (bits_byte_inv t H8), <- (bits_byte_inv t') by lia. now rewrite E, Hl. Qed.

Lemma bits_fuel_inj : forall f bs bs', length bs = length bs' -> (length bs <= f)%nat ->
  bits_to_bytes_fuel f bs = bits_to_bytes_fuel f bs' -> bs = bs'.
Proof.
  induction f as [|f IH]; intros bs bs' Hl Hf E.
  - destruct bs; [|cbn in Hf; lia]. destruct bs'; [reflexivity|discriminate].
  - destruct bs as [|b bs]; [destruct bs'; [reflexivity|discriminate]|]. destruct bs' as [|b' bs']; [discriminate|].
    cbn [bits_to_bytes_fuel] in E. inversion E as [[E1 E2]].
    rewrite <- (firstn_skipn 8 (b :: bs)), <- (firstn_skipn 8 (b' :: bs')). f_equal.
    + apply bits_byte_inj; [rewrite !firstn_length; lia|rewrite firstn_length; lia|exact E1].
    + apply IH; [rewrite !skipn_length; lia|rewrite skipn_length; cbn [length] in *; lia|exact E2].
Qed.
Lemma bits_to_bytes_inj bs bs' : length bs = length bs' -> bits_to_bytes bs = bits_to_bytes bs' -> bs = bs'.
Proof. intros Hl E. unfold bits_to_bytes in E. rewrite <- Hl in E. now apply (bits_fuel_inj (length bs)). Qed.

Lemma firstn_app_exact {A} (l z : list A) : firstn (length l) (l ++ z) = l.
Proof. rewrite firstn_app, Nat.sub_diag, firstn_O, firstn_all, app_nil_r. reflexivity. Qed.
Lemma chunks_inj bs bs' : length bs = length bs' -> chunks bs = chunks bs' -> bs = bs'.
Proof.
  intros Hl E. destruct (concat_chunks bs) as (z & Hz). destruct (concat_chunks bs') as (z' & Hz'). rewrite E in Hz. rewrite Hz' in Hz.
  rewrite <- (firstn_app_exact bs z), <- Hz, Hl. apply firstn_app_exact.
Qed.
Section WithHash.
Variable H : bytes -> bytes -> bytes.
Hypothesis Hi : Hinj H.
Notation merkleize := (merkleize H).
Notation htr := (htr H).

Lemma mroot_inj : forall d f g off, mroot H d f off = mroot H d g off -> forall i, (i < 2 ^ d)%nat -> f (off + i)%nat = g (off + i)%nat.
Proof.
  induction d as [|d IH]; intros f g off E i Hlt.
  - cbn in *. assert (i = 0)%nat as -> by lia. now rewrite Nat.add_0_r.
  - cbn [mroot] in E. apply Hi in E as [E1 E2]. cbn [Nat.pow] in Hlt. destruct (Nat.lt_ge_cases i (2 ^ d)) as [Hl|Hg].
    + now apply IH.
    + replace (off + i)%nat with (off + 2 ^ d + (i - 2 ^ d))%nat by lia. apply IH; [exact E2|lia].
Qed.

Lemma merkleize_inj d l l' : length l = length l' -> (length l <= 2 ^ d)%nat -> merkleize d l = merkleize d l' -> l = l'.
Proof.
  intros Hl Hd E. apply (nth_ext _ _ zero32 zero32 Hl). intros i Hlt.
  exact (mroot_inj d _ _ 0%nat E i ltac:(lia)).
Qed.

Lemma ser_basic_inj e s x y : wf_ty e = true -> basic_size e = Some s -> wf e x = true -> wf e y = true -> ser e x = ser e y -> x = y.
Proof.
  intros Hty Eb Hx Hy E. destruct e; cbn [basic_size] in Eb; try discriminate.
  - destruct x; cbn [wf] in Hx; try discriminate. destruct y; cbn [wf] in Hy; try discriminate. cbn [ser] in E.
    apply N.ltb_lt in Hx, Hy. f_equal.
    assert (2 ^ (8 * nbytes) = 256 ^ N.of_nat (N.to_nat nbytes)) as Ep.
    { rewrite N2Nat.id. change 256 with (2 ^ 8). rewrite <- N.pow_mul_r. reflexivity. }
    rewrite <- (le_val_le_bytes (N.to_nat nbytes) n) by lia. rewrite <- (le_val_le_bytes (N.to_nat nbytes) n0) by lia. now rewrite E.
  - destruct x; cbn [wf] in Hx; try discriminate. destruct y; cbn [wf] in Hy; try discriminate. cbn [ser] in E.
    destruct b, b0; try reflexivity; discriminate.
Qed.

Lemma concat_inj_uniform {A} (s : nat) : (0 < s)%nat -> forall (ls ls' : list (list A)),
  Forall (fun l => length l = s) ls -> Forall (fun l => length l = s) ls' -> concat ls = concat ls' -> ls = ls'.
Proof.
  intros Hs. induction ls as [|l ls IH]; intros ls' Hf Hf' E.
  - destruct ls' as [|l' ls']; [reflexivity|]. pose proof (Forall_inv Hf') as Hl'. cbn in E.
    destruct l'; [cbn in Hl'; lia|discriminate].
  - destruct ls' as [|l' ls'].
    + pose proof (Forall_inv Hf) as Hl. cbn in E. destruct l; [cbn in Hl; lia|discriminate].
    + pose proof (Forall_inv Hf) as Hl. pose proof (Forall_inv Hf') as Hl'. pose proof (Forall_inv_tail Hf) as Hf1. pose proof (Forall_inv_tail Hf') as Hf1'.
      cbn [concat] in E.
      assert (l = l') as ->.
      { pose proof (f_equal (firstn (length l)) E) as E1. rewrite firstn_app_exact in E1. rewrite Hl, <- Hl' in E1. rewrite firstn_app_exact in E1. exact E1. }
      f_equal. apply IH; auto. now apply app_inv_head in E.
Qed.

Lemma packed_inj e s vs ws : wf_ty e = true -> basic_size e = Some s -> forallb (wf e) vs = true -> forallb (wf e) ws = true ->
  concat (map (ser e) vs) = concat (map (ser e) ws) -> vs = ws.
Proof.
  intros Hty Eb Hv Hw E.
  pose proof (basic_size_ok e s Hty Eb) as Hs.
  assert (map (ser e) vs = map (ser e) ws) as Em.
  { apply (concat_inj_uniform (N.to_nat s)); [lia| | |exact E]; apply Forall_forall; intros l Hl; apply in_map_iff in Hl as (x & <- & Hx);
      apply (ser_basic_length e s x Hty Eb); rewrite forallb_forall in *; auto. }
  clear E. revert ws Hw Em. induction vs as [|x vs IH]; intros [|y ws] Hw Em; try discriminate; [reflexivity|].
  cbn [forallb] in Hv, Hw. apply andb_true_iff in Hv as [Hx Hv]. apply andb_true_iff in Hw as [Hy Hw]. cbn [map] in Em. inversion Em as [[E1 E2]].
  f_equal; [now apply (ser_basic_inj e s)|now apply IH].
Qed.

Lemma pad32_inj bs bs' : length bs = length bs' -> pad32 bs = pad32 bs' -> bs = bs'.
Proof.
  intros Hl E. unfold pad32, pad_to in E. rewrite <- (firstn_app_exact bs (zero_bytes (32 - length bs))), E, Hl. apply firstn_app_exact.
Qed.

Lemma mix_in_inj r r' n n' : n < 2 ^ 256 -> n' < 2 ^ 256 -> mix_in H r n = mix_in H r' n' -> r = r' /\ n = n'.
Proof.
  intros Hn Hn' E. unfold mix_in in E. apply Hi in E as [Er El]. split; [exact Er|].
  rewrite <- (le_val_le_bytes 32 n), <- (le_val_le_bytes 32 n') by (change (256 ^ N.of_nat 32) with (2 ^ 256); lia). now rewrite El.
Qed.

Lemma depth_fits t : wf_ty t = true -> (N.to_nat (chunk_count t) <= 2 ^ depth_of (chunk_count t))%nat.
Proof.
  intros Hty. rewrite <- (depth_eq t Hty). destruct t; cbn [contents_depth chunk_count]; try apply get_depth_fits; try (cbn; lia).
  - unfold to_chunk_length. destruct (basic_size t) as [s|] eqn:E; [|apply get_depth_fits].
    cbn [wf_ty] in Hty. apply andb_true_iff in Hty as [Hw _]. apply andb_true_iff in Hw as [Hw _].
    rewrite (chunk_len_eq s n (basic_size_ok t s Hw E)). apply get_depth_fits.
  - unfold to_chunk_length. destruct (basic_size t) as [s|] eqn:E; [|apply get_depth_fits].
    cbn [wf_ty] in Hty. apply andb_true_iff in Hty as [Hw _].
    rewrite (chunk_len_eq s limit (basic_size_ok t s Hw E)). apply get_depth_fits.
Qed.

Lemma pick_nth_l {A : Type} (F : ty -> A) (dflt : A) : forall os i,
  (fix pick (os : list ty) (i : nat) : A :=
     match os, i with o :: _, O => F o | _ :: os', S i' => pick os' i' | [], _ => dflt end) os i
  = match nth_error os i with Some o => F o | None => dflt end.
Proof. induction os as [|o os IH]; intros [|i]; cbn; auto. Qed.

(* C15: with a collision-free pair hash, equal hash-tree-roots mean equal contents *)
Theorem htr_inj : forall t v w, wf_ty t = true -> wf t v = true -> wf t w = true -> htr t v = htr t w -> v = w.
Proof.
  induction t as [k| |bn|bl|yn|yl|e n IHe|e l IHe|fs Hfs|b os Hos] using ty_ind'; intros v w Hty Hv Hw E;
    pose proof (depth_fits _ Hty) as Hfit.
  - (* uint *) apply (ser_basic_inj (TUint k) k v w Hty eq_refl Hv Hw). cbn [Spec.htr] in E. apply pad32_inj; [|exact E].
    rewrite (ser_basic_length (TUint k) k v Hty eq_refl Hv), (ser_basic_length (TUint k) k w Hty eq_refl Hw). reflexivity.
  - apply (ser_basic_inj TBool 1 v w Hty eq_refl Hv Hw). cbn [Spec.htr] in E. apply pad32_inj; [|exact E].
    rewrite (ser_basic_length TBool 1 v Hty eq_refl Hv), (ser_basic_length TBool 1 w Hty eq_refl Hw). reflexivity.
  - (* bitvector *)
    destruct v as [| |bs| | | |]; cbn [wf] in Hv; try discriminate. destruct w as [| |bs'| | | |]; cbn [wf] in Hw; try discriminate.
    apply N.eqb_eq in Hv, Hw. cbn [Spec.htr] in E. f_equal.
    assert (length bs = length bs') as Hl by (unfold lenN in *; lia).
    apply bits_to_bytes_inj; [exact Hl|]. 
    pose proof (bits_to_bytes_lenN bs) as Hb. pose proof (bits_to_bytes_lenN bs') as Hb'. unfold lenN in Hb, Hb'.
    apply chunks_inj; [lia|]. apply merkleize_inj in E; [exact E|rewrite !chunks_length; lia|].
    rewrite chunks_length. set (d := depth_of _) in *. cbn [chunk_count] in Hfit. unfold lenN in *. lia.
  - (* bitlist *)
    destruct v as [| |bs| | | |]; cbn [wf] in Hv; try discriminate. destruct w as [| |bs'| | | |]; cbn [wf] in Hw; try discriminate.
    apply N.leb_le in Hv, Hw. cbn [Spec.htr] in E. cbn [wf_ty] in Hty. apply N.ltb_lt in Hty. unfold LIMIT_BOUND in Hty.
    apply mix_in_inj in E as [E El]; [|lia|lia]. f_equal.
    assert (length bs = length bs') as Hl by (unfold lenN in *; lia).
    apply bits_to_bytes_inj; [exact Hl|].
    pose proof (bits_to_bytes_lenN bs) as Hb. pose proof (bits_to_bytes_lenN bs') as Hb'. unfold lenN in Hb, Hb'.
    apply chunks_inj; [lia|]. apply merkleize_inj in E; [exact E|rewrite !chunks_length; lia|].
    rewrite chunks_length. set (d := depth_of _) in *. cbn [chunk_count] in Hfit. unfold lenN in *. lia.
  - (* bytevector *)
    destruct v as [| | |bs| | |]; cbn [wf] in Hv; try discriminate. destruct w as [| | |bs'| | |]; cbn [wf] in Hw; try discriminate.
    apply N.eqb_eq in Hv, Hw. cbn [Spec.htr] in E. f_equal.
    assert (length bs = length bs') as Hl by (unfold lenN in *; lia).
    apply chunks_inj; [lia|]. apply merkleize_inj in E; [exact E|rewrite !chunks_length; lia|].
    rewrite chunks_length. set (d := depth_of _) in *. cbn [chunk_count] in Hfit. unfold lenN in *. lia.
  - (* bytelist *)
    destruct v as [| | |bs| | |]; cbn [wf] in Hv; try discriminate. destruct w as [| | |bs'| | |]; cbn [wf] in Hw; try discriminate.
    apply N.leb_le in Hv, Hw. cbn [Spec.htr] in E. cbn [wf_ty] in Hty. apply N.ltb_lt in Hty. unfold LIMIT_BOUND in Hty.
    apply mix_in_inj in E as [E El]; [|lia|lia]. f_equal.
    assert (length bs = length bs') as Hl by (unfold lenN in *; lia).
    apply chunks_inj; [lia|]. apply merkleize_inj in E; [exact E|rewrite !chunks_length; lia|].
    rewrite chunks_length. set (d := depth_of _) in *. cbn [chunk_count] in Hfit. unfold lenN in *. lia.
  - (* vector *)
    destruct v as [| | | |vs| |]; cbn [wf] in Hv; try discriminate. destruct w as [| | | |ws| |]; cbn [wf] in Hw; try discriminate.
    apply andb_true_iff in Hv as [Hnv Hav]. apply andb_true_iff in Hw as [Hnw Haw]. apply N.eqb_eq in Hnv, Hnw.
    pose proof Hty as Hty0. cbn [wf_ty] in Hty. apply andb_true_iff in Hty as [Hty' Hnb]. apply andb_true_iff in Hty' as [Hte Hn1].
    cbn [Spec.htr] in E. rewrite is_basic_size in E. f_equal. set (d := depth_of _) in *. cbn [chunk_count] in Hfit.
    destruct (basic_size e) as [s|] eqn:Eb.
    + apply (packed_inj e s vs ws Hte Eb Hav Haw).
      pose proof (concat_ser_length e s vs Hte Eb Hav) as Lv. pose proof (concat_ser_length e s ws Hte Eb Haw) as Lw.
      apply chunks_inj; [unfold lenN in *; nia|]. apply merkleize_inj in E; [exact E|rewrite !chunks_length; unfold lenN in *; nia|].
      rewrite chunks_length, Lv. pose proof (basic_size_ok e s Hte Eb) as Hs. unfold lenN in *.
      assert ((length vs * N.to_nat s + 31) / 32 = N.to_nat ((n * s + 31) / 32))%nat as -> by (subst n; zify; rewrite ?Z2Nat.id; lia).
      exact Hfit.
    + apply merkleize_inj in E; [|rewrite !map_length; unfold lenN in *; lia|rewrite map_length; unfold lenN in *; lia].
      clear -E Hav Haw IHe Hte. revert ws Haw E. induction vs as [|x vs IH]; intros [|y ws] Haw E; try discriminate; [reflexivity|].
      cbn [forallb] in Hav, Haw. apply andb_true_iff in Hav as [Hx Hav]. apply andb_true_iff in Haw as [Hy Haw]. cbn [map] in E. inversion E as [[E1 E2]].
      f_equal; [now apply IHe|now apply IH].
  - (* list *)
    destruct v as [| | | |vs| |]; cbn [wf] in Hv; try discriminate. destruct w as [| | | |ws| |]; cbn [wf] in Hw; try discriminate.
    apply andb_true_iff in Hv as [Hnv Hav]. apply andb_true_iff in Hw as [Hnw Haw]. apply N.leb_le in Hnv, Hnw.
    pose proof Hty as Hty0. cbn [wf_ty] in Hty. apply andb_true_iff in Hty as [Hte Hlb]. apply N.ltb_lt in Hlb. unfold LIMIT_BOUND in Hlb.
    cbn [Spec.htr] in E. rewrite is_basic_size in E. apply mix_in_inj in E as [E El]; [|lia|lia]. f_equal.
    set (d := depth_of _) in *. cbn [chunk_count] in Hfit.
    destruct (basic_size e) as [s|] eqn:Eb.
    + apply (packed_inj e s vs ws Hte Eb Hav Haw).
      pose proof (concat_ser_length e s vs Hte Eb Hav) as Lv. pose proof (concat_ser_length e s ws Hte Eb Haw) as Lw.
      apply chunks_inj; [unfold lenN in *; nia|]. apply merkleize_inj in E; [exact E|rewrite !chunks_length; unfold lenN in *; nia|].
      rewrite chunks_length, Lv. pose proof (basic_size_ok e s Hte Eb) as Hs. unfold lenN in *.
      assert ((length vs * N.to_nat s + 31) / 32 <= N.to_nat ((l * s + 31) / 32))%nat as Hle.
      { assert (N.of_nat ((length vs * N.to_nat s + 31) / 32) <= (l * s + 31) / 32) as Hn; [|lia].
        rewrite Nat2N.inj_div, Nat2N.inj_add, Nat2N.inj_mul, N2Nat.id. apply N.div_le_mono; [lia|]. nia. }
      lia.
    + apply merkleize_inj in E; [|rewrite !map_length; unfold lenN in *; lia|rewrite map_length; unfold lenN in *; lia].
      clear -E Hav Haw IHe Hte. revert ws Haw E. induction vs as [|x vs IH]; intros [|y ws] Haw E; try discriminate; [reflexivity|].
      cbn [forallb] in Hav, Haw. apply andb_true_iff in Hav as [Hx Hav]. apply andb_true_iff in Haw as [Hy Haw]. cbn [map] in E. inversion E as [[E1 E2]].
      f_equal; [now apply IHe|now apply IH].
  - (* container *)
    destruct v as [| | | | |vs|]; cbn [wf] in Hv; try discriminate. destruct w as [| | | | |ws|]; cbn [wf] in Hw; try discriminate.
    cbn [wf_ty] in Hty. apply andb_true_iff in Hty as [_ Htys].
    cbn [Spec.htr] in E. set (d := depth_of _) in *. cbn [chunk_count] in Hfit. f_equal.
    set (hl := fix go (fs : list ty) (vs : list val) : list bytes :=
                 match fs, vs with f :: fs', x :: vs' => htr f x :: go fs' vs' | _, _ => [] end) in *.
    set (wfl := fix go (fs : list ty) (vs : list val) : bool :=
                 match fs, vs with [], [] => true | f :: fs', x :: vs' => wf f x && go fs' vs' | _, _ => false end) in *.
    assert (forall fs vs, wfl fs vs = true -> length (hl fs vs) = length fs) as Hlen.
    { clear. induction fs as [|f fs IH]; intros [|x vs] Hw; try discriminate; [reflexivity|]. cbn in Hw. apply andb_true_iff in Hw as [_ Hw]. cbn. f_equal. now apply IH. }
    apply merkleize_inj in E; [|rewrite !Hlen; auto|rewrite Hlen by auto; unfold lenN in *; lia].
    clear Hfit d. revert vs ws Hv Hw E. induction Hfs as [|f fs Hf Hfs' IH]; intros vs ws Hv Hw E.
    + destruct vs; [|discriminate]. destruct ws; [reflexivity|discriminate].
    + destruct vs as [|x vs]; [discriminate|]. destruct ws as [|y ws]; [discriminate|].
      cbn [forallb] in Htys. apply andb_true_iff in Htys as [Htf Htys].
      cbn in Hv, Hw. apply andb_true_iff in Hv as [Hx Hv]. apply andb_true_iff in Hw as [Hy Hw]. cbn in E. inversion E as [[E1 E2]].
      f_equal; [now apply Hf|now apply IH].
  - (* union *)
    destruct v as [| | | | | |sel ov]; cbn [wf] in Hv; try discriminate. destruct w as [| | | | | |sel' ow]; cbn [wf] in Hw; try discriminate.
    cbn [wf_ty] in Hty. apply andb_true_iff in Hty as [Hty' Hcount]. apply andb_true_iff in Hty' as [Htys Hne]. apply N.leb_le in Hcount.
    cbn [Spec.htr] in E.
    assert (forall sel ov, wf (TUnion b os) (VUnion sel ov) = true -> N.of_nat sel < 2 ^ 256) as Hsel.
    { clear -Hcount. intros sel ov Hwf. cbn [wf] in Hwf. destruct ov as [x|].
      - apply andb_true_iff in Hwf as [_ Hp]. rewrite pick_nth_l in Hp. destruct (nth_error os _) eqn:Hn; [|discriminate].
        assert ((if b then Init.Nat.pred sel else sel) < length os)%nat by (apply nth_error_Some; congruence).
        assert (2 ^ 8 <= 2 ^ 256) by (apply N.pow_le_mono_r; lia). unfold lenN in *. destruct b; lia.
      - apply andb_true_iff in Hwf as [_ H0]. apply Nat.eqb_eq in H0. subst. cbn. lia. }
    pose proof (Hsel sel ov ltac:(exact Hv)) as Hs1. pose proof (Hsel sel' ow ltac:(exact Hw)) as Hs2.
    apply mix_in_inj in E as [E El]; [|exact Hs1|exact Hs2]. apply Nat2N.inj in El. subst sel'.
    destruct ov as [x|]; destruct ow as [y|].
    + apply andb_true_iff in Hv as [_ Hpx]. apply andb_true_iff in Hw as [_ Hpy]. rewrite pick_nth_l in Hpx, Hpy. rewrite !(pick_nth_l (fun o => htr o _)) in E.
      destruct (nth_error os (if b then Init.Nat.pred sel else sel)) as [o|] eqn:Hn; [|discriminate].
      f_equal. f_equal. rewrite Forall_forall in Hos. apply (Hos o); auto; [eapply nth_error_In; eauto|].
      rewrite forallb_forall in Htys. apply Htys. eapply nth_error_In; eauto.
    + exfalso. apply andb_true_iff in Hv as [Hsx _]. apply andb_true_iff in Hw as [Hb H0]. subst b. rewrite H0 in Hsx. discriminate.
    + exfalso. apply andb_true_iff in Hw as [Hsx _]. apply andb_true_iff in Hv as [Hb H0]. subst b. rewrite H0 in Hsx. discriminate.
    + reflexivity.
Qed.
End WithHash.
