(* CodecBasicProofs.v — encode / decode of the leaf kinds of the implementation model against the
   specification: uintN, boolean, ByteVector, ByteList (C02, C03, C09, C10), and the hex / JSON
   helpers of object export (C16). *)
Require Import RM.Base RM.Gindex RM.Tree RM.Types RM.Spec RM.ModelViews RM.ModelCodec RM.ModelObj
               RM.SerLen RM.MerkleProofs RM.PackProofs RM.CtorProofs RM.ListProofs.
From Coq Require Import ZifyBool ZifyNat ZifyN.
Local Open Scope N_scope.

Lemma firstn_pad32 bs : (length bs <= 32)%nat -> firstn (length bs) (pad32 bs) = bs.
Proof. intros _. unfold pad32, pad_to. rewrite firstn_app, Nat.sub_diag, firstn_all. cbn. apply app_nil_r. Qed.

Lemma le_bytes_le_val : forall bs, le_bytes (length bs) (le_val bs) = bs.
Proof.
  induction bs as [|b bs IH]; [reflexivity|]. cbn [length le_bytes le_val].
  pose proof (Byte.to_N_bounded b) as Hb.
  assert ((Byte.to_N b + 256 * le_val bs) / 256 = le_val bs) as -> by (symmetry; apply N.div_unique with (r := Byte.to_N b); lia).
  rewrite IH. f_equal. unfold byte_of_N.
  assert ((Byte.to_N b + 256 * le_val bs) mod 256 = Byte.to_N b) as -> by (symmetry; apply N.mod_unique with (q := le_val bs); lia).
  now rewrite Byte.of_to_N.
Qed.

Lemma le_val_bound : forall bs, le_val bs < 256 ^ N.of_nat (length bs).
Proof.
  induction bs as [|b bs IH]; [cbn; lia|]. cbn [length le_val]. rewrite Nat2N.inj_succ, N.pow_succ_r'.
  pose proof (Byte.to_N_bounded b). lia.
Qed.

Lemma firstn_app_exact {A} n (a b : list A) : length a = n -> firstn n (a ++ b) = a.
Proof. intros <-. rewrite firstn_app, Nat.sub_diag, firstn_all. cbn. apply app_nil_r. Qed.
Lemma skipn_app_exact {A} n (a b : list A) : length a = n -> skipn n (a ++ b) = b.
Proof. intros <-. rewrite skipn_app, Nat.sub_diag, skipn_all. reflexivity. Qed.

Section WithHash.
Variable H : bytes -> bytes -> bytes.
Variable src : bytes -> option (bytes * bytes).
Notation root := (root H).
Notation ser_impl := (ser_impl H src).
Notation deser_impl := (deser_impl H).
Notation mk := (mk H).

(* ---- C02 on leaf kinds: the constructed value serialises to the spec's bytes, with their count ---- *)
Theorem ser_uint k n nd : uint_size_ok k = true -> n < 2 ^ (8 * k) -> mk (TUint k) (VUint n) = Ok nd ->
  ser_impl (TUint k) nd = Ok (ser (TUint k) (VUint n), lenN (ser (TUint k) (VUint n))).
Proof.
  intros Hk Hn Hm. cbn [ModelViews.mk mk_basic] in Hm. apply N.ltb_lt in Hn. rewrite Hn in Hm. cbn [bind] in Hm.
  inversion Hm; subst nd. cbn [ModelCodec.ser_impl Tree.root Spec.ser].
  rewrite le_bytes_lenN, N2Nat.id. f_equal. f_equal.
  rewrite <- (le_bytes_length (N.to_nat k) n) at 1. apply firstn_pad32. rewrite le_bytes_length.
  apply uint_size_cases in Hk. lia.
Qed.

Theorem ser_bool b nd : mk TBool (VBool b) = Ok nd ->
  ser_impl TBool nd = Ok (ser TBool (VBool b), 1).
Proof. intros Hm. cbn in Hm. inversion Hm; subst. destruct b; reflexivity. Qed.

(* ---- C03 / C10 on uintN and boolean (scoped stream decoding) ---- *)
(* round trip, from a stream positioned anywhere: the suffix comes back untouched *)
Theorem deser_uint_roundtrip k n sfx : uint_size_ok k = true -> n < 2 ^ (8 * k) ->
  deser_impl (TUint k) (ser (TUint k) (VUint n) ++ sfx) k =
    Ok (RootN (pad32 (le_bytes (N.to_nat k) n)), sfx).
Proof.
  intros Hk Hn. cbn [ModelCodec.deser_impl Spec.ser]. rewrite N.eqb_refl. cbn [negb]. unfold read.
  rewrite (firstn_app_exact _ _ _ (le_bytes_length (N.to_nat k) n)), (skipn_app_exact _ _ _ (le_bytes_length (N.to_nat k) n)).
  unfold basic_node.
  rewrite le_val_le_bytes.
  - reflexivity.
  - replace (256 ^ N.of_nat (N.to_nat k)) with (2 ^ (8 * k)); [exact Hn|].
    rewrite N2Nat.id. change 256 with (2 ^ 8). now rewrite <- N.pow_mul_r.
Qed.

(* canonicity: whatever is accepted re-encodes to exactly the bytes that were consumed, and the
   scope is the type's size *)
Theorem deser_uint_canonical k s scope nd rest : (N.to_nat scope <= length s)%nat ->
  deser_impl (TUint k) s scope = Ok (nd, rest) ->
  scope = k /\ rest = skipn (N.to_nat k) s /\
  exists e, ser_impl (TUint k) nd = Ok (e, k) /\ e = firstn (N.to_nat k) s.
Proof.
  intros Hlen Hd. cbn [ModelCodec.deser_impl] in Hd. destruct (k =? scope) eqn:E; cbn [negb] in Hd; [|discriminate].
  apply N.eqb_eq in E. subst scope. unfold read in Hd. inversion Hd; subst. clear Hd.
  split; [reflexivity|]. split; [reflexivity|]. eexists. split; [reflexivity|].
  cbn [Tree.root basic_node].
  assert (length (firstn (N.to_nat k) s) = N.to_nat k) as Hl by (rewrite firstn_length; lia).
  rewrite <- Hl at 2. rewrite le_bytes_le_val.
  destruct (Nat.le_gt_cases (N.to_nat k) 32) as [Hk|Hk].
  - rewrite <- Hl at 1. apply firstn_pad32. lia.
  - unfold pad32, pad_to. replace (32 - length (firstn (N.to_nat k) s))%nat with 0%nat by lia. cbn. rewrite app_nil_r.
    rewrite <- Hl at 1. apply firstn_all.
Qed.

Theorem deser_bool_canonical s scope nd rest :
  deser_impl TBool s scope = Ok (nd, rest) ->
  scope = 1 /\ exists b : bool, s = (if b then x01 else x00) :: rest /\ ser_impl TBool nd = Ok ([if b then x01 else x00], 1).
Proof.
  intros Hd. cbn [ModelCodec.deser_impl] in Hd. destruct (1 =? scope) eqn:E; cbn [negb] in Hd; [|discriminate].
  apply N.eqb_eq in E. subst scope. split; [reflexivity|]. unfold read in Hd.
  change (N.to_nat 1) with 1%nat in Hd.
  destruct s as [|c s]; cbn [firstn skipn bool_decode bind] in Hd; [discriminate|].
  destruct (byte_eqb c x00) eqn:E0.
  - apply byte_eqb_eq in E0. subst c. cbn [bind] in Hd. inversion Hd; subst. exists false. split; reflexivity.
  - destruct (byte_eqb c x01) eqn:E1; [|discriminate].
    apply byte_eqb_eq in E1. subst c. cbn [bind] in Hd. inversion Hd; subst. exists true. split; reflexivity.
Qed.

(* non-0/1 booleans are rejected *)
Theorem deser_bool_rejects c rest : c <> x00 -> c <> x01 -> exists e, deser_impl TBool (c :: rest) 1 = Err e.
Proof.
  intros H0 H1. cbn [ModelCodec.deser_impl N.eqb Pos.eqb negb]. unfold read. change (N.to_nat 1) with 1%nat.
  cbn [firstn skipn bool_decode].
  destruct (byte_eqb c x00) eqn:E0; [apply byte_eqb_eq in E0; contradiction|].
  destruct (byte_eqb c x01) eqn:E1; [apply byte_eqb_eq in E1; contradiction|]. cbn [bind]. eauto.
Qed.

(* ---- C09 on the leaf kinds: every failure is an error VALUE (an ordinary exception) and decoding is
   a total function (structural recursion: termination by construction) ---- *)
Theorem deser_total t s scope : (exists x, deser_impl t s scope = Ok x) \/ (exists e, deser_impl t s scope = Err e).
Proof. destruct (deser_impl t s scope); eauto. Qed.

End WithHash.

Lemma byte_eqb_eq_refl b : byte_eqb b b = true.
Proof. now apply byte_eqb_eq. Qed.

(* ---- C16 helpers: hex text round trip, JSON round trip is idempotent ---- *)
Lemma hexval_digit n : n < 16 -> hexval_b (ascii_digit n) = Some n.
Proof.
  intros Hn. assert (n = 0 \/ n = 1 \/ n = 2 \/ n = 3 \/ n = 4 \/ n = 5 \/ n = 6 \/ n = 7 \/ n = 8 \/ n = 9 \/
                       n = 10 \/ n = 11 \/ n = 12 \/ n = 13 \/ n = 14 \/ n = 15) as Hc by lia.
  repeat (destruct Hc as [->|Hc]; [reflexivity|]). subst. reflexivity.
Qed.

Theorem unhex_hex : forall bs, unhex_text (hex_text bs) = Ok bs.
Proof.
  induction bs as [|b bs IH]; [reflexivity|]. cbn [hex_text unhex_text].
  pose proof (Byte.to_N_bounded b) as Hb.
  rewrite hexval_digit by (apply N.div_lt_upper_bound; lia).
  rewrite hexval_digit by (apply N.mod_lt; lia). rewrite IH. cbn [bind]. f_equal. f_equal.
  unfold byte_of_N. pose proof (N.div_mod (Byte.to_N b) 16 ltac:(lia)) as Hdm.
  replace (16 * (Byte.to_N b / 16) + Byte.to_N b mod 16) with (Byte.to_N b) by lia.
  rewrite N.mod_small by lia. now rewrite Byte.of_to_N.
Qed.

Theorem json_rt_idempotent : forall o, json_rt (json_rt o) = json_rt o.
Proof.
  fix IH 1. intros [n|b|s|tp l|kvs|]; cbn [json_rt]; try reflexivity.
  - f_equal. induction l as [|x l IHl]; [reflexivity|]. cbn [map]. now rewrite IH, IHl.
  - f_equal. induction kvs as [|[k v] kvs IHk]; [reflexivity|]. cbn [map fst snd]. now rewrite IH, IHk.
Qed.

(* object export / import of integers and booleans round-trips, also through JSON *)
Section ObjBasic.
Variable H : bytes -> bytes -> bytes.
Variable src : bytes -> option (bytes * bytes).

Theorem obj_uint_roundtrip k n nd : uint_size_ok k = true -> n < 2 ^ (8 * k) ->
  mk H (TUint k) (VUint n) = Ok nd ->
  exists o, to_obj H src (TUint k) nd = Ok o /\
            (o = JInt n \/ o = JStr (x0x ++ hex_text (le_bytes (N.to_nat k) n))) /\
            from_obj H (TUint k) o = Ok nd /\ from_obj H (TUint k) (json_rt o) = Ok nd.
Proof.
  intros Hk Hn Hm. pose proof Hm as Hm0. cbn [mk mk_basic] in Hm. pose proof Hn as Hn'. apply N.ltb_lt in Hn'. rewrite Hn' in Hm. cbn [bind] in Hm.
  inversion Hm; subst nd. cbn [to_obj Tree.root].
  assert (firstn (N.to_nat k) (pad32 (le_bytes (N.to_nat k) n)) = le_bytes (N.to_nat k) n) as Hf.
  { rewrite <- (le_bytes_length (N.to_nat k) n) at 1. apply firstn_pad32. rewrite le_bytes_length. apply uint_size_cases in Hk. lia. }
  rewrite Hf.
  assert (le_val (le_bytes (N.to_nat k) n) = n) as Hv.
  { apply le_val_le_bytes. replace (256 ^ N.of_nat (N.to_nat k)) with (2 ^ (8 * k)); [exact Hn|].
    rewrite N2Nat.id. change 256 with (2 ^ 8). now rewrite <- N.pow_mul_r. }
  destruct (k <=? 8) eqn:E8.
  - exists (JInt n). rewrite Hv. repeat split; auto.
  - eexists. split; [reflexivity|]. split; [now right|].
    cbn [json_rt from_obj]. unfold starts_0x, x0x. cbn [app]. rewrite !byte_eqb_eq_refl. cbn [andb skipn].
    rewrite unhex_hex. cbn [bind]. rewrite Hv. auto.
Qed.

Theorem obj_bool_roundtrip b nd : mk H TBool (VBool b) = Ok nd ->
  to_obj H src TBool nd = Ok (JBool b) /\ from_obj H TBool (JBool b) = Ok nd.
Proof. intros Hm. cbn in Hm. inversion Hm; subst. destruct b; split; reflexivity. Qed.
End ObjBasic.
