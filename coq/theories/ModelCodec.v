(* ModelCodec.v — implementation model of serialize / deserialize for every view kind, on backings.
   The stream is modelled as its remaining bytes: read k = (firstn k s, skipn k s) (short at EOF). *)
Require Import RM.Base RM.Gindex RM.Tree RM.Types RM.Spec RM.ModelViews.
Local Open Scope N_scope.

Definition read (k : N) (s : bytes) : bytes * bytes := (firstn (N.to_nat k) s, skipn (N.to_nat k) s).
Definition iotaN (n : nat) : list N := map N.of_nat (seq 0 n).

Section WithHash.
Variable H : bytes -> bytes -> bytes.
Variable src : bytes -> option (bytes * bytes).
Notation root := (root H).
Notation zero_node := (zero_node H).
Notation getter := (getter src).
Notation fill_to_contents := (fill_to_contents H).
Notation default_node := (default_node H).

(* node.getter(to_gindex(i, depth)) *)
Definition getter_i (n : node) (i : N) (d : nat) : result node :=
  do g <- to_gindex i d; getter_g src n g.

(* uint256.view_from_backing(node.get_right()) : list length / union selector *)
Definition mixin_value (n : node) : result N :=
  do r <- get_right src n; Ok (le_val (firstn 32 (root r))).

(* length of a view (length()); vectors know it statically *)
Definition view_len (t : ty) (n : node) : result N :=
  match t with
  | TBitvector k | TByteVector k | TVector _ k => Ok k
  | TBitlist _ | TByteList _ | TList _ _ => mixin_value n
  | TContainer fs => Ok (lenN fs)
  | _ => Err EType
  end.

(* boolean.decode_bytes: exactly 00 or 01 (basic.py:54-56) *)
Definition bool_decode (bs : bytes) : result N :=
  match bs with
  | [b] => if byte_eqb b x00 then Ok 0 else if byte_eqb b x01 then Ok 1 else Err EValue
  | _ => Err EValue
  end.

(* the bytes of packed element i of a chunk (basic_view_from_backing + encode_bytes) *)
Definition packed_elem_bytes (e : ty) (chunk : node) (j : N) : result bytes :=
  match e with
  | TUint k => Ok (slice (root chunk) (N.to_nat (j * k)) (N.to_nat ((j + 1) * k)))
  | TBool => do v <- bool_decode (slice (root chunk) (N.to_nat j) (N.to_nat (j + 1)));
             Ok [byte_of_N v]
  | _ => Err EType
  end.

(* bytes held by the first chunk_count chunks of a byte array backing *)
Definition read_chunks (n : node) (d : nat) (count : N) : result bytes :=
  do cs <- seq_res (map (fun i => do c <- getter_i n i d; Ok (root c)) (iotaN (N.to_nat count)));
  Ok (concat cs).

(* delimiting bit of a bitlist added to the last byte (bitfields.py:313-322) *)
Definition xor_bit (b : byte) (k : N) : byte := byte_of_N (N.lxor (Byte.to_N b) (N.shiftl 1 k)).

Definition bits_serialize (is_list : bool) (n : node) (td : nat) (bitlen : N) : result bytes :=
  let chunk_count := (bitlen + 255) / 256 in
  let byte_len := (bitlen + 7) / 8 in
  let full := chunk_count - 1 in                       (* max(0, chunk_count - 1) *)
  do fullbytes <- read_chunks n td full;
  if 0 <? chunk_count then
    do last <- getter_i n (chunk_count - 1) td;
    let bytez := firstn (N.to_nat (byte_len - full * 32)) (root last) in
    if is_list then
      if bitlen mod 8 =? 0 then Ok (fullbytes ++ bytez ++ [x01])
      else match rev bytez with
           | lastb :: r => Ok (fullbytes ++ rev r ++ [xor_bit lastb (bitlen mod 8)])
           | [] => Err EIndex
           end
    else Ok (fullbytes ++ bytez)
  else Ok (if is_list then [x01] else []).

(* serialize: (bytes written, returned count) *)
Fixpoint ser_impl (t : ty) (n : node) {struct t} : result (bytes * N) :=
  match t with
  | TUint k => Ok (firstn (N.to_nat k) (root n), k)                       (* core.py:259-262, basic.py:198 *)
  | TBool => do v <- bool_decode (firstn 1 (root n)); Ok ([byte_of_N v], 1)
  | TBitvector k => do b <- bits_serialize false n (tree_depth t) k; Ok (b, (k + 7) / 8)
  | TBitlist _ =>
      do ll <- mixin_value n;
      do b <- bits_serialize true n (tree_depth t) ll; Ok (b, (ll + 7 + 1) / 8)
  | TByteVector k =>                                                      (* byte_arrays.py:116-126 *)
      let d := contents_depth t in
      do bs <- (if Nat.eqb d 0 then Ok (root n) else read_chunks n d ((k + 31) / 32));
      let out := firstn (N.to_nat k) bs in
      if lenN out =? k then Ok (out, lenN out) else Err EOther
  | TByteList l =>                                                        (* byte_arrays.py:203-215 *)
      let d := contents_depth t in
      do c <- get_left src n;
      do ll <- mixin_value n;
      if l <? ll then Err EOther
      else
        do bs <- (if Nat.eqb d 0 then Ok (root c) else read_chunks c d ((ll + 31) / 32));
        let out := firstn (N.to_nat ll) bs in Ok (out, lenN out)
  | TVector e _ | TList e _ =>                                            (* complex.py:149-167 *)
      do ll <- view_len t n;
      let td := tree_depth t in
      match basic_size e with
      | Some s =>
          let epc := elems_per_chunk s in
          do parts <- seq_res (map (fun i => do c <- getter_i n (i / epc) td;
                                             packed_elem_bytes e c (i mod epc))
                                   (iotaN (N.to_nat ll)));
          Ok (concat parts, s * ll)
      | None =>
          do els <- seq_res (map (fun i => do c <- getter_i n i td; ser_impl e c) (iotaN (N.to_nat ll)));
          if is_fixed_impl e then Ok (concat (map fst els), min_impl e * ll)
          else
            let '(fixedp, varp, off) :=
              fold_left (fun (acc : bytes * bytes * N) (x : bytes * N) =>
                           let '(f, v, off) := acc in
                           (f ++ le_bytes 4 off, v ++ fst x, off + snd x))
                        els ([], [], OFFSET * ll) in
            Ok (fixedp ++ firstn (N.to_nat off) varp, off)
      end
  | TContainer fs =>                                                      (* complex.py:919-937 *)
      let td := tree_depth t in
      let written0 := fold_left (fun acc f => acc + (if is_fixed_impl f then min_impl f else OFFSET)) fs 0 in
      do res <- (fix go (fs : list ty) (i : N) (acc : bytes * bytes * N) : result (bytes * bytes * N) :=
                   match fs with
                   | [] => Ok acc
                   | f :: fs' =>
                       let '(fx, vr, written) := acc in
                       do c <- getter_i n i td;
                       do x <- ser_impl f c;
                       if is_fixed_impl f then go fs' (i + 1) (fx ++ fst x, vr, written)
                       else go fs' (i + 1) (fx ++ le_bytes 4 written, vr ++ fst x, written + snd x)
                   end) fs 0 ([], [], written0);
      let '(fx, vr, written) := res in
      Ok (fx ++ firstn (N.to_nat written) vr, written)
  | TUnion none0 opts =>                                                  (* union.py:95-117, 271-277 *)
      do sel <- mixin_value n;
      if lenN opts + (if none0 then 1 else 0) <=? sel then Err EKey
      else
        do vn <- get_left src n;
        if none0 && (sel =? 0) then
          if bytes_eqb (root vn) zero32 then Ok ([byte_of_N sel], 1) else Err EOther
        else
          do x <- (fix pick (os : list ty) (i : nat) : result (bytes * N) :=
                     match os, i with
                     | o :: _, O => ser_impl o vn
                     | _ :: os', S i' => pick os' i'
                     | [], _ => Err EIndex
                     end) opts (N.to_nat (if none0 then sel - 1 else sel));
          Ok (byte_of_N sel :: fst x, 1 + snd x)
  end.

(* ---- deserialize ---- *)
Definition basic_node (bs : bytes) : node := RootN (pad32 bs).

(* uint32.deserialize(stream, 4): lenient about a short read *)
Definition decode_offset (s : bytes) : N * bytes := let '(b, s') := read 4 s in (le_val b, s').

(* the chunk-reading loop shared by Bitvector / Bitlist deserialize: `while scope > 32` *)
Fixpoint read_full_chunks (fuel : nat) (scope : N) (s : bytes) : list node * N * bytes :=
  match fuel with
  | O => ([], scope, s)
  | S f =>
      if 32 <? scope then
        let '(c, s') := read 32 s in
        let '(cs, sc, s'') := read_full_chunks f (scope - 32) s' in
        (RootN c :: cs, sc, s'')
      else ([], scope, s)
  end.

Definition bit_length_byte (b : byte) : N := N.size (Byte.to_N b).

Fixpoint deser_impl (t : ty) (s : bytes) (scope : N) {struct t} : result (node * bytes) :=
  match t with
  | TUint k =>                                                            (* core.py:209-214 *)
      if negb (k =? scope) then Err EOther
      else let '(b, s') := read k s in Ok (basic_node (le_bytes (N.to_nat k) (le_val b)), s')
  | TBool =>
      if negb (1 =? scope) then Err EOther
      else let '(b, s') := read 1 s in do v <- bool_decode b; Ok (basic_node [byte_of_N v], s')
  | TByteVector k =>
      if negb (k =? scope) then Err EOther
      else let '(b, s') := read k s in
           if negb (lenN b =? k) then Err EOther
           else do nd <- fill_to_contents (map RootN (pack_bytes b)) (contents_depth t); Ok (nd, s')
  | TByteList l =>                                                        (* byte_arrays.py:262-264 *)
      let '(b, s') := read scope s in
      if l <? lenN b then Err EOther
      else do c <- fill_to_contents (map RootN (pack_bytes b)) (contents_depth t);
           Ok (PairN c (len_node (lenN b)), s')
  | TBitvector k =>                                                       (* bitfields.py:417-435 *)
      if negb (scope =? (k + 7) / 8) then Err EOther
      else
        let bytelen := scope - 1 in
        let '(cs, sc, s1) := read_full_chunks (N.to_nat (scope / 32)) scope s in
        let '(lastp, s2) := read sc s1 in
        match nth_error lastp (N.to_nat (sc - 1)) with
        | None => Err EIndex
        | Some lastb =>
            let bitlen := bytelen * 8 + bit_length_byte lastb in
            if k <? bitlen then Err EOther
            else do nd <- fill_to_contents (cs ++ [RootN (pad32 lastp)]) (contents_depth t); Ok (nd, s2)
        end
  | TBitlist l =>                                                         (* bitfields.py:272-299 *)
      if scope <? 1 then Err EOther
      else if (l + 7 + 1) / 8 <? scope then Err EOther
      else
        let bytelen := scope - 1 in
        let '(cs, sc, s1) := read_full_chunks (N.to_nat (scope / 32)) scope s in
        let '(lastp, s2) := read sc s1 in
        match nth_error lastp (N.to_nat (sc - 1)) with
        | None => Err EIndex
        | Some lastb =>
            if byte_eqb lastb x00 then Err EOther
            else
              let lbl := bit_length_byte lastb - 1 in
              let bitlen := bytelen * 8 + lbl in
              let cs' := if bitlen mod 256 =? 0 then cs
                         else cs ++ [RootN (pad32 (firstn (N.to_nat (sc - 1)) lastp ++ [xor_bit lastb lbl]))] in
              if l <? bitlen then Err EOther
              else do c <- fill_to_contents cs' (contents_depth t);
                   Ok (PairN c (len_node bitlen), s2)
        end
  | TVector e _ | TList e _ =>                                            (* complex.py:110-147 *)
      let valid_count (c : N) : bool :=
        match t with TVector _ k => c =? k | TList _ l => c <=? l | _ => false end in
      let build (nodes : list node) (count : N) : result node :=
        (* cls(elements): empty -> default backing *)
        match nodes with
        | [] => default_node t
        | _ => do c <- fill_to_contents nodes (contents_depth t);
               Ok (match t with TList _ _ => PairN c (len_node count) | _ => c end)
        end in
      if is_fixed_impl e then
        let ebl := min_impl e in
        if negb (scope mod ebl =? 0) then Err EOther
        else
          let count := scope / ebl in
          if negb (valid_count count) then Err EOther
          else
            do r <- (fix loop (k : nat) (s : bytes) : result (list node * bytes) :=
                       match k with
                       | O => Ok ([], s)
                       | S k' => do x <- deser_impl e s ebl;
                                 do r <- loop k' (snd x);
                                 Ok (fst x :: fst r, snd r)
                       end) (N.to_nat count) s;
            let '(els, s') := r in
            do nd <- match basic_size e with
                     | Some sz =>
                         (* pack_views: the integer values of the decoded basic views *)
                         build (map RootN (pack_ints sz (map (fun x => le_val (firstn (N.to_nat sz) (root x))) els))) count
                     | None => build els count
                     end;
            Ok (nd, s')
      else
        if scope =? 0 then
          if valid_count 0 then do nd <- default_node t; Ok (nd, s) else Err EOther
        else
          let '(first_offset, s1) := decode_offset s in
          if scope <? first_offset then Err EOther
          else if negb (first_offset mod 4 =? 0) then Err EOther
          else
            let count := first_offset / 4 in
            if negb (valid_count count) then Err EOther
            else if count =? 0 then Err EValue          (* uint32(0) - 1 raises *)
            else
              let '(offs, s2) :=
                (fix rd (k : nat) (s : bytes) : list N * bytes :=
                   match k with
                   | O => ([], s)
                   | S k' => let '(o, s') := decode_offset s in
                             let '(os, s'') := rd k' s' in (o :: os, s'')
                   end) (N.to_nat (count - 1)) s1 in
              let offsets := first_offset :: offs ++ [scope] in
              let emin := min_impl e in let emax := max_impl e in
              do r <- (fix loop (offsets : list N) (s : bytes) : result (list node * bytes) :=
                         match offsets with
                         | start :: ((end_ :: _) as rest) =>
                             if end_ <? start then Err EOther
                             else
                               let sz := end_ - start in
                               if negb ((emin <=? sz) && (sz <=? emax)) then Err EOther
                               else do x <- deser_impl e s sz;
                                    do r <- loop rest (snd x);
                                    Ok (fst x :: fst r, snd r)
                         | _ => Ok ([], s)
                         end) offsets s2;
              let '(els, s') := r in
              do nd <- build els count;
              Ok (nd, s')
  | TContainer fs =>                                                      (* complex.py:885-917 *)
      let finish (nodes : list node) := fill_to_contents nodes (contents_depth t) in
      if is_fixed_impl t then
        if negb (scope =? min_impl t) then Err EOther
        else
          do r <- (fix loop (fs : list ty) (s : bytes) : result (list node * bytes) :=
                     match fs with
                     | [] => Ok ([], s)
                     | f :: fs' => do x <- deser_impl f s (min_impl f);
                                   do r <- loop fs' (snd x);
                                   Ok (fst x :: fst r, snd r)
                     end) fs s;
          do nd <- finish (fst r); Ok (nd, snd r)
      else
        (* first pass: fixed fields decoded, offsets of dynamic fields collected *)
        do p1 <- (fix loop (fs : list ty) (s : bytes) (fixed_size : N)
                    : result (list (option node * N) * bytes * N) :=
                    match fs with
                    | [] => Ok ([], s, fixed_size)
                    | f :: fs' =>
                        if is_fixed_impl f then
                          do x <- deser_impl f s (min_impl f);
                          do r <- loop fs' (snd x) (fixed_size + min_impl f);
                          let '(l, s', fz) := r in Ok ((Some (fst x), 0) :: l, s', fz)
                        else
                          let '(o, s1) := decode_offset s in
                          do r <- loop fs' s1 (fixed_size + OFFSET);
                          let '(l, s', fz) := r in Ok ((None, o) :: l, s', fz)
                    end) fs s 0;
        let '(slots, s1, fixed_size) := p1 in
        let dyn_offsets := map snd (filter (fun x => match fst x with None => true | _ => false end) slots) in
        match dyn_offsets with
        | [] => do nd <- finish (map (fun x => match fst x with Some nd => nd | None => RootN zero32 end) slots);
                Ok (nd, s1)
        | o0 :: _ =>
            if negb (o0 =? fixed_size) then Err EOther
            else
              do r <- (fix loop (fs : list ty) (slots : list (option node * N)) (offs : list N) (s : bytes)
                         : result (list node * bytes) :=
                         match fs, slots with
                         | f :: fs', (Some nd, _) :: slots' =>
                             do r <- loop fs' slots' offs s; Ok (nd :: fst r, snd r)
                         | f :: fs', (None, foffset) :: slots' =>
                             let offs' := tl offs in
                             let next := match offs' with o :: _ => o | [] => scope end in
                             if next <? foffset then Err EOther
                             else
                               let fsz := next - foffset in
                               if negb ((min_impl f <=? fsz) && (fsz <=? max_impl f)) then Err EOther
                               else do x <- deser_impl f s fsz;
                                    do r <- loop fs' slots' offs' (snd x);
                                    Ok (fst x :: fst r, snd r)
                         | _, _ => Ok ([], s)
                         end) fs slots dyn_offsets s1;
              do nd <- finish (fst r); Ok (nd, snd r)
        end
  | TUnion none0 opts =>                                                  (* union.py:255-269 *)
      if scope <? 1 then Err EValue
      else
        let '(b, s1) := read 1 s in
        let sel := le_val b in
        if lenN opts + (if none0 then 1 else 0) <=? sel then Err EValue
        else if none0 && (sel =? 0) then
          if negb (scope =? 1) then Err EValue
          else Ok (PairN (zero_node 0) (len_node sel), s1)
        else
          do x <- (fix pick (os : list ty) (i : nat) : result (node * bytes) :=
                     match os, i with
                     | o :: _, O => deser_impl o s1 (scope - 1)
                     | _ :: os', S i' => pick os' i'
                     | [], _ => Err EIndex
                     end) opts (N.to_nat (if none0 then sel - 1 else sel));
          Ok (PairN (fst x) (len_node sel), snd x)
  end.

(* decode_bytes(bytez) for backed views = deserialize(stream(bytez), len(bytez)) *)
Definition decode_bytes (t : ty) (bs : bytes) : result node :=
  do x <- deser_impl t bs (lenN bs); Ok (fst x).

End WithHash.
