(* PartialReads.v — C17: the read-only iterators and object export over a PARTIAL tree.  The node iterator is a
   one-way simulation (what it hands out on the partial tree it hands out — up to summaries — on the complete tree);
   the packed / bit iterators and the object export AGREE with the complete tree whenever both return, and on a tree
   that represents a value the complete side always returns (C16), so a successful export of the partial tree is
   the export of the value. *)
Require Import RM.Base RM.Gindex RM.Tree RM.TreeProofs RM.Types RM.Spec RM.ModelViews RM.ModelCodec RM.ModelMut RM.ModelIters RM.ModelObj
               RM.PartialProofs RM.PartialViews RM.PartialStore RM.ReprProofs RM.ObjProofs RM.PartialErrors.
From Coq Require Import ZifyBool ZifyNat ZifyN.
Local Open Scope N_scope.
Section WithHash.
Variable H : bytes -> bytes -> bytes.
Variable src : bytes -> option (bytes * bytes).
Notation summ := (summ H).
Notation root := (root H).
(* both succeed => related.  (The partial side can succeed where an ILL-SHAPED complete tree fails: a summary
   standing for a pair is a leaf.  For trees that represent a value the complete side never fails.) *)
Definition pagree {A} (R : A -> A -> Prop) (rp rc : result A) : Prop := forall x y, rp = Ok x -> rc = Ok y -> R x y.
Lemma pagree_bind {A B} (R : A -> A -> Prop) (S : B -> B -> Prop) a b (f g : A -> result B) :
  psim R a b -> (forall x y, R x y -> pagree S (f x) (g y)) -> pagree S (bind a f) (bind b g).
Proof.
  intros Hab Hfg u v Hu Hv. destruct a as [x|e]; [|discriminate]. destruct Hab as (y & -> & Hr). cbn [bind] in *. exact (Hfg x y Hr u v Hu Hv).
Qed.
Lemma pagree_bind2 {A B} (R : A -> A -> Prop) (S : B -> B -> Prop) a b (f g : A -> result B) :
  pagree R a b -> (forall x y, R x y -> pagree S (f x) (g y)) -> pagree S (bind a f) (bind b g).
Proof.
  intros Hab Hfg u v Hu Hv. destruct a as [x|e]; [|discriminate]. destruct b as [y|e]; [|discriminate]. cbn [bind] in *. exact (Hfg x y (Hab x y eq_refl eq_refl) u v Hu Hv).
Qed.
Lemma pagree_ret {A} (R : A -> A -> Prop) x y : R x y -> pagree R (Ok x) (Ok y).
Proof. intros Hr u v Hu Hv. inversion Hu; inversion Hv; subst. exact Hr. Qed.
Lemma pagree_refl {A} (r : result A) : pagree eq r r.
Proof. intros u v Hu Hv. congruence. Qed.

Definition summs (a b : list node) : Prop := Forall2 summ a b.
Definition summp (a b : node * list node) : Prop := summ (fst a) (fst b) /\ summs (snd a) (snd b).

Lemma summs_set_nth : forall k x y a b, summ x y -> summs a b -> summs (set_nth k x a) (set_nth k y b).
Proof.
  intros k x y a b Hxy Hab. revert k. induction Hab as [|u w a b Huw Hab IH]; intros k; [destruct k; constructor|].
  destruct k; cbn [set_nth]; constructor; auto. apply IH.
Qed.
Lemma summs_nth : forall a b k, summs a b -> summ (nth k a dummy) (nth k b dummy).
Proof. intros a b k Hab. revert k. induction Hab; intros [|k]; cbn; auto; constructor. Qed.
Lemma summs_repeat k : summs (repeat dummy k) (repeat dummy k).
Proof. induction k; cbn; constructor; auto. constructor. Qed.

Lemma p_get_right n m : summ n m -> psim summ (get_right src n) (get_right src m).
Proof.
  intros Hs. apply psim_of. intros x Hx. unfold get_right in *. destruct (children src n) as [[l r]|] eqn:Hc; [|discriminate].
  inversion Hx; subst. destruct (summ_children H src n m l x Hs Hc) as (l' & r' & Hc' & Hl & Hr). rewrite Hc'. eauto.
Qed.
Lemma p_descend : forall steps x nv nm sv sm, summ nv nm -> summs sv sm -> psim summp (descend src steps x nv sv) (descend src steps x nm sm).
Proof.
  induction steps as [|k IH]; intros x nv nm sv sm Hn Hs; cbn [descend]; [apply pret; split; assumption|].
  apply (pbind summ summp _ _ _ _ (p_get_left H src nv nm Hn)). intros l l' Hl. apply IH; [exact Hl|now apply summs_set_nth].
Qed.
Lemma p_advance av am depth idx sv sm : summ av am -> summs sv sm -> psim summp (advance src av depth idx sv) (advance src am depth idx sm).
Proof.
  intros Ha Hs. unfold advance. destruct (idx =? 0); [now apply p_descend|]. cbv zeta.
  apply (pbind summ summp _ _ _ _ (p_get_right _ _ (summs_nth sv sm _ Hs))). intros r r' Hr. now apply p_descend.
Qed.
Lemma p_node_iter_loop : forall fuel av am depth i sv sm, summ av am -> summs sv sm ->
  psim summs (node_iter_loop src fuel av depth i sv) (node_iter_loop src fuel am depth i sm).
Proof.
  induction fuel as [|f IH]; intros av am depth i sv sm Ha Hs; cbn [node_iter_loop]; [apply pret; constructor|].
  apply (pbind summp summs _ _ _ _ (p_advance av am depth i sv sm Ha Hs)). intros r r' [Hr1 Hr2].
  apply (pbind summs summs _ _ _ _ (IH av am depth (i + 1) _ _ Ha Hr2)). intros rest rest' Hrest. apply pret. constructor; assumption.
Qed.
Theorem p_node_iter av am depth len : summ av am -> psim summs (node_iter src av depth len) (node_iter src am depth len).
Proof. intros Ha. unfold node_iter. destruct (_ <? len); [exact I|]. apply p_node_iter_loop; [exact Ha|apply summs_repeat]. Qed.

Lemma ag_packed_iter_loop : forall fuel av am depth e per j ri cv cm sv sm, summ av am -> root cv = root cm -> summs sv sm ->
  pagree eq (packed_iter_loop H src fuel av depth e per j ri cv sv) (packed_iter_loop H src fuel am depth e per j ri cm sm).
Proof.
  induction fuel as [|f IH]; intros av am depth e per j ri cv cm sv sm Ha Hc Hs; cbn [packed_iter_loop]; [apply pagree_refl|].
  destruct (j <? per).
  - unfold packed_elem_bytes. rewrite Hc. fold (packed_elem_bytes H e cm j).
    destruct (packed_elem_bytes H e cm j) as [b|er]; [|intros u v Hu; discriminate]. cbn [bind].
    apply (pagree_bind2 eq eq _ _ _ _ (IH av am depth e per (j + 1) ri cv cm sv sm Ha Hc Hs)). intros x y ->. apply pagree_refl.
  - apply (pagree_bind summp eq _ _ _ _ (p_advance av am depth ri sv sm Ha Hs)). intros [nv sv'] [nm sm'] [Hn Hs']. cbn [fst snd] in *.
    intros u v Hu Hv. destruct (is_leaf src nv); [|discriminate]. destruct (is_leaf src nm); [|discriminate]. cbn [negb] in *.
    revert u v Hu Hv. unfold packed_elem_bytes. rewrite (summ_root H nv nm Hn). fold (packed_elem_bytes H e nm 0).
    destruct (packed_elem_bytes H e nm 0) as [b|er]; [|intros u v Hu; discriminate]. cbn [bind].
    apply (pagree_bind2 eq eq _ _ _ _ (IH av am depth e per 1 (ri + 1) nv nm sv' sm' Ha (summ_root H nv nm Hn) Hs')). intros x y ->. apply pagree_refl.
Qed.
Theorem ag_packed_iter av am depth len e size : summ av am -> pagree eq (packed_iter H src av depth len e size) (packed_iter H src am depth len e size).
Proof. intros Ha. unfold packed_iter. cbv zeta. destruct (_ <? len); [apply pagree_refl|]. apply ag_packed_iter_loop; [exact Ha|reflexivity|apply summs_repeat]. Qed.

Lemma ag_bit_iter_loop : forall fuel av am depth j ri cur sv sm, summ av am -> summs sv sm ->
  pagree eq (bit_iter_loop H src fuel av depth j ri cur sv) (bit_iter_loop H src fuel am depth j ri cur sm).
Proof.
  induction fuel as [|f IH]; intros av am depth j ri cur sv sm Ha Hs; cbn [bit_iter_loop]; [apply pagree_refl|].
  destruct (0 <? j).
  - cbv zeta. apply (pagree_bind2 eq eq _ _ _ _ (IH av am depth _ ri cur sv sm Ha Hs)). intros x y ->. apply pagree_refl.
  - apply (pagree_bind summp eq _ _ _ _ (p_advance av am depth ri sv sm Ha Hs)). intros [nv sv'] [nm sm'] [Hn Hs']. cbn [fst snd] in *.
    intros u v Hu Hv. destruct (is_leaf src nv); [|discriminate]. destruct (is_leaf src nm); [|discriminate]. cbn [negb] in *.
    revert u v Hu Hv. cbv zeta. rewrite (summ_root H nv nm Hn).
    apply (pagree_bind2 eq eq _ _ _ _ (IH av am depth 1 (ri + 1) (root nm) sv' sm' Ha Hs')). intros x y ->. apply pagree_refl.
Qed.
Theorem ag_bit_iter av am depth len : summ av am -> pagree eq (bit_iter H src av depth len) (bit_iter H src am depth len).
Proof. intros Ha. unfold bit_iter. destruct (_ <? len); [apply pagree_refl|]. apply ag_bit_iter_loop; [exact Ha|apply summs_repeat]. Qed.
Lemma ag_seq {B} (f : node -> result B) : forall a b, summs a b -> (forall x y, summ x y -> pagree eq (f x) (f y)) ->
  pagree eq (seq_res (map f a)) (seq_res (map f b)).
Proof.
  intros a b Hab Hf. induction Hab as [|x y a b Hxy Hab IH]; [apply pagree_refl|]. cbn [map seq_res].
  apply (pagree_bind2 eq eq _ _ _ _ (Hf x y Hxy)). intros o o' ->. apply (pagree_bind2 eq eq _ _ _ _ IH). intros r r' ->. apply pagree_refl.
Qed.
Lemma p_view_len t n m : summ n m -> psim eq (view_len H src t n) (view_len H src t m).
Proof. intros Hs. apply psim_of. intros k Hk. exists k. split; [exact (summ_view_len H src t n m k Hs Hk)|reflexivity]. Qed.
Lemma p_union_selector t n m : summ n m -> psim eq (union_selector H src t n) (union_selector H src t m).
Proof. intros Hs. apply psim_of. intros k Hk. exists k. split; [exact (summ_union_selector H src t n m k Hs Hk)|reflexivity]. Qed.
Lemma pagree_of_psim {A} (rp rc : result A) : psim eq rp rc -> pagree eq rp rc.
Proof. intros Hp x y -> Hy. destruct Hp as (y' & -> & ->). now inversion Hy. Qed.

Theorem ag_to_obj : forall t n m, summ n m -> pagree eq (to_obj H src t n) (to_obj H src t m).
Proof.
  induction t as [k| |bn|bl|yn|yl|e nn IHe|e l IHe|fs Hfs|b os Hos] using ty_ind'; intros n m Hs; cbn [ModelObj.to_obj];
    try (apply (pagree_bind eq eq _ _ _ _ (summ_ser H src _ n m Hs)); intros x y ->; apply pagree_refl).
  - rewrite (summ_root H n m Hs). apply pagree_refl.
  - rewrite (summ_root H n m Hs). apply pagree_refl.
  - (* vector *) apply (pagree_bind eq eq _ _ _ _ (p_view_len _ n m Hs)). intros ll ll' ->.
    apply (pagree_bind2 eq eq); [|intros x y ->; apply pagree_refl].
    destruct (basic_size e) as [s|].
    + apply (pagree_bind2 eq eq _ _ _ _ (ag_packed_iter n m _ _ e s Hs)). intros x y ->. apply pagree_refl.
    + apply (pagree_bind summs eq _ _ _ _ (p_node_iter n m _ _ Hs)). intros ns ns' Hns. now apply ag_seq.
  - (* list *) apply (pagree_bind eq eq _ _ _ _ (p_view_len _ n m Hs)). intros ll ll' ->.
    apply (pagree_bind2 eq eq); [|intros x y ->; apply pagree_refl].
    destruct (basic_size e) as [s|].
    + apply (pagree_bind2 eq eq _ _ _ _ (ag_packed_iter n m _ _ e s Hs)). intros x y ->. apply pagree_refl.
    + apply (pagree_bind summs eq _ _ _ _ (p_node_iter n m _ _ Hs)). intros ns ns' Hns. now apply ag_seq.
  - (* container *)
    apply (pagree_bind summs eq _ _ _ _ (p_node_iter n m _ _ Hs)). intros ns ns' Hns.
    apply (pagree_bind2 eq eq); [|intros x y ->; apply pagree_refl].
    generalize 0%nat as i0. revert ns ns' Hns. induction Hfs as [|f fs' Hf Hfs' IH]; intros ns ns' Hns i0; [apply pagree_refl|].
    destruct Hns as [|x y ns1 ns1' Hxy Hns']; [apply pagree_refl|].
    apply (pagree_bind2 eq eq _ _ _ _ (Hf x y Hxy)). intros o o' ->.
    apply (pagree_bind2 eq eq _ _ _ _ (IH ns1 ns1' Hns' (S i0))). intros r r' ->. apply pagree_refl.
  - (* union *)
    apply (pagree_bind eq eq _ _ _ _ (p_union_selector _ n m Hs)). intros sel sel' ->.
    apply (pagree_bind summ eq _ _ _ _ (p_get_left H src n m Hs)). intros c c' Hc. rewrite (summ_root H c c' Hc).
    destruct (b && (sel' =? 0)); [apply pagree_refl|].
    apply (pagree_bind2 eq eq); [|intros x y ->; apply pagree_refl].
    generalize (N.to_nat (if b then sel' - 1 else sel')) as j. induction Hos as [|o os' Ho Hos' IH]; intros j; [destruct j; apply pagree_refl|].
    destruct j as [|j]; [now apply Ho|apply IH].
Qed.
(* on a tree that represents a value the export of the complete tree succeeds (C16), so an export that succeeds on a
   partial version of it is the complete export, and imports back to the value *)
Theorem partial_export_is_value t v n m n0 o : wf_ty t = true -> fields_ok t = true -> wf t v = true ->
  Repr H t v m -> mk H t v = Ok n0 -> summ n m -> to_obj H src t n = Ok o ->
  to_obj H src t m = Ok o /\ from_obj H t o = Ok n0.
Proof.
  intros Hty Hf Hwf Hr Hmk Hs Ho. destruct (obj_roundtrip H src t Hty Hf v m n0 Hwf Hr Hmk) as (o' & Ho' & Hfo).
  rewrite (ag_to_obj t n m Hs o o' Ho Ho'). split; assumption.
Qed.
(* ---- the other direction for the iterators and the export: where the complete tree answers, the partial tree gives
        the same answer or fails with a navigation / index error ---- *)
Notation sn := (sn H).
Definition csim {A} (R : A -> A -> Prop) (rp rc : result A) : Prop :=
  forall y, rc = Ok y -> (exists x, rp = Ok x /\ R x y) \/ (exists e, rp = Err e /\ naverr e).
Lemma csim_of_nsim {A} (R : A -> A -> Prop) rp rc : nsim R rp rc -> csim R rp rc.
Proof. intros Hn y Hy. destruct (nsim_complete R rp rc y Hn Hy) as [Hx|[E|E]]; [left; exact Hx|right; exists ENav; split; [exact E|left; reflexivity]|right; exists EIndex; split; [exact E|right; reflexivity]]. Qed.
Lemma csim_bind {A B} (R : A -> A -> Prop) (S : B -> B -> Prop) a b (f g : A -> result B) :
  csim R a b -> (forall x y, R x y -> csim S (f x) (g y)) -> csim S (bind a f) (bind b g).
Proof.
  intros Hab Hfg v Hv. destruct b as [y|eb]; [|discriminate]. cbn [bind] in Hv.
  destruct (Hab y eq_refl) as [(x & -> & Hr)|(e & -> & He)]; cbn [bind]; [exact (Hfg x y Hr v Hv)|right; eauto].
Qed.
Lemma csim_ret {A} (R : A -> A -> Prop) x y : R x y -> csim R (Ok x) (Ok y).
Proof. intros Hr v Hv. inversion Hv; subst. left; eauto. Qed.
Lemma csim_refl {A} (r : result A) : csim eq r r.
Proof. intros v Hv. left; eauto. Qed.
Lemma csim_err {A} (R : A -> A -> Prop) rp e : csim R rp (Err e).
Proof. intros v Hv. discriminate. Qed.

Definition sns (a b : list node) : Prop := Forall2 sn a b.
Definition snp (a b : node * list node) : Prop := sn (fst a) (fst b) /\ sns (snd a) (snd b).
Lemma snd0 : sn dummy dummy.
Proof. now apply sn_refl. Qed.
Lemma sns_set_nth : forall k x y a b, sn x y -> sns a b -> sns (set_nth k x a) (set_nth k y b).
Proof.
  intros k x y a b Hxy Hab. revert k. induction Hab as [|u w a b Huw Hab IH]; intros k; [destruct k; constructor|].
  destruct k; cbn [set_nth]; constructor; auto. apply IH.
Qed.
Lemma sns_nth : forall a b k, sns a b -> sn (nth k a dummy) (nth k b dummy).
Proof. intros a b k Hab. revert k. induction Hab; intros [|k]; cbn; auto; apply snd0. Qed.
Lemma sns_repeat k : sns (repeat dummy k) (repeat dummy k).
Proof. induction k; cbn; constructor; auto. apply snd0. Qed.

Lemma c_descend : forall steps x nv nm sv sm, sn nv nm -> sns sv sm -> csim snp (descend src steps x nv sv) (descend src steps x nm sm).
Proof.
  induction steps as [|k IH]; intros x nv nm sv sm Hn Hs; cbn [descend]; [apply csim_ret; split; assumption|].
  apply (csim_bind sn snp _ _ _ _ (csim_of_nsim _ _ _ (n_get_left H src nv nm Hn))). intros l l' Hl. apply IH; [exact Hl|now apply sns_set_nth].
Qed.
Lemma c_advance av am depth idx sv sm : sn av am -> sns sv sm -> csim snp (advance src av depth idx sv) (advance src am depth idx sm).
Proof.
  intros Ha Hs. unfold advance. destruct (idx =? 0); [now apply c_descend|]. cbv zeta.
  apply (csim_bind sn snp _ _ _ _ (csim_of_nsim _ _ _ (n_get_right H src _ _ (sns_nth sv sm _ Hs)))). intros r r' Hr. now apply c_descend.
Qed.
Lemma c_node_iter_loop : forall fuel av am depth i sv sm, sn av am -> sns sv sm ->
  csim sns (node_iter_loop src fuel av depth i sv) (node_iter_loop src fuel am depth i sm).
Proof.
  induction fuel as [|f IH]; intros av am depth i sv sm Ha Hs; cbn [node_iter_loop]; [apply csim_ret; constructor|].
  apply (csim_bind snp sns _ _ _ _ (c_advance av am depth i sv sm Ha Hs)). intros r r' [Hr1 Hr2].
  apply (csim_bind sns sns _ _ _ _ (IH av am depth (i + 1) _ _ Ha Hr2)). intros rest rest' Hrest. apply csim_ret. constructor; assumption.
Qed.
Theorem c_node_iter av am depth len : sn av am -> csim sns (node_iter src av depth len) (node_iter src am depth len).
Proof. intros Ha. unfold node_iter. destruct (_ <? len); [apply csim_err|]. apply c_node_iter_loop; [exact Ha|apply sns_repeat]. Qed.

Lemma sn_leaf n m : sn n m -> is_leaf src m = true -> is_leaf src n = true.
Proof.
  intros [Hs _]. unfold is_leaf. destruct (children src n) as [[l r]|] eqn:Hc; [|reflexivity].
  destruct (summ_children H src n m l r Hs Hc) as (l' & r' & -> & _). discriminate.
Qed.

Lemma c_packed_iter_loop : forall fuel av am depth e per j ri cv cm sv sm, sn av am -> root cv = root cm -> sns sv sm ->
  csim eq (packed_iter_loop H src fuel av depth e per j ri cv sv) (packed_iter_loop H src fuel am depth e per j ri cm sm).
Proof.
  induction fuel as [|f IH]; intros av am depth e per j ri cv cm sv sm Ha Hc Hs; cbn [packed_iter_loop]; [apply csim_refl|].
  destruct (j <? per).
  - unfold packed_elem_bytes. rewrite Hc. fold (packed_elem_bytes H e cm j).
    destruct (packed_elem_bytes H e cm j) as [b|er]; [|apply csim_err]. cbn [bind].
    apply (csim_bind eq eq _ _ _ _ (IH av am depth e per (j + 1) ri cv cm sv sm Ha Hc Hs)). intros x y ->. apply csim_refl.
  - apply (csim_bind snp eq _ _ _ _ (c_advance av am depth ri sv sm Ha Hs)). intros [nv sv'] [nm sm'] [Hn Hs']. cbn [fst snd] in *.
    destruct (is_leaf src nm) eqn:Hl; [|apply csim_err]. rewrite (sn_leaf nv nm Hn Hl). cbn [negb].
    unfold packed_elem_bytes. rewrite (sn_root H nv nm Hn). fold (packed_elem_bytes H e nm 0).
    destruct (packed_elem_bytes H e nm 0) as [b|er]; [|apply csim_err]. cbn [bind].
    apply (csim_bind eq eq _ _ _ _ (IH av am depth e per 1 (ri + 1) nv nm sv' sm' Ha (sn_root H nv nm Hn) Hs')). intros x y ->. apply csim_refl.
Qed.
Theorem c_packed_iter av am depth len e size : sn av am -> csim eq (packed_iter H src av depth len e size) (packed_iter H src am depth len e size).
Proof. intros Ha. unfold packed_iter. cbv zeta. destruct (_ <? len); [apply csim_err|]. apply c_packed_iter_loop; [exact Ha|reflexivity|apply sns_repeat]. Qed.

Lemma c_bit_iter_loop : forall fuel av am depth j ri cur sv sm, sn av am -> sns sv sm ->
  csim eq (bit_iter_loop H src fuel av depth j ri cur sv) (bit_iter_loop H src fuel am depth j ri cur sm).
Proof.
  induction fuel as [|f IH]; intros av am depth j ri cur sv sm Ha Hs; cbn [bit_iter_loop]; [apply csim_refl|].
  destruct (0 <? j).
  - cbv zeta. apply (csim_bind eq eq _ _ _ _ (IH av am depth _ ri cur sv sm Ha Hs)). intros x y ->. apply csim_refl.
  - apply (csim_bind snp eq _ _ _ _ (c_advance av am depth ri sv sm Ha Hs)). intros [nv sv'] [nm sm'] [Hn Hs']. cbn [fst snd] in *.
    destruct (is_leaf src nm) eqn:Hl; [|apply csim_err]. rewrite (sn_leaf nv nm Hn Hl). cbn [negb]. cbv zeta. rewrite (sn_root H nv nm Hn).
    apply (csim_bind eq eq _ _ _ _ (IH av am depth 1 (ri + 1) (root nm) sv' sm' Ha Hs')). intros x y ->. apply csim_refl.
Qed.
Theorem c_bit_iter av am depth len : sn av am -> csim eq (bit_iter H src av depth len) (bit_iter H src am depth len).
Proof. intros Ha. unfold bit_iter. destruct (_ <? len); [apply csim_err|]. apply c_bit_iter_loop; [exact Ha|apply sns_repeat]. Qed.

Lemma c_seq {B} (f : node -> result B) : forall a b, sns a b -> (forall x y, sn x y -> csim eq (f x) (f y)) ->
  csim eq (seq_res (map f a)) (seq_res (map f b)).
Proof.
  intros a b Hab Hf. induction Hab as [|x y a b Hxy Hab IH]; [apply csim_refl|]. cbn [map seq_res].
  apply (csim_bind eq eq _ _ _ _ (Hf x y Hxy)). intros o o' ->. apply (csim_bind eq eq _ _ _ _ IH). intros r r' ->. apply csim_refl.
Qed.

Theorem c_to_obj : forall t n m, sn n m -> csim eq (to_obj H src t n) (to_obj H src t m).
Proof.
  induction t as [k| |bn|bl|yn|yl|e nn IHe|e l IHe|fs Hfs|b os Hos] using ty_ind'; intros n m Hs; cbn [ModelObj.to_obj];
    try (apply (csim_bind eq eq _ _ _ _ (csim_of_nsim _ _ _ (n_ser H src _ n m Hs))); intros x y ->; apply csim_refl).
  - rewrite (sn_root H n m Hs). apply csim_refl.
  - rewrite (sn_root H n m Hs). apply csim_refl.
  - (* vector *) apply (csim_bind eq eq _ _ _ _ (csim_of_nsim _ _ _ (n_view_len H src _ n m Hs))). intros ll ll' ->.
    apply (csim_bind eq eq); [|intros x y ->; apply csim_refl].
    destruct (basic_size e) as [s|].
    + apply (csim_bind eq eq _ _ _ _ (c_packed_iter n m _ _ e s Hs)). intros x y ->. apply csim_refl.
    + apply (csim_bind sns eq _ _ _ _ (c_node_iter n m _ _ Hs)). intros ns ns' Hns. now apply c_seq.
  - (* list *) apply (csim_bind eq eq _ _ _ _ (csim_of_nsim _ _ _ (n_view_len H src _ n m Hs))). intros ll ll' ->.
    apply (csim_bind eq eq); [|intros x y ->; apply csim_refl].
    destruct (basic_size e) as [s|].
    + apply (csim_bind eq eq _ _ _ _ (c_packed_iter n m _ _ e s Hs)). intros x y ->. apply csim_refl.
    + apply (csim_bind sns eq _ _ _ _ (c_node_iter n m _ _ Hs)). intros ns ns' Hns. now apply c_seq.
  - (* container *)
    apply (csim_bind sns eq _ _ _ _ (c_node_iter n m _ _ Hs)). intros ns ns' Hns.
    apply (csim_bind eq eq); [|intros x y ->; apply csim_refl].
    generalize 0%nat as i0. revert ns ns' Hns. induction Hfs as [|f fs' Hf Hfs' IH]; intros ns ns' Hns i0; [apply csim_refl|].
    destruct Hns as [|x y ns1 ns1' Hxy Hns']; [apply csim_refl|].
    apply (csim_bind eq eq _ _ _ _ (Hf x y Hxy)). intros o o' ->.
    apply (csim_bind eq eq _ _ _ _ (IH ns1 ns1' Hns' (S i0))). intros r r' ->. apply csim_refl.
  - (* union *)
    apply (csim_bind eq eq _ _ _ _ (csim_of_nsim _ _ _ (n_union_selector H src _ n m Hs))). intros sel sel' ->.
    apply (csim_bind sn eq _ _ _ _ (csim_of_nsim _ _ _ (n_get_left H src n m Hs))). intros c c' Hc. rewrite (sn_root H c c' Hc).
    destruct (b && (sel' =? 0)); [apply csim_refl|].
    apply (csim_bind eq eq); [|intros x y ->; apply csim_refl].
    generalize (N.to_nat (if b then sel' - 1 else sel')) as j. induction Hos as [|o os' Ho Hos' IH]; intros j; [destruct j; apply csim_refl|].
    destruct j as [|j]; [now apply Ho|apply IH].
Qed.
(* on a tree that represents a value: the export of a partial version is the value's export, or a navigation / index error *)
Theorem partial_export_total t v n m n0 : wf_ty t = true -> fields_ok t = true -> wf t v = true ->
  Repr H t v m -> mk H t v = Ok n0 -> sn n m ->
  (exists o, to_obj H src t n = Ok o /\ to_obj H src t m = Ok o /\ from_obj H t o = Ok n0) \/
  (exists e, to_obj H src t n = Err e /\ (e = ENav \/ e = EIndex)).
Proof.
  intros Hty Hf Hwf Hr Hmk Hs. destruct (obj_roundtrip H src t Hty Hf v m n0 Hwf Hr Hmk) as (o & Ho & Hfo).
  destruct (c_to_obj t n m Hs o Ho) as [(o' & Ho' & ->)|(e & He & Hn)]; [left; eauto|right; eauto].
Qed.
End WithHash.
