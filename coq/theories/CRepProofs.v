(* CRepProofs.v — reading and writing the bottom nodes of a contents tree through the CRep
   invariant: indexing returns the i-th node, writing updates exactly the i-th node, appending with
   expansion extends the represented list (C04, C15, C08). *)
Require Import RM.Base RM.Gindex RM.Tree RM.TreeProofs RM.Types RM.Spec RM.MerkleProofs RM.PathProofs.
From Coq Require Import ZifyBool ZifyNat ZifyN.
Local Open Scope N_scope.

Lemma testbit_top i d : i < 2 ^ N.of_nat (S d) -> N.testbit i (N.of_nat d) = (2 ^ N.of_nat d <=? i).
Proof.
  intros Hi. rewrite Nat2N.inj_succ, N.pow_succ_r' in Hi.
  destruct (2 ^ N.of_nat d <=? i) eqn:E.
  - apply N.leb_le in E. apply N.testbit_true.
    assert (i / 2 ^ N.of_nat d = 1) as -> by (symmetry; apply (N.div_unique i (2 ^ N.of_nat d) 1 (i - 2 ^ N.of_nat d)); lia).
    reflexivity.
  - apply N.leb_gt in E. destruct (N.eq_dec i 0) as [->|Hz]; [apply N.bits_0|].
    apply N.bits_above_log2. apply N.log2_lt_pow2; lia.
Qed.

Lemma be_bits_low d : forall i, 2 ^ N.of_nat d <= i -> i < 2 ^ N.of_nat (S d) -> be_bits d i = be_bits d (i - 2 ^ N.of_nat d).
Proof.
  intros i Hlo Hhi. rewrite Nat2N.inj_succ, N.pow_succ_r' in Hhi.
  set (j := i - 2 ^ N.of_nat d). assert (j < 2 ^ N.of_nat d) as Hj by (unfold j; lia).
  assert (i = N.lor (2 ^ N.of_nat d) j) as Ei by (rewrite (lor_pow2_small _ _ Hj); unfold j; lia).
  assert (forall k, (k <= d)%nat -> be_bits k i = be_bits k j) as Hk; [|apply Hk; lia].
  induction k as [|k IH]; intros Hkd; [reflexivity|]. cbn [be_bits]. rewrite IH by lia. f_equal.
  rewrite Ei, N.lor_spec, N.pow2_bits_eqb. destruct (N.eqb_spec (N.of_nat d) (N.of_nat k)); [lia|reflexivity].
Qed.

Section WithHash.
Variable H : bytes -> bytes -> bytes.
Variable src : bytes -> option (bytes * bytes).
Notation root := (root H).
Notation getter := (getter src).
Notation setter_below := (setter_below H src).
Notation CRep := (CRep H).
Notation zero_node := (zero_node H).

Lemma pow_nat_N d : N.of_nat (2 ^ d) = 2 ^ N.of_nat d.
Proof. rewrite Nat2N.inj_pow. reflexivity. Qed.

(* reading the i-th bottom node *)
Theorem CRep_get d n ns : CRep d n ns -> forall i dflt, i < lenN ns ->
  getter n (be_bits d i) = Ok (nth (N.to_nat i) ns dflt).
Proof.
  induction 1 as [d|x|d l r ls rs Hl IHl Hr IHr Hor]; intros i dflt Hi.
  - unfold lenN in Hi; cbn in Hi; lia.
  - unfold lenN in Hi; cbn in Hi. assert (i = 0) as -> by lia. reflexivity.
  - cbn [be_bits]. pose proof (CRep_len H _ _ _ Hl) as Hll. pose proof (CRep_len H _ _ _ Hr) as Hlr.
    assert (i < 2 ^ N.of_nat (S d)) as Hi2.
    { unfold lenN in Hi. rewrite app_length in Hi. rewrite <- pow_nat_N. cbn [Nat.pow].
      destruct Hor as [->|E]; cbn [length] in *; lia. }
    rewrite (testbit_top i d Hi2). cbn [Tree.getter Tree.children].
    destruct (2 ^ N.of_nat d <=? i) eqn:E; [apply N.leb_le in E|apply N.leb_gt in E].
    + assert (length ls = (2 ^ d)%nat) as El.
      { destruct Hor as [->|El]; [|exact El]. unfold lenN in Hi. rewrite app_nil_r in Hi. rewrite <- pow_nat_N in E. lia. }
      rewrite (be_bits_low d i E Hi2). rewrite app_nth2 by (rewrite El; rewrite <- pow_nat_N in E; lia).
      rewrite (IHr (i - 2 ^ N.of_nat d) dflt).
      * f_equal. f_equal. rewrite El. rewrite <- pow_nat_N. lia.
      * unfold lenN in *. rewrite app_length in Hi. rewrite <- pow_nat_N. lia.
    + assert (N.to_nat i < length ls)%nat as Hlt.
      { unfold lenN in Hi. rewrite app_length in Hi. rewrite <- pow_nat_N in E. destruct Hor as [->|El]; cbn [length] in *; lia. }
      rewrite app_nth1 by exact Hlt. apply IHl. unfold lenN. lia.
Qed.

(* list update at position i *)
Fixpoint upd {A} (i : nat) (v : A) (l : list A) : list A :=
  match l, i with [], _ => [] | _ :: t, O => v :: t | h :: t, S i' => h :: upd i' v t end.
Lemma upd_len {A} i (v : A) l : length (upd i v l) = length l.
Proof. revert i; induction l as [|h t IH]; intros [|i]; cbn; auto. Qed.
Lemma upd_app1 {A} i (v : A) l1 l2 : (i < length l1)%nat -> upd i v (l1 ++ l2) = upd i v l1 ++ l2.
Proof. revert i; induction l1 as [|h t IH]; intros [|i] Hi; cbn in *; try lia; auto. f_equal. apply IH. lia. Qed.
Lemma upd_app2 {A} i (v : A) l1 l2 : (length l1 <= i)%nat -> upd i v (l1 ++ l2) = l1 ++ upd (i - length l1) v l2.
Proof. revert i; induction l1 as [|h t IH]; intros i Hi; cbn in *. - now rewrite Nat.sub_0_r. - destruct i; [lia|]. cbn. f_equal. apply IH. lia. Qed.

(* writing the i-th bottom node (with or without expand: no leaf is crossed) *)
Theorem CRep_set e d n ns : CRep d n ns -> forall i v, i < lenN ns ->
  exists n', setter_below e n (be_bits d i) v = Ok n' /\ CRep d n' (upd (N.to_nat i) v ns).
Proof.
  induction 1 as [d|x|d l r ls rs Hl IHl Hr IHr Hor]; intros i v Hi.
  - unfold lenN in Hi; cbn in Hi; lia.
  - unfold lenN in Hi; cbn in Hi. assert (i = 0) as -> by lia. exists v. split; [reflexivity|constructor].
  - cbn [be_bits]. pose proof (CRep_len H _ _ _ Hl) as Hll. pose proof (CRep_len H _ _ _ Hr) as Hlr.
    assert (i < 2 ^ N.of_nat (S d)) as Hi2.
    { unfold lenN in Hi. rewrite app_length in Hi. rewrite <- pow_nat_N. cbn [Nat.pow].
      destruct Hor as [->|E]; cbn [length] in *; lia. }
    rewrite (testbit_top i d Hi2). cbn [Tree.setter_below Tree.children].
    destruct (2 ^ N.of_nat d <=? i) eqn:E; [apply N.leb_le in E|apply N.leb_gt in E].
    + assert (length ls = (2 ^ d)%nat) as El.
      { destruct Hor as [->|El]; [|exact El]. unfold lenN in Hi. rewrite app_nil_r in Hi. rewrite <- pow_nat_N in E. lia. }
      rewrite (be_bits_low d i E Hi2).
      destruct (IHr (i - 2 ^ N.of_nat d) v) as (r' & Hs & Hc).
      { unfold lenN in *. rewrite app_length in Hi. rewrite <- pow_nat_N. lia. }
      rewrite Hs. cbn [rebuild]. eexists; split; [reflexivity|].
      rewrite upd_app2 by (rewrite El; rewrite <- pow_nat_N in E; lia).
      replace (N.to_nat i - length ls)%nat with (N.to_nat (i - 2 ^ N.of_nat d)) by (rewrite El; rewrite <- pow_nat_N; lia).
      constructor; auto.
    + assert (N.to_nat i < length ls)%nat as Hlt.
      { unfold lenN in Hi. rewrite app_length in Hi. rewrite <- pow_nat_N in E. destruct Hor as [->|El]; cbn [length] in *; lia. }
      destruct (IHl i v) as (l' & Hs & Hc); [unfold lenN; lia|].
      rewrite Hs. cbn [rebuild]. eexists; split; [reflexivity|].
      rewrite upd_app1 by exact Hlt. constructor; auto. rewrite upd_len. exact Hor.
Qed.

(* expanding a zero summary and writing its first slot *)
Lemma be_bits_zero d : be_bits d 0 = repeat false d.
Proof. induction d as [|d IH]; cbn [be_bits repeat]; [reflexivity|]. now rewrite N.bits_0, IH. Qed.

Lemma bytes_eqb_rfl' b : bytes_eqb b b = true.
Proof. now apply bytes_eqb_eq. Qed.

Lemma set_zero_first d : forall v, exists n', setter_below true (zero_node d) (be_bits d 0) v = Ok n' /\ CRep d n' [v].
Proof.
  induction d as [|d IH]; intros v.
  - exists v. split; [reflexivity|constructor].
  - rewrite be_bits_zero. cbn [repeat Tree.setter_below]. unfold Tree.zero_node at 1 2.
    cbn [Tree.children Tree.root length]. rewrite repeat_length. rewrite bytes_eqb_rfl'. cbn [andb].
    fold (zero_node d). rewrite <- be_bits_zero.
    destruct (IH v) as (l' & Hs & Hc). rewrite Hs. cbn [rebuild]. eexists; split; [reflexivity|].
    change [v] with ([v] ++ []). constructor; [exact Hc|constructor|now left].
Qed.

(* appending: the write at position |ns| with expand extends the represented list *)
Theorem CRep_append d n ns : CRep d n ns -> forall v, (length ns < 2 ^ d)%nat ->
  exists n', setter_below true n (be_bits d (lenN ns)) v = Ok n' /\ CRep d n' (ns ++ [v]).
Proof.
  induction 1 as [d|x|d l r ls rs Hl IHl Hr IHr Hor]; intros v Hlt.
  - apply set_zero_first.
  - cbn in Hlt; lia.
  - cbn [be_bits]. pose proof (CRep_len H _ _ _ Hl) as Hll. pose proof (CRep_len H _ _ _ Hr) as Hlr.
    assert (lenN (ls ++ rs) < 2 ^ N.of_nat (S d)) as Hi2 by (unfold lenN; rewrite <- pow_nat_N; lia).
    rewrite (testbit_top _ d Hi2). cbn [Tree.setter_below Tree.children].
    destruct (2 ^ N.of_nat d <=? lenN (ls ++ rs)) eqn:E; [apply N.leb_le in E|apply N.leb_gt in E].
    + assert (length ls = (2 ^ d)%nat) as El.
      { destruct Hor as [->|El]; [|exact El]. unfold lenN in E. rewrite app_nil_r in E. rewrite <- pow_nat_N in E. lia. }
      rewrite (be_bits_low d _ E Hi2).
      assert (lenN (ls ++ rs) - 2 ^ N.of_nat d = lenN rs) as -> by (unfold lenN; rewrite app_length, El, <- pow_nat_N; lia).
      destruct (IHr v) as (r' & Hs & Hc). { rewrite app_length in Hlt. cbn [Nat.pow] in Hlt. lia. }
      rewrite Hs. cbn [rebuild]. eexists; split; [reflexivity|]. rewrite <- app_assoc. constructor; auto.
    + assert (rs = []) as ->.
      { destruct Hor as [->|El]; [reflexivity|]. destruct rs; [reflexivity|]. unfold lenN in E. rewrite app_length, El in E. rewrite <- pow_nat_N in E. cbn [length] in E. lia. }
      rewrite app_nil_r in *. destruct (IHl v) as (l' & Hs & Hc). { unfold lenN in E. rewrite <- pow_nat_N in E. lia. }
      rewrite Hs. cbn [rebuild]. eexists; split; [reflexivity|].
      rewrite <- (app_nil_r (ls ++ [v])). constructor; [exact Hc|exact Hr|now left].
Qed.

End WithHash.
