(* ModelObj.v — model of to_obj / from_obj (basic.py:58-65,201-212,261-273; complex.py:169-174,
   498-499,672-673,939-950; bitfields.py:102-113; byte_arrays.py:61-68; union.py:221-240)
   and of a JSON dump/load round trip on the exported fragment. *)
Require Import RM.Base RM.Gindex RM.Tree RM.Types RM.Spec RM.ModelViews RM.ModelCodec RM.ModelMut RM.ModelIters.
Local Open Scope N_scope.

Inductive obj :=
| JInt (n : N)
| JBool (b : bool)
| JStr (s : bytes)                    (* ASCII text *)
| JSeq (tuple : bool) (l : list obj)  (* list / tuple *)
| JDict (kvs : list (bytes * obj))
| JNull.

(* json.loads(json.dumps(o)): tuples become lists *)
Fixpoint json_rt (o : obj) : obj :=
  match o with
  | JSeq _ l => JSeq false (map json_rt l)
  | JDict kvs => JDict (map (fun kv => (fst kv, json_rt (snd kv))) kvs)
  | x => x
  end.

(* ---- ASCII helpers ---- *)
Definition ascii_digit (n : N) : byte := byte_of_N (if n <? 10 then n + 48 else n + 87).
Fixpoint hex_text (bs : bytes) : bytes :=
  match bs with
  | [] => []
  | b :: r => let n := Byte.to_N b in ascii_digit (n / 16) :: ascii_digit (n mod 16) :: hex_text r
  end.
Definition x0x : bytes := [byte_of_N 48; byte_of_N 120].     (* "0x" *)
Definition hexval_b (c : byte) : option N :=
  let n := Byte.to_N c in
  if (48 <=? n) && (n <=? 57) then Some (n - 48)
  else if (97 <=? n) && (n <=? 102) then Some (n - 87)
  else if (65 <=? n) && (n <=? 70) then Some (n - 55) else None.
(* bytes.fromhex on text without whitespace: ValueError on odd length / non-hex *)
Fixpoint unhex_text (s : bytes) : result bytes :=
  match s with
  | [] => Ok []
  | a :: b :: r =>
      match hexval_b a, hexval_b b with
      | Some x, Some y => do rest <- unhex_text r; Ok (byte_of_N (16 * x + y) :: rest)
      | _, _ => Err EValue
      end
  | _ => Err EValue
  end.
Definition starts_0x (s : bytes) : bool :=
  match s with a :: b :: _ => byte_eqb a (byte_of_N 48) && byte_eqb b (byte_of_N 120) | _ => false end.
(* int(text): decimal digits only (no sign, no spaces are generated) *)
Fixpoint dec_value (s : bytes) (acc : N) : result N :=
  match s with
  | [] => Ok acc
  | c :: r => let n := Byte.to_N c in
              if (48 <=? n) && (n <=? 57) then dec_value r (10 * acc + (n - 48)) else Err EValue
  end.
Definition field_name (i : nat) : bytes :=
  byte_of_N 102 ::                                    (* "f" *)
  (fix digits (fuel : nat) (n : N) (acc : bytes) : bytes :=
     match fuel with
     | O => acc
     | S f => let acc' := byte_of_N (48 + n mod 10) :: acc in
              if n <? 10 then acc' else digits f (n / 10) acc'
     end) 20%nat (N.of_nat i) [].
Definition str_selector : bytes := map byte_of_N [115; 101; 108; 101; 99; 116; 111; 114].
Definition str_value : bytes := map byte_of_N [118; 97; 108; 117; 101].

Section WithHash.
Variable H : bytes -> bytes -> bytes.
Variable src : bytes -> option (bytes * bytes).
Notation root := (root H).
Notation ser_impl := (ser_impl H src).
Notation mk := (mk H).

(* ---- to_obj ---- *)
Fixpoint to_obj (t : ty) (n : node) {struct t} : result obj :=
  match t with
  | TUint k =>
      let b := firstn (N.to_nat k) (root n) in
      if k <=? 8 then Ok (JInt (le_val b)) else Ok (JStr (x0x ++ hex_text b))
  | TBool => do v <- bool_decode (firstn 1 (root n)); Ok (JBool (negb (v =? 0)))
  | TBitvector _ | TBitlist _ | TByteVector _ | TByteList _ =>
      do e <- ser_impl t n; Ok (JStr (x0x ++ hex_text (fst e)))
  | TVector e _ | TList e _ =>
      do ll <- view_len H src t n;
      do els <- match basic_size e with
                | Some s =>
                    do bs <- packed_iter H src n (tree_depth t) ll e s;
                    seq_res (map (fun b => to_obj e (basic_node b)) bs)
                | None =>
                    do ns <- node_iter src n (tree_depth t) ll;
                    seq_res (map (to_obj e) ns)
                end;
      Ok (JSeq (match t with TVector _ _ => true | _ => false end) els)
  | TContainer fs =>
      do ns <- node_iter src n (tree_depth t) (lenN fs);
      do kvs <- (fix go (fs : list ty) (ns : list node) (i : nat) : result (list (bytes * obj)) :=
                   match fs, ns with
                   | f :: fs', x :: ns' => do o <- to_obj f x; do r <- go fs' ns' (S i); Ok ((field_name i, o) :: r)
                   | _, _ => Ok []
                   end) fs ns O;
      Ok (JDict kvs)
  | TUnion none0 opts =>
      do sel <- union_selector H src t n;
      do vn <- get_left src n;
      if none0 && (sel =? 0) then
        if bytes_eqb (root vn) zero32 then Ok (JDict [(str_selector, JInt sel); (str_value, JNull)]) else Err EOther
      else
        do o <- (fix pick (os : list ty) (i : nat) : result obj :=
                   match os, i with
                   | o :: _, O => to_obj o vn
                   | _ :: os', S i' => pick os' i'
                   | [], _ => Err EIndex
                   end) opts (N.to_nat (if none0 then sel - 1 else sel));
        Ok (JDict [(str_selector, JInt sel); (str_value, o)])
  end.

(* ---- from_obj ---- *)
Fixpoint assoc (k : bytes) (kvs : list (bytes * obj)) : option obj :=
  match kvs with
  | [] => None
  | (a, v) :: r => if bytes_eqb a k then Some v else assoc k r
  end.

Definition bits_of_bytes (bs : bytes) : list bool :=
  flat_map (fun b => map (N.testbit (Byte.to_N b)) [0; 1; 2; 3; 4; 5; 6; 7]) bs.

Fixpoint from_obj (t : ty) (o : obj) {struct t} : result node :=
  match t with
  | TUint k =>
      match o with
      | JInt n => mk t (VUint n)
      | JBool b => mk t (VUint (if b then 1 else 0))        (* bool is an int in Python *)
      | JStr s =>
          if starts_0x s then do b <- unhex_text (skipn 2 s); mk t (VUint (le_val b))
          else do n <- dec_value s 0; (match s with [] => Err EValue | _ => mk t (VUint n) end)
      | _ => Err EOther
      end
  | TBool => match o with JBool b => mk t (VBool b) | _ => Err EOther end
  | TByteVector _ | TByteList _ =>
      match o with
      | JStr s => do b <- unhex_text (if starts_0x s then skipn 2 s else s); mk t (VBytes b)
      | JSeq _ l =>
          do bs <- seq_res (map (fun x => match x with
                                          | JInt n => if n <? 256 then Ok (byte_of_N n) else Err EValue
                                          | JBool b => Ok (byte_of_N (if b then 1 else 0))
                                          | _ => Err EType end) l);
          mk t (VBytes bs)
      | _ => Err EOther
      end
  | TBitvector _ | TBitlist _ =>
      match o with
      | JStr s =>
          if starts_0x s then do b <- unhex_text (skipn 2 s); decode_bytes H t b
          else mk t (VBits (map (fun c => byte_eqb c (byte_of_N 49)) s))
      | JSeq _ l =>
          (* cls(obj): list(map(bool, vals)) — any JSON scalar is truthy/falsy *)
          do bs <- seq_res (map (fun x => match x with
                                          | JBool b => Ok b
                                          | JInt n => Ok (negb (n =? 0))
                                          | JNull => Ok false
                                          | JStr s => Ok (negb (lenN s =? 0))
                                          | JSeq _ l' => Ok (negb (lenN l' =? 0))
                                          | JDict l' => Ok (negb (lenN l' =? 0))
                                          end) l);
          (match l with
           | [] => (* Bitvector[n]([]) / Bitlist[n]([]) *) mk t (VBits [])
           | _ => mk t (VBits bs)
           end)
      | _ => Err EOther
      end
  | TVector e _ | TList e _ =>
      match o with
      | JSeq _ l =>
          (* cls(generator of element views): views are taken as they are *)
          do ns <- seq_res (map (from_obj e) l);
          match ns with
          | [] => default_node H t
          | _ =>
              let cnt := lenN ns in
              let bad := match t with TVector _ k => negb (cnt =? k) | TList _ lim => lim <? cnt | _ => true end in
              if bad then Err EOther
              else
                let nodes := match basic_size e with
                             | Some s => map RootN (pack_ints s (map (fun x => le_val (firstn (N.to_nat s) (root x))) ns))
                             | None => ns
                             end in
                do c <- fill_to_contents H nodes (contents_depth t);
                Ok (match t with TList _ _ => PairN c (len_node cnt) | _ => c end)
          end
      | _ => Err EOther
      end
  | TContainer fs =>
      match o with
      | JDict kvs =>
          (* unknown keys are rejected; missing keys take the field's default *)
          if negb (forallb (fun kv => existsb (fun i => bytes_eqb (fst kv) (field_name i)) (seq 0 (length fs))) kvs)
          then Err EOther
          else
            do ns <- (fix go (fs : list ty) (i : nat) : result (list node) :=
                        match fs with
                        | [] => Ok []
                        | f :: fs' =>
                            do a <- match assoc (field_name i) kvs with
                                    | Some x => from_obj f x
                                    | None => default_node H f
                                    end;
                            do r <- go fs' (S i); Ok (a :: r)
                        end) fs O;
            fill_to_contents H ns (contents_depth t)
      | _ => Err EOther
      end
  | TUnion none0 opts =>
      match o with
      | JDict kvs =>
          match assoc str_selector kvs, assoc str_value kvs with
          | Some (JInt sel), Some v =>
              if lenN opts + (if none0 then 1 else 0) <=? sel then Err EIndex
              else if none0 && (sel =? 0) then
                match v with JNull => Ok (PairN (zero_node H 0) (len_node 0)) | _ => Err EValue end
              else
                do x <- (fix pick (os : list ty) (i : nat) : result node :=
                           match os, i with
                           | o' :: _, O => from_obj o' v
                           | _ :: os', S i' => pick os' i'
                           | [], _ => Err EIndex
                           end) opts (N.to_nat (if none0 then sel - 1 else sel));
                Ok (PairN x (len_node sel))
          | _, _ => Err EKey
          end
      | _ => Err EValue
      end
  end.

End WithHash.
