(* TreeHeap.v — a heap of node objects: addresses (object identity), lazily filled root caches and a
   hash counter.  Models what PairNode.__init__, merkle_root, rebind_* and setter do to the Python
   heap (tree.py:128-202, 266-302), so that "the very same node object" and "number of hash calls"
   can be stated (C06, C19). *)
Require Import RM.Base RM.Gindex RM.Tree.
Local Open Scope N_scope.

Definition addr := nat.
Inductive hobj :=
| HRoot (r : bytes)                                   (* RootNode(root) *)
| HPair (l r : addr) (cache : option bytes).          (* PairNode(left, right), _root *)
Record heap := { objs : list hobj; hashes : N; allocs : N }.

Definition h_empty : heap := {| objs := []; hashes := 0; allocs := 0 |}.
Definition h_get (h : heap) (a : addr) : option hobj := nth_error (objs h) a.
Definition h_alloc (h : heap) (o : hobj) : addr * heap :=
  (length (objs h), {| objs := objs h ++ [o]; hashes := hashes h; allocs := allocs h + 1 |}).

Section WithHash.
Variable H : bytes -> bytes -> bytes.

(* load a pure tree: every node becomes a fresh object (VirtN is not part of this model) *)
Fixpoint h_load (n : node) (h : heap) : addr * heap :=
  match n with
  | RootN r | VirtN r => h_alloc h (HRoot r)
  | PairN l r =>
      let '(al, h1) := h_load l h in
      let '(ar, h2) := h_load r h1 in
      h_alloc h2 (HPair al ar None)
  end.

(* the tree an address denotes (fuel = address + 1: children have smaller addresses) *)
Fixpoint den (fuel : nat) (h : heap) (a : addr) : option node :=
  match fuel with
  | O => None
  | S f =>
      match h_get h a with
      | None => None
      | Some (HRoot r) => Some (RootN r)
      | Some (HPair l r _) =>
          match den f h l, den f h r with
          | Some x, Some y => Some (PairN x y)
          | _, _ => None
          end
      end
  end.
Definition den_of (h : heap) (a : addr) : option node := den (S a) h a.

Definition set_cache (h : heap) (a : addr) (c : bytes) : heap :=
  match h_get h a with
  | Some (HPair l r _) =>
      {| objs := firstn a (objs h) ++ HPair l r (Some c) :: skipn (S a) (objs h);
         hashes := hashes h; allocs := allocs h |}
  | _ => h
  end.
Definition bump (h : heap) : heap := {| objs := objs h; hashes := hashes h + 1; allocs := allocs h |}.

(* merkle_root(): cached roots are returned, uncached pairs hash their children's roots once *)
Fixpoint h_root (fuel : nat) (h : heap) (a : addr) : option (bytes * heap) :=
  match fuel with
  | O => None
  | S f =>
      match h_get h a with
      | None => None
      | Some (HRoot r) => Some (r, h)
      | Some (HPair l r (Some c)) => Some (c, h)
      | Some (HPair l r None) =>
          match h_root f h l with
          | None => None
          | Some (rl, h1) =>
              match h_root f h1 r with
              | None => None
              | Some (rr, h2) => let c := H rl rr in Some (c, set_cache (bump h2) a c)
              end
          end
      end
  end.
Definition h_root_of (h : heap) (a : addr) := h_root (S a) h a.

Definition h_zero_node (d : nat) (h : heap) : addr * heap := h_alloc h (HRoot (zero_hash H d)).

Definition h_children (h : heap) (a : addr) : option (addr * addr) :=
  match h_get h a with Some (HPair l r _) => Some (l, r) | _ => None end.

(* getter by path *)
Fixpoint h_getter (h : heap) (a : addr) (p : list bool) : result addr :=
  match p with
  | [] => Ok a
  | b :: p' =>
      match h_children h a with
      | None => Err ENav
      | Some (l, r) => h_getter h (if b then r else l) p'
      end
  end.

(* expansion of a zero summary: child = zero_node(k); node = PairNode(child, child) *)
Definition h_expand (k : nat) (h : heap) : addr * heap :=
  let '(z, h0) := h_zero_node k h in
  let '(_, h0') := h_alloc h0 (HPair z z None) in (z, h0').

(* setter(expand): allocates one PairNode per path step (plus the expansion's zero nodes) and keeps
   every off-path child address *)
Fixpoint h_setter (expand : bool) (h : heap) (a : addr) (p : list bool) (v : addr) : result (addr * heap) :=
  match p with
  | [] => Ok (v, h)
  | b :: p' =>
      match h_get h a with
      | Some (HPair l r _) =>
          do x <- h_setter expand h (if b then r else l) p' v;
          let '(c, h1) := x in
          Ok (h_alloc h1 (if b then HPair l c None else HPair c r None))
      | Some (HRoot rt) =>
          if expand && bytes_eqb rt (zero_hash H (length p)) then
            (* child = zero_node(depth-1); node = PairNode(child, child): one RootNode, used twice *)
            let '(z, h0') := h_expand (length p') h in
            do x <- h_setter expand h0' z p' v;
            let '(c, h1) := x in
            Ok (h_alloc h1 (if b then HPair z c None else HPair c z None))
          else Err ENav
      | None => Err ENav
      end
  end.

Definition h_rebind_right (h : heap) (a v : addr) : result (addr * heap) :=
  match h_children h a with
  | Some (l, _) => Ok (h_alloc h (HPair l v None))
  | None => Err ENav
  end.

(* summarize_into(target)(): RootNode(node.merkle_root()) written with a plain setter *)
Definition h_summarize (h : heap) (a : addr) (p : list bool) : result (addr * heap) :=
  do x <- h_getter h a p;
  match h_root_of h x with
  | None => Err EOther
  | Some (rt, h1) =>
      let '(s, h2) := h_alloc h1 (HRoot rt) in
      h_setter false h2 a p s
  end.

(* number of pairs reachable from a that have no cached root (what the next merkle_root() hashes) *)
Fixpoint uncached (fuel : nat) (h : heap) (a : addr) (seen : list addr) : N * list addr :=
  match fuel with
  | O => (0, seen)
  | S f =>
      if existsb (Nat.eqb a) seen then (0, seen)
      else
        match h_get h a with
        | Some (HPair l r None) =>
            let '(nl, s1) := uncached f h l (a :: seen) in
            let '(nr, s2) := uncached f h r s1 in
            (1 + nl + nr, s2)
        | _ => (0, seen)
        end
  end.

End WithHash.
