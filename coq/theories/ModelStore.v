(* ModelStore.v — a store of mutable view cells with hooks (core.py:223-248, subtree.py:21-32,
   union.py:107-117): aliasing between parent and child views, copies, failed mutations.
   A command returns a result AND the store; on error the store returned is the store as the code
   leaves it (which the theorems show to be the unchanged store for the listed operations). *)
Require Import RM.Base RM.Gindex RM.Tree RM.Types RM.Spec RM.ModelViews RM.ModelCodec RM.ModelMut.
Local Open Scope N_scope.

Definition vid := nat.
Inductive hook :=
| HNone
| HElem (parent : vid) (i : N)        (* lambda v: parent.set(i, v) *)
| HUnionValue (parent : vid).         (* Union.value()'s handle_change *)
Record cell := { cty : ty; cback : node; chook : hook }.
Definition store := list cell.

(* argument of a mutating command *)
Inductive arg :=
| AVal (v : val)                      (* plain data / a view of the element type with this content *)
| AUintOther (w : N) (n : N)          (* a uint view of byte width w (different from the element's) *)
| ANone.                              (* Python None *)

Inductive cmd :=
| CGet (v : vid) (i : Z)              (* child view: v[i] / v.f<i> *)
| CValue (v : vid)                    (* union value() *)
| CSet (v : vid) (i : Z) (a : arg)    (* v[i] = a / v.f<i> = a *)
| CAppend (v : vid) (a : arg)
| CPop (v : vid)
| CBitSet (v : vid) (i : Z) (a : arg)
| CChange (v : vid) (sel : Z) (a : arg)
| CCopy (v : vid).

(* structural equality of types (the hook of a union's value view remembers the option type it was obtained under) *)
Fixpoint ty_eqb (a b : ty) {struct a} : bool :=
  match a, b with
  | TUint x, TUint y => x =? y
  | TBool, TBool => true
  | TBitvector x, TBitvector y => x =? y
  | TBitlist x, TBitlist y => x =? y
  | TByteVector x, TByteVector y => x =? y
  | TByteList x, TByteList y => x =? y
  | TVector e n, TVector e' n' => ty_eqb e e' && (n =? n')
  | TList e l, TList e' l' => ty_eqb e e' && (l =? l')
  | TContainer fs, TContainer fs' =>
      (fix go (l l' : list ty) {struct l} : bool :=
         match l, l' with [], [] => true | x :: r, y :: r' => ty_eqb x y && go r r' | _, _ => false end) fs fs'
  | TUnion b os, TUnion b' os' =>
      Bool.eqb b b' &&
      (fix go (l l' : list ty) {struct l} : bool :=
         match l, l' with [], [] => true | x :: r, y :: r' => ty_eqb x y && go r r' | _, _ => false end) os os'
  | _, _ => false
  end.

Section WithHash.
Variable H : bytes -> bytes -> bytes.
Variable src : bytes -> option (bytes * bytes).
Notation mk := (mk H).

(* Union.value()'s handle_change (union.py, after fix D15): the view of a union's value refuses to write back once the
   union holds an option of another type (the view is stale) *)
Definition union_guard (t : ty) (pn : node) (e : ty) : result unit :=
  match t with
  | TUnion b os =>
      do sel <- union_selector H src t pn;
      match union_opt b os (N.to_nat sel) with
      | Some o => if ty_eqb o e then Ok tt else Err EOther
      | None => Err EOther
      end
  | _ => Err EOther
  end.

Definition upd_cell (s : store) (v : vid) (c : cell) : store :=
  firstn v s ++ c :: skipn (S v) s.

(* elem_type.coerce_view(a).get_backing() *)
Definition coerce_arg (e : ty) (a : arg) : result node :=
  match a with
  | AVal v => mk e v
  | AUintOther w n =>
      match e with
      | TUint k => if w =? k then mk e (VUint n) else Err EValue
      | _ => Err EType
      end
  | ANone => Err EType
  end.

(* BackedView.set_backing: write the cell, then run its hook, which sets the element in the parent
   and recursively the parent's backing.  fuel: the parent of a cell has a smaller id. *)
Fixpoint set_backing (fuel : nat) (s : store) (v : vid) (b : node) : result unit * store :=
  match nth_error s v with
  | None => (Err EOther, s)
  | Some c =>
      let s1 := upd_cell s v {| cty := cty c; cback := b; chook := chook c |} in
      match chook c with
      | HNone => (Ok tt, s1)
      | HElem p i =>
          match fuel with
          | O => (Err EOther, s1)
          | S f =>
              match nth_error s1 p with
              | None => (Err EOther, s1)
              | Some pc =>
                  (* parent.set(i, child): bounds check, then setter, then parent.set_backing *)
                  match view_set H src (cty pc) (cback pc) (Z.of_N i) b with
                  | Err e => (Err e, s1)
                  | Ok nb => set_backing f s1 p nb
                  end
              end
          end
      | HUnionValue p =>
          match fuel with
          | O => (Err EOther, s1)
          | S f =>
              match nth_error s1 p with
              | None => (Err EOther, s1)
              | Some pc =>
                  match (do _ <- union_guard (cty pc) (cback pc) (cty c); setter_g H src false (cback pc) 2 b) with
                  | Err e => (Err e, s1)
                  | Ok nb => set_backing f s1 p nb
                  end
              end
          end
      end
  end.

(* view_from_backing of a basic type reads the value out of the node's root (core.py:259-262);
   the cell of such a child holds the backing its get_backing() rebuilds *)
Definition normalise_child (e : ty) (nd : node) : result node :=
  match e with
  | TUint k => Ok (basic_node (firstn (N.to_nat k) (root H nd)))
  | TBool => do v <- bool_decode (firstn 1 (root H nd)); Ok (basic_node [byte_of_N v])
  | TByteVector _ | TByteList _ =>
      (* raw-bytes views read their bytes out of the backing at once (byte_arrays.py:116-126, 203-215)
         and rebuild a backing from the bytes on demand *)
      do x <- ser_impl H src e nd; mk e (VBytes (fst x))
  | _ => Ok nd
  end.

(* a command: (result, observable store).  New cells are appended. *)
Definition run_cmd (s : store) (c : cmd) : result unit * store :=
  let fuel := length s in
  let with_cell (v : vid) (k : cell -> result unit * store) :=
    match nth_error s v with Some c => k c | None => (Err EOther, s) end in
  match c with
  | CGet v i =>
      with_cell v (fun c =>
        match cty c with
        | TBitvector _ | TBitlist _ =>
            match bits_get H src (cty c) (cback c) i with Ok _ => (Ok tt, s) | Err e => (Err e, s) end
        | _ =>
            match check_index H src (cty c) (cback c) i with
            | Err e => (Err e, s)
            | Ok k =>
                match elem_ty (cty c) k, (do x <- sub_get H src (cty c) (cback c) k;
                                          do e <- elem_ty (cty c) k; normalise_child e x) with
                | Ok e, Ok nd =>
                    (* basic and raw-bytes children are immutable values: no hook *)
                    let hk := match e with
                              | TUint _ | TBool | TByteVector _ | TByteList _ => HNone
                              | _ => HElem v k
                              end in
                    (Ok tt, s ++ [{| cty := e; cback := nd; chook := hk |}])
                | Err e, _ => (Err e, s)
                | _, Err e => (Err e, s)
                end
            end
        end)
  | CValue v =>
      with_cell v (fun c =>
        match union_value H src (cty c) (cback c) with
        | Err e => (Err e, s)
        | Ok None => (Ok tt, s)
        | Ok (Some (o, nd0)) =>
            match normalise_child o nd0 with
            | Err e => (Err e, s)
            | Ok nd =>
            let hk := match o with
                      | TUint _ | TBool | TByteVector _ | TByteList _ => HNone
                      | _ => HUnionValue v
                      end in
            (Ok tt, s ++ [{| cty := o; cback := nd; chook := hk |}])
            end
        end)
  | CSet v i a =>
      with_cell v (fun c =>
        match cty c with
        | TBitvector _ | TBitlist _ => (Err EType, s)
        | _ =>
            (* bounds, then coercion, then the write *)
            match check_index H src (cty c) (cback c) i with
            | Err e => (Err e, s)
            | Ok k =>
                match (do e <- elem_ty (cty c) k; do x <- coerce_arg e a; sub_set H src (cty c) (cback c) k x) with
                | Err e => (Err e, s)
                | Ok nb => set_backing fuel s v nb
                end
            end
        end)
  | CAppend v a =>
      with_cell v (fun c =>
        match cty c with
        | TList e limit =>
            (* capacity check precedes the coercion *)
            match (do ll <- mixin_value H src (cback c);
                   if limit <=? ll then Err EOther else
                   do x <- coerce_arg e a; list_append H src (cty c) (cback c) x) with
            | Err e => (Err e, s)
            | Ok nb => set_backing fuel s v nb
            end
        | TBitlist _ =>
            match a with
            | AVal (VBool b) =>
                match bitlist_append H src (cty c) (cback c) b with
                | Err e => (Err e, s)
                | Ok nb => set_backing fuel s v nb
                end
            | _ => (Err EType, s)
            end
        | _ => (Err EAttr, s)
        end)
  | CPop v =>
      with_cell v (fun c =>
        match (match cty c with
               | TList _ _ => list_pop H src (cty c) (cback c)
               | TBitlist _ => bitlist_pop H src (cty c) (cback c)
               | _ => Err EAttr
               end) with
        | Err e => (Err e, s)
        | Ok nb => set_backing fuel s v nb
        end)
  | CBitSet v i a =>
      with_cell v (fun c =>
        match a with
        | AVal (VBool b) =>
            match bits_set H src (cty c) (cback c) i b with
            | Err e => (Err e, s)
            | Ok nb => set_backing fuel s v nb
            end
        | _ => (Err EType, s)
        end)
  | CChange v sel a =>
      with_cell v (fun c =>
        match cty c with
        | TUnion none0 opts =>
            let r :=
              if (sel <? 0)%Z then Err EValue
              else if (Z.of_N (lenN opts + (if none0 then 1 else 0)) <=? sel)%Z then Err EKey
              else match union_opt none0 opts (Z.to_nat sel), a with
                   | None, ANone => union_change H (cty c) sel None
                   | Some o, ANone => Err EType
                   | None, _ => Err EType
                   | Some o, _ => do x <- coerce_arg o a; union_change H (cty c) sel (Some x)
                   end in
            match r with
            | Err e => (Err e, s)
            | Ok nb => set_backing fuel s v nb
            end
        | _ => (Err EAttr, s)
        end)
  | CCopy v =>
      with_cell v (fun c => (Ok tt, s ++ [{| cty := cty c; cback := cback c; chook := HNone |}]))
  end.

(* ---- `view[a:b] = values` on lists and vectors (complex.py MonoSubtreeView.__setitem__, after fix D14): coerce every
        value, check the count, check the bounds — and only then write element by element ---- *)
Fixpoint slice_cmds (u : vid) (a : Z) (args : list arg) : list cmd :=
  match args with [] => [] | x :: r => CSet u a x :: slice_cmds u (a + 1) r end.
Fixpoint run_seq (s : store) (cs : list cmd) : result unit * store :=
  match cs with
  | [] => (Ok tt, s)
  | c :: r => match run_cmd s c with (Ok _, s') => run_seq s' r | (Err e, s') => (Err e, s') end
  end.
Definition slice_set (s : store) (u : vid) (a b : Z) (args : list arg) : result unit * store :=
  match nth_error s u with
  | None => (Err EOther, s)
  | Some c =>
      match match cty c with TVector e _ | TList e _ => Some e | _ => None end with
      | None => (Err EOther, s)
      | Some e =>
          match seq_res (map (coerce_arg e) args) with
          | Err er => (Err er, s)
          | Ok _ =>
              if negb (a + Z.of_nat (length args) =? b)%Z then (Err EOther, s)
              else match view_len H src (cty c) (cback c) with
                   | Err er => (Err er, s)
                   | Ok ll => if (a <? 0)%Z || (Z.of_N ll <? b)%Z then (Err EIndex, s) else run_seq s (slice_cmds u a args)
                   end
          end
      end
  end.

End WithHash.
