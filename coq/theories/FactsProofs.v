(* FactsProofs.v — the class-method type facts of the implementation model equal the
   specification-side facts (C11), by induction on the type expression. *)
Require Import RM.Base RM.Gindex RM.Types RM.Spec RM.ModelViews.
Local Open Scope N_scope.

Lemma is_fixed_impl_eq : forall t, is_fixed_impl t = is_fixed t.
Proof.
  (* the two recursions are literally the same *)
  induction t using ty_ind'; cbn; auto.
Qed.

Lemma fold_left_add_acc {A} (g : A -> N) (l : list A) (a : N) :
  fold_left (fun total f => total + g f) l a = a + sumN (map g l).
Proof.
  revert a; induction l as [|x l IH]; intros a; cbn; [lia|]. rewrite IH. unfold sumN. lia.
Qed.

Lemma cont_fold (mi ms : ty -> N) (fx : ty -> bool) fs a :
  (forall f, In f fs -> mi f = ms f) ->
  fold_left (fun total f => (if fx f then total else total + OFFSET) + mi f) fs a
  = a + sumN (map (fun f => if fx f then ms f else ms f + OFFSET) fs).
Proof.
  revert a; induction fs as [|f fs IH]; intros a Hin; cbn [fold_left map].
  - unfold sumN; cbn; lia.
  - rewrite IH by (intros g Hg; apply Hin; now right).
    rewrite (Hin f) by now left. unfold sumN; cbn [fold_right]. destruct (fx f); lia.
Qed.

Lemma fold_left_min_acc l : forall a, fold_left N.min l a = minN l a.
Proof.
  intros a. unfold minN. apply fold_symmetric.
  - intros x y z. apply N.min_assoc.
  - intros y. apply N.min_comm.
Qed.

Lemma fold_left_max_acc l : forall a, fold_left N.max l a = N.max a (maxN l).
Proof.
  intros a. rewrite fold_symmetric.
  - unfold maxN. induction l as [|x l IH]; cbn; [lia|]. rewrite IH. lia.
  - intros x y z. apply N.max_assoc.
  - intros y. apply N.max_comm.
Qed.

Lemma minN_zero l : fold_right N.min 0 l = 0.
Proof. induction l as [|z l IH]; cbn; [reflexivity|rewrite IH; lia]. Qed.

Lemma min_impl_eq : forall t, min_impl t = min_len t.
Proof.
  induction t as [k| |n|n|n|n|e n IHe|e n IHe|fs Hfs|b os Hos] using ty_ind'; cbn [min_impl min_len].
  - reflexivity. - reflexivity. - reflexivity. - reflexivity. - reflexivity. - reflexivity.
  - rewrite is_fixed_impl_eq, IHe. destruct (is_fixed e); reflexivity.
  - reflexivity.
  - rewrite (cont_fold min_impl min_len is_fixed_impl fs 0).
    + rewrite N.add_0_l. f_equal.
    + intros f Hf. rewrite Forall_forall in Hfs. now apply Hfs.
  - f_equal. destruct os as [|o os].
    + destruct b; reflexivity.
    + destruct b; cbn [app map].
      * rewrite fold_left_min_acc. unfold minN. apply minN_zero.
      * rewrite fold_left_min_acc. inversion Hos as [|? ? Ho Hos']; subst. rewrite Ho. f_equal.
        apply map_ext_in. intros f Hf. rewrite Forall_forall in Hos'. now apply Hos'.
Qed.

Lemma max_impl_eq : forall t, max_impl t = max_len t.
Proof.
  induction t as [k| |n|n|n|n|e n IHe|e n IHe|fs Hfs|b os Hos] using ty_ind'; cbn [max_impl max_len].
  - reflexivity. - reflexivity. - reflexivity.
  - replace (n + 7 + 1) with (n + 1 * 8) by lia. rewrite N.div_add by lia. reflexivity.
  - reflexivity. - reflexivity.
  - rewrite is_fixed_impl_eq, IHe. destruct (is_fixed e); reflexivity.
  - rewrite is_fixed_impl_eq, IHe. reflexivity.
  - rewrite (cont_fold max_impl max_len is_fixed_impl fs 0).
    + rewrite N.add_0_l. f_equal.
    + intros f Hf. rewrite Forall_forall in Hfs. now apply Hfs.
  - f_equal. rewrite fold_left_max_acc. rewrite N.max_0_l.
    assert (map max_impl os = map max_len os) as E.
    { apply map_ext_in. intros f Hf. rewrite Forall_forall in Hos. now apply Hos. }
    destruct b; cbn [app]; unfold maxN; cbn [fold_right]; rewrite E; [apply N.max_0_l|reflexivity].
Qed.

(* the fixed size is the minimum (= maximum) length of a fixed-size type *)
Lemma fixed_min_eq_fsize : forall t, is_fixed t = true -> min_len t = fsize t /\ max_len t = fsize t.
Proof.
  induction t using ty_ind'; cbn [is_fixed min_len max_len fsize]; intros Hf; try discriminate; auto.
  - rewrite Hf. destruct (IHt Hf) as [-> ->]. auto.
  - assert (forall f, In f fs -> min_len f = fsize f /\ max_len f = fsize f /\ is_fixed f = true) as Hall.
    { intros f Hin. rewrite forallb_forall in Hf. rewrite Forall_forall in H.
      destruct (H f Hin (Hf f Hin)). auto using Hf. }
    split; f_equal; apply map_ext_in; intros f Hin; destruct (Hall f Hin) as (A & B & C); rewrite C; assumption.
Qed.

Theorem facts_exact t :
  is_fixed_impl t = is_fixed t /\ min_impl t = min_len t /\ max_impl t = max_len t /\
  (is_fixed t = true -> type_byte_length_impl t = Ok (fsize t)) /\
  (is_fixed t = false -> exists e, type_byte_length_impl t = Err e).
Proof.
  repeat split; auto using is_fixed_impl_eq, min_impl_eq, max_impl_eq.
  - intros Hf. unfold type_byte_length_impl. rewrite is_fixed_impl_eq, Hf, min_impl_eq.
    now destruct (fixed_min_eq_fsize t Hf) as [-> _].
  - intros Hf. unfold type_byte_length_impl. rewrite is_fixed_impl_eq, Hf. eauto.
Qed.
