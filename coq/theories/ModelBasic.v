(* ModelBasic.v — model of remerkleable/basic.py: uintN constructor, operators, coercion.
   Python ints are Z.  A uint type is identified by its width in bits w. *)
Require Import RM.Base.
Local Open Scope Z_scope.

(* uint.__new__ (basic.py:79-85): negative or too many bits -> ValueError *)
Definition mk_uint (w : Z) (x : Z) : result Z :=
  if (x <? 0) || (2 ^ w <=? x) then Err EValue else Ok x.

(* kind of the "other" operand *)
Inductive okind := KSame | KOther (w' : Z) | KInt.

(* uint.coerce_view (basic.py:186-192) applied to the other operand *)
Definition coerce (w : Z) (k : okind) (b : Z) : result Z :=
  match k with
  | KOther w' => if w' =? w then mk_uint w b else Err EValue
  | _ => mk_uint w b
  end.

Inductive binop := Add | Sub | Mul | FloorDiv | Mod | And | Or | Xor | Pow | LShift | RShift | TrueDiv.

Definition mask (w : Z) : Z := 2 ^ w - 1.

(* a is the uint operand (in range, width w); (k, b) is the other operand.
   refl = false:  a <op> b  (uint.__op__);   refl = true:  b <op> a  (uint.__rop__). *)
Definition uint_binop (w : Z) (op : binop) (refl : bool) (a : Z) (k : okind) (b : Z) : result Z :=
  match op with
  | Add => do c <- coerce w k b; mk_uint w (a + c)                      (* :87-91 *)
  | Mul => do c <- coerce w k b; mk_uint w (a * c)                      (* :99-105 *)
  | And => do c <- coerce w k b; mk_uint w (Z.land a c)                 (* :156-160 *)
  | Or => do c <- coerce w k b; mk_uint w (Z.lor a c)                   (* :168-172 *)
  | Xor => do c <- coerce w k b; mk_uint w (Z.lxor a c)                 (* :162-166 *)
  | Sub => do c <- coerce w k b;                                        (* :93-97 *)
           if refl then (do r <- mk_uint w (c - a); mk_uint w r) else mk_uint w (a - c)
  | Mod => do c <- coerce w k b;                                        (* :107-111 *)
           if refl then (if a =? 0 then Err EZeroDiv else do r <- mk_uint w (c mod a); mk_uint w r)
           else if c =? 0 then Err EZeroDiv else mk_uint w (a mod c)
  | FloorDiv => do c <- coerce w k b;                                   (* :113-117 *)
           if refl then (if a =? 0 then Err EZeroDiv else do r <- mk_uint w (c / a); mk_uint w r)
           else if c =? 0 then Err EZeroDiv else mk_uint w (a / c)
  | TrueDiv => Err EOther                                               (* :119-125 *)
  | Pow =>                                                              (* :127-131, exponent >= 0 *)
      if refl then (if a <? 0 then Err EOther else mk_uint w (b ^ a))
      else if b <? 0 then Err EOther else mk_uint w (a ^ b)
  | LShift =>                                                           (* :133-142 *)
      if refl then
        match k with
        | KInt => Err EValue                    (* plain int << uint: refused by __rlshift__ *)
        | _ => Err EOther                       (* never reached: the left uint's __lshift__ runs *)
        end
      else if b <? 0 then Err EValue else mk_uint w (Z.land (Z.shiftl a b) (mask w))
  | RShift =>                                                           (* :144-154 *)
      if refl then match k with KInt => Err EValue | _ => Err EOther end
      else if b <? 0 then Err EValue else mk_uint w (Z.shiftr a b)
  end.

Inductive unop := Neg | Invert | Pos | Abs.
Definition uint_unop (w : Z) (op : unop) (a : Z) : result Z :=
  match op with
  | Neg => Err EOther                                                   (* :174-175 *)
  | Invert => do c <- mk_uint w (mask w); mk_uint w (Z.lxor a c)        (* :177-179 *)
  | Pos | Abs => Ok a
  end.
