(* ModelViews.v — implementation model, type level and construction:
   class-method type facts, tree depths, packing, default_node, constructors.
   Every SSZ value is represented by its backing node (uintN / boolean / ByteVector / ByteList
   values, which the library keeps as Python ints / bytes, by the node their get_backing() builds). *)
Require Import RM.Base RM.Gindex RM.Tree RM.Types RM.Spec.
Local Open Scope N_scope.

(* ---- helpers ---- *)
Fixpoint seq_res {A} (l : list (result A)) : result (list A) :=
  match l with
  | [] => Ok []
  | x :: r => do a <- x; do rs <- seq_res r; Ok (a :: rs)
  end.

(* ---- class-method type facts ---- *)
(* core.py:194-217, complex.py:482-496, 571-588, 652-670, 773-800, bitfields.py:167-178, 392-394,
   byte_arrays.py:250-260, union.py:199-219 *)
Fixpoint is_fixed_impl (t : ty) : bool :=
  match t with
  | TUint _ | TBool | TBitvector _ | TByteVector _ => true
  | TBitlist _ | TByteList _ | TList _ _ | TUnion _ _ => false
  | TVector e _ => is_fixed_impl e
  | TContainer fs => forallb is_fixed_impl fs
  end.

Fixpoint min_impl (t : ty) : N :=
  match t with
  | TUint k => k | TBool => 1
  | TBitvector n => (n + 7) / 8 | TByteVector n => n
  | TBitlist _ => 1 | TByteList _ => 0 | TList _ _ => 0
  | TVector e n =>
      if is_fixed_impl e then min_impl e * n      (* FixedSpecialVectorView: precomputed byte_length *)
      else (min_impl e + OFFSET) * n
  | TContainer fs =>
      fold_left (fun total f => (if is_fixed_impl f then total else total + OFFSET) + min_impl f) fs 0
  | TUnion none0 opts =>
      1 + match (if none0 then [0] else []) ++ map min_impl opts with
          | [] => 0
          | x :: r => fold_left N.min r x
          end
  end.

Fixpoint max_impl (t : ty) : N :=
  match t with
  | TUint k => k | TBool => 1
  | TBitvector n => (n + 7) / 8 | TByteVector n => n
  | TBitlist l => (l + 7 + 1) / 8 | TByteList l => l
  | TList e l => (if is_fixed_impl e then max_impl e else max_impl e + OFFSET) * l
  | TVector e n =>
      if is_fixed_impl e then max_impl e * n else (max_impl e + OFFSET) * n
  | TContainer fs =>
      fold_left (fun total f => (if is_fixed_impl f then total else total + OFFSET) + max_impl f) fs 0
  | TUnion none0 opts =>
      1 + fold_left N.max ((if none0 then [0] else []) ++ map max_impl opts) 0
  end.

(* type_byte_length(): raises for dynamic-length types *)
Definition type_byte_length_impl (t : ty) : result N :=
  if is_fixed_impl t then Ok (min_impl t) else Err EOther.

(* depth of the contents tree (excluding the length / selector mix-in) *)
Definition elems_per_chunk (s : N) : N := 32 / s.
Definition to_chunk_length (e : ty) (n : N) : N :=
  match basic_size e with
  | Some s => let epc := elems_per_chunk s in (n + epc - 1) / epc
  | None => n
  end.
Definition contents_depth (t : ty) : nat :=
  match t with
  | TUint _ | TBool => O
  | TBitvector n | TBitlist n => get_depth ((n + 255) / 256)
  | TByteVector n | TByteList n => get_depth ((n + 31) / 32)
  | TVector e n | TList e n => get_depth (to_chunk_length e n)
  | TContainer fs => get_depth (lenN fs)
  | TUnion _ _ => O
  end.
Definition has_mixin (t : ty) : bool :=
  match t with TBitlist _ | TByteList _ | TList _ _ | TUnion _ _ => true | _ => false end.
(* tree_depth(): contents depth + 1 for the mix-in *)
Definition tree_depth (t : ty) : nat := if has_mixin t then S (contents_depth t) else contents_depth t.

(* ---- packing (core.py:302-331) ---- *)
Fixpoint group_fuel {A} (fuel : nat) (k : nat) (l : list A) : list (list A) :=
  match fuel with
  | O => []
  | S f => match l with [] => [] | _ => firstn k l :: group_fuel f k (skipn k l) end
  end.
(* grouper(items, k, fillvalue) without the fill: the last group may be short *)
Definition group {A} (k : nat) (l : list A) : list (list A) := group_fuel (length l) k l.

(* pack_ints_to_chunks: items_per_chunk items of size bytes each; missing items are 0 *)
Definition pack_ints (size : N) (vs : list N) : list bytes :=
  let epc := N.to_nat (elems_per_chunk size) in
  map (fun g => pad32 (concat (map (le_bytes (N.to_nat size)) g))) (group epc vs).
(* pack_bits_to_chunks *)
Definition pack_bits (bs : list bool) : list bytes :=
  map (fun g => pad32 g) (group 32 (map bits_byte (group 8 bs))).
(* pack_bytes_to_chunks *)
Definition pack_bytes (bs : bytes) : list bytes := map pad32 (group 32 bs).

Section WithHash.
Variable H : bytes -> bytes -> bytes.
Notation zero_node := (zero_node H).
Notation fill_to_length := (fill_to_length H).
Notation fill_to_contents := (fill_to_contents H).

Definition len_node (n : N) : node := RootN (pad32 (le_bytes 32 n)).   (* uint256(n).get_backing() *)

(* ---- default_node ---- *)
Fixpoint default_node (t : ty) : result node :=
  match t with
  | TUint _ | TBool => Ok (zero_node 0)
  | TBitvector n => fill_to_length (zero_node 0) (contents_depth t) ((n + 255) / 256)
  | TByteVector n => fill_to_length (zero_node 0) (contents_depth t) ((n + 31) / 32)
  | TBitlist _ | TByteList _ | TList _ _ => Ok (PairN (zero_node (contents_depth t)) (zero_node 0))
  | TVector e n =>
      do el <- (if is_basic e then Ok (zero_node 0) else default_node e);
      fill_to_length el (contents_depth t) (to_chunk_length e n)
  | TContainer fs =>
      do ns <- seq_res (map default_node fs);
      fill_to_contents ns (contents_depth t)
  | TUnion none0 opts =>
      do c <- (if none0 then Ok (zero_node 0)
               else match opts with o :: _ => default_node o | [] => Err EIndex end);
      Ok (PairN c (zero_node 0))
  end.

(* ---- constructors: cls(value) with coercion of the elements ---- *)
Definition mk_basic (t : ty) (v : val) : result N :=
  match t, v with
  | TUint k, VUint n => if n <? 2 ^ (8 * k) then Ok n else Err EValue     (* basic.py:79-85 *)
  | TBool, VBool b => Ok (if b then 1 else 0)
  | TBool, VUint n => if n <? 2 then Ok n else Err EValue                 (* basic.py:23-26 *)
  | _, _ => Err EType
  end.

Fixpoint mk (t : ty) (v : val) {struct t} : result node :=
  match t, v with
  | TUint _, _ | TBool, _ =>
      do n <- mk_basic t v;
      Ok (RootN (pad32 (le_bytes (N.to_nat (match t with TUint k => k | _ => 1 end)) n)))
  | TBitvector n, VBits bs =>                                             (* bitfields.py:349-360 *)
      if negb (lenN bs =? n) then Err EOther
      else fill_to_contents (map RootN (pack_bits bs)) (contents_depth t)
  | TBitlist l, VBits bs =>                                               (* bitfields.py:119-133 *)
      if l <? lenN bs then Err EOther
      else do c <- fill_to_contents (map RootN (pack_bits bs)) (contents_depth t);
           Ok (PairN c (len_node (lenN bs)))
  | TByteVector n, VBytes bs =>                                           (* byte_arrays.py:78-83, 128-134 *)
      if negb (lenN bs =? n) then Err EOther
      else fill_to_contents (map RootN (pack_bytes bs)) (contents_depth t)
  | TByteList l, VBytes bs =>                                             (* byte_arrays.py:168-173, 217-221 *)
      if l <? lenN bs then Err EOther
      else do c <- fill_to_contents (map RootN (pack_bytes bs)) (contents_depth t);
           Ok (PairN c (len_node (lenN bs)))
  | TVector e n, VSeq vs =>                                               (* complex.py:505-536 *)
      match vs with
      | [] => default_node t
      | _ =>
          if negb (lenN vs =? n) then Err EOther
          else
            do ns <- match basic_size e with
                     | Some s => do xs <- seq_res (map (mk_basic e) vs); Ok (map RootN (pack_ints s xs))
                     | None => seq_res (map (mk e) vs)
                     end;
            fill_to_contents ns (contents_depth t)
      end
  | TList e l, VSeq vs =>                                                 (* complex.py:261-293 *)
      match vs with
      | [] => default_node t
      | _ =>
          if l <? lenN vs then Err EOther
          else
            do ns <- match basic_size e with
                     | Some s => do xs <- seq_res (map (mk_basic e) vs); Ok (map RootN (pack_ints s xs))
                     | None => seq_res (map (mk e) vs)
                     end;
            do c <- fill_to_contents ns (contents_depth t);
            Ok (PairN c (len_node (lenN vs)))
      end
  | TContainer fs, VCont vs =>                                            (* complex.py:722-750 *)
      do ns <- (fix go (fs : list ty) (vs : list val) : result (list node) :=
                  match fs, vs with
                  | [], [] => Ok []
                  | f :: fs', x :: vs' => do a <- mk f x; do r <- go fs' vs'; Ok (a :: r)
                  | _, _ => Err EAttr
                  end) fs vs;
      fill_to_contents ns (contents_depth t)
  | TUnion none0 opts, VUnion sel ov =>                                   (* union.py:16-59 *)
      if lenN opts + (if none0 then 1 else 0) <=? N.of_nat sel then Err EValue
      else
        do c <- match ov with
                | None =>
                    if none0 && Nat.eqb sel 0 then Ok (zero_node 0)
                    else (* value omitted: the option's default *)
                      (fix pick (os : list ty) (i : nat) : result node :=
                         match os, i with
                         | o :: _, O => default_node o
                         | _ :: os', S i' => pick os' i'
                         | [], _ => Err EIndex
                         end) opts (if none0 then pred sel else sel)
                | Some x =>
                    if none0 && Nat.eqb sel 0 then Err EValue
                    else
                      (fix pick (os : list ty) (i : nat) : result node :=
                         match os, i with
                         | o :: _, O => mk o x
                         | _ :: os', S i' => pick os' i'
                         | [], _ => Err EIndex
                         end) opts (if none0 then pred sel else sel)
                end;
        Ok (PairN c (len_node (N.of_nat sel)))
  | _, _ => Err EType
  end.

(* a container built with some fields omitted (they take ftyp.default_node()) *)
Definition mk_container_partial (fs : list ty) (vs : list (option val)) : result node :=
  do ns <- (fix go (fs : list ty) (vs : list (option val)) : result (list node) :=
              match fs, vs with
              | [], [] => Ok []
              | f :: fs', x :: vs' =>
                  do a <- match x with Some x' => mk f x' | None => default_node f end;
                  do r <- go fs' vs'; Ok (a :: r)
              | _, _ => Err EAttr
              end) fs vs;
  fill_to_contents ns (contents_depth (TContainer fs)).

End WithHash.
