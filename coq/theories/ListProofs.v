(* ListProofs.v — C04 for lists of composite elements: after any sequence of element assignments
   and appends through the model's List.set / List.append, the backing represents exactly the
   list the sequence implies (Rep_list), so length, every element and the hash-tree-root are those
   of that list — the same as for a freshly built backing of that content. *)
Require Import RM.Base RM.Gindex RM.Tree RM.TreeProofs RM.Types RM.Spec RM.ModelViews RM.ModelCodec RM.ModelMut
               RM.SerLen RM.MerkleProofs RM.PackProofs RM.CtorProofs RM.PathProofs RM.CRepProofs.
From Coq Require Import ZifyBool ZifyNat ZifyN.
Local Open Scope N_scope.

Lemma le_val_le_bytes k : forall n, n < 256 ^ N.of_nat k -> le_val (le_bytes k n) = n.
Proof.
  induction k as [|k IH]; intros n Hn.
  - cbn in *. lia.
  - cbn [le_bytes le_val]. rewrite Nat2N.inj_succ, N.pow_succ_r' in Hn.
    rewrite IH by (apply N.div_lt_upper_bound; lia).
    unfold byte_of_N. destruct (Byte.of_N (n mod 256)) as [b|] eqn:E.
    + apply Byte.to_of_N in E. rewrite E. pose proof (N.div_mod n 256 ltac:(lia)). lia.
    + pose proof (Byte.of_N_None_iff (n mod 256)) as [Hn0 _]. specialize (Hn0 E). pose proof (N.mod_lt n 256 ltac:(lia)). lia.
Qed.

Section WithHash.
Variable H : bytes -> bytes -> bytes.
Variable src : bytes -> option (bytes * bytes).
Notation root := (root H).
Notation CRep := (CRep H).
Notation merkleize := (merkleize H).

(* the backing n of a List[e, limit] with composite elements represents the element backings ns *)
Definition Rep_list (e : ty) (limit : N) (n : node) (ns : list node) : Prop :=
  exists c, n = PairN c (len_node (lenN ns)) /\ CRep (contents_depth (TList e limit)) c ns /\ lenN ns <= limit.

Lemma mixin_len_node c ll : ll < 2 ^ 64 -> mixin_value H src (PairN c (len_node ll)) = Ok ll.
Proof.
  intros Hl. unfold mixin_value. cbn [get_right children bind Tree.root len_node]. f_equal.
  rewrite le32_pad. rewrite firstn_all2 by (rewrite le_bytes_length; lia).
  apply le_val_le_bytes. change (256 ^ N.of_nat 32) with (2 ^ 256). 
  assert (2 ^ 64 < 2 ^ 256) by (apply N.pow_lt_mono_r; lia). lia.
Qed.

Section OneList.
Variable e : ty.
Variable limit : N.
Hypothesis He : basic_size e = None.
Hypothesis Hlim : limit < 2 ^ 64.
Notation t := (TList e limit).
Notation cd := (contents_depth (TList e limit)).

Lemma depth_fits : limit <= 2 ^ N.of_nat cd.
Proof. cbn [contents_depth]. unfold to_chunk_length. rewrite He. apply pow2_depth_fits. Qed.

(* getter / setter at element index i of the list backing = the contents tree at be_bits cd i *)
Lemma list_path i : i < 2 ^ N.of_nat cd ->
  exists g, to_gindex i (tree_depth t) = Ok g /\ path_of_gindex g = Some (false :: be_bits cd i).
Proof.
  intros Hi. assert (tree_depth t = S cd) as -> by reflexivity.
  assert (i < 2 ^ N.of_nat (S cd)) as Hi2 by (rewrite Nat2N.inj_succ, N.pow_succ_r'; lia).
  exists (2 ^ N.of_nat (S cd) + i). split; [now apply to_gindex_ok|].
  rewrite (path_of_to_gindex (S cd) i Hi2). cbn [be_bits]. f_equal. f_equal.
  rewrite (testbit_top i cd Hi2). apply N.leb_gt. exact Hi.
Qed.

Theorem list_len n ns : Rep_list e limit n ns -> view_len H src t n = Ok (lenN ns).
Proof. intros (c & -> & Hc & Hl). cbn [view_len]. apply mixin_len_node. lia. Qed.

Theorem list_get n ns i dflt : Rep_list e limit n ns -> (0 <= i < Z.of_N (lenN ns))%Z ->
  view_get H src t n i = Ok (nth (Z.to_nat i) ns dflt).
Proof.
  intros Hr Hi. pose proof Hr as (c & -> & Hc & Hl). unfold view_get, check_index.
  rewrite (list_len _ ns Hr). cbn [bind].
  destruct ((i <? 0)%Z || (Z.of_N (lenN ns) <=? i)%Z) eqn:E; [lia|].
  unfold sub_get. cbn [elem_ty bind]. rewrite He.
  pose proof depth_fits as Hd.
  destruct (list_path (Z.to_N i)) as (g & Hg & Hp); [lia|].
  unfold getter_i. rewrite Hg. cbn [bind]. unfold getter_g. rewrite Hp. cbn [getter children].
  rewrite (CRep_get H src _ _ _ Hc (Z.to_N i) dflt) by lia. f_equal. f_equal. lia.
Qed.

Theorem list_set n ns i x : Rep_list e limit n ns -> (0 <= i < Z.of_N (lenN ns))%Z ->
  exists n', view_set H src t n i x = Ok n' /\ Rep_list e limit n' (upd (Z.to_nat i) x ns).
Proof.
  intros Hr Hi. pose proof Hr as (c & -> & Hc & Hl). unfold view_set, check_index.
  rewrite (list_len _ ns Hr). cbn [bind].
  destruct ((i <? 0)%Z || (Z.of_N (lenN ns) <=? i)%Z) eqn:E; [lia|].
  unfold sub_set. cbn [elem_ty bind]. rewrite He.
  pose proof depth_fits as Hd.
  destruct (list_path (Z.to_N i)) as (g & Hg & Hp); [lia|].
  unfold setter_i. rewrite Hg. cbn [bind]. unfold setter_g. rewrite Hp.
  rewrite setter_unfold. cbn [setter_below children].
  destruct (CRep_set H src false _ _ _ Hc (Z.to_N i) x ltac:(lia)) as (c' & Hs & Hc'). rewrite Hs. cbn [rebuild].
  eexists; split; [reflexivity|]. exists c'. replace (N.to_nat (Z.to_N i)) with (Z.to_nat i) in Hc' by lia.
  split; [|split; [exact Hc'|]]; unfold lenN in *; rewrite upd_len; [reflexivity|exact Hl].
Qed.

Theorem list_append_rep n ns x : Rep_list e limit n ns -> lenN ns < limit ->
  exists n', list_append H src t n x = Ok n' /\ Rep_list e limit n' (ns ++ [x]).
Proof.
  intros Hr Hlt. pose proof Hr as (c & -> & Hc & Hl). unfold list_append.
  rewrite (mixin_len_node c (lenN ns)) by lia. cbn [bind].
  destruct (limit <=? lenN ns) eqn:E; [apply N.leb_le in E; lia|]. rewrite He.
  pose proof depth_fits as Hd.
  destruct (list_path (lenN ns)) as (g & Hg & Hp); [lia|].
  unfold setter_i. rewrite Hg. cbn [bind]. unfold setter_g. rewrite Hp.
  rewrite setter_unfold. cbn [setter_below children].
  destruct (CRep_append H src _ _ _ Hc x) as (c' & Hs & Hc').
  { pose proof (pow_nat_N cd) as Hp2. unfold lenN in *. lia. }
  rewrite Hs. cbn [rebuild bind]. unfold rebind_right. cbn [children].
  eexists; split; [reflexivity|]. exists c'. split; [|split; [exact Hc'|]].
  - f_equal. f_equal. unfold lenN. rewrite app_length. cbn [length]. lia.
  - unfold lenN in *. rewrite app_length. cbn [length]. lia.
Qed.

(* the root of a represented list is the specification's: merkleize + length mix-in *)
Theorem list_root n ns : Rep_list e limit n ns ->
  root n = mix_in H (merkleize cd (map root ns)) (lenN ns).
Proof.
  intros (c & -> & Hc & Hl). cbn [Tree.root len_node]. rewrite le32_pad. unfold mix_in. f_equal.
  now apply CRep_merkleize.
Qed.

(* ---- histories ---- *)
Inductive lop := OSet (i : Z) (x : node) | OAppend (x : node).
Definition apply_impl (n : node) (o : lop) : result node :=
  match o with
  | OSet i x => view_set H src t n i x
  | OAppend x => list_append H src t n x
  end.
Definition apply_spec (ns : list node) (o : lop) : list node :=
  match o with
  | OSet i x => upd (Z.to_nat i) x ns
  | OAppend x => ns ++ [x]
  end.
Definition valid_op (ns : list node) (o : lop) : Prop :=
  match o with
  | OSet i _ => (0 <= i < Z.of_N (lenN ns))%Z
  | OAppend _ => lenN ns < limit
  end.
Fixpoint valid_ops (ns : list node) (os : list lop) : Prop :=
  match os with [] => True | o :: r => valid_op ns o /\ valid_ops (apply_spec ns o) r end.

Theorem list_step n ns o : Rep_list e limit n ns -> valid_op ns o ->
  exists n', apply_impl n o = Ok n' /\ Rep_list e limit n' (apply_spec ns o).
Proof. intros Hr Hv. destruct o; cbn in *; [now apply list_set|now apply list_append_rep]. Qed.

(* every valid history of assignments and appends succeeds (no element becomes inaccessible) and
   ends in a backing that represents exactly the implied list *)
Theorem list_history : forall os n ns, Rep_list e limit n ns -> valid_ops ns os ->
  exists n', fold_left (fun acc o => do m <- acc; apply_impl m o) os (Ok n) = Ok n' /\
             Rep_list e limit n' (fold_left apply_spec os ns).
Proof.
  induction os as [|o os IH]; intros n ns Hr Hv; cbn [fold_left].
  - eauto.
  - destruct Hv as [Hv1 Hv2]. destruct (list_step n ns o Hr Hv1) as (n1 & Hs & Hr1).
    cbn [bind]. rewrite Hs. now apply IH.
Qed.

(* a freshly constructed list is such a representation, of the element backings the constructor builds *)
Theorem mk_list_rep vs : wf_ty t = true -> wf t (VSeq vs) = true ->
  exists n ns, mk H t (VSeq vs) = Ok n /\ Rep_list e limit n ns /\ map root ns = map (htr H e) vs.
Proof.
  intros Hty Hwf. cbn [wf] in Hwf. apply andb_true_iff in Hwf as [Hn Hall]. apply N.leb_le in Hn.
  pose proof Hty as Hty0. cbn [wf_ty] in Hty. apply andb_true_iff in Hty as [Hte _].
  cbn [mk]. destruct vs as [|x0 vs0] eqn:Evs.
  - cbn [default_node]. eexists _, []. split; [reflexivity|]. split; [|reflexivity].
    exists (zero_node H cd). split; [reflexivity|]. split; [constructor|unfold lenN; cbn; lia].
  - rewrite <- Evs in *. assert ((limit <? lenN vs) = false) as -> by (apply N.ltb_ge; exact Hn). rewrite He.
    assert (Forall (fun x => exists n0, mk H e x = Ok n0 /\ root n0 = htr H e x) vs) as HF.
    { apply Forall_forall. intros x Hx. apply mk_root; [exact Hte|]. rewrite forallb_forall in Hall. now apply Hall. }
    destruct (mk_all H e vs HF) as (ns & Hns & Hl & Hm). rewrite Hns. cbn [bind].
    destruct (fill_to_contents_CRep H cd ns) as (c & Hf & Hc).
    { rewrite Hl. pose proof depth_fits as Hd. pose proof (pow_nat_N cd). unfold lenN in *. lia. }
    rewrite Hf. cbn [bind]. exists (PairN c (len_node (lenN vs))), ns. split; [reflexivity|]. split; [|exact Hm].
    exists c. unfold lenN in *. rewrite Hl. repeat split; auto.
Qed.

End OneList.
End WithHash.
