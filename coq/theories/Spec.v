(* Spec.v — THE specification: SSZ serialisation and hash-tree-root (simple-serialize.md),
   written as small total functions.  Nothing here looks at trees or at the implementation. *)
Require Import RM.Base RM.Gindex RM.Types.
Local Open Scope N_scope.

(* ---- bits and bytes ---- *)
Definition bits_byte (b8 : list bool) : byte :=
  byte_of_N (fold_right (fun (b : bool) acc => (if b then 1 else 0) + 2 * acc) 0 b8).

(* pack bits little-endian into bytes, the last byte zero-padded *)
Fixpoint bits_to_bytes_fuel (fuel : nat) (bs : list bool) : bytes :=
  match fuel with
  | O => []
  | S f => match bs with
           | [] => []
           | _ => bits_byte (firstn 8 bs) :: bits_to_bytes_fuel f (skipn 8 bs)
           end
  end.
Definition bits_to_bytes (bs : list bool) : bytes := bits_to_bytes_fuel (length bs) bs.

(* ---- serialisation ---- *)
(* fixed parts with 4-byte offsets, then the variable parts in order *)
Fixpoint ser_go (ps : list (bool * bytes)) (off : N) : bytes * bytes :=
  match ps with
  | [] => ([], [])
  | (true, b) :: ps' => let '(f, v) := ser_go ps' off in (b ++ f, v)
  | (false, b) :: ps' => let '(f, v) := ser_go ps' (off + lenN b) in (le_bytes 4 off ++ f, b ++ v)
  end.
Definition fixed_part_len (p : bool * bytes) : N := if fst p then lenN (snd p) else OFFSET.
Definition ser_parts (parts : list (bool * bytes)) : bytes :=
  let flen := sumN (map fixed_part_len parts) in
  let '(f, v) := ser_go parts flen in f ++ v.

(* the type of option index i of a union (None for the None option / out of range) *)
Definition union_opt (none0 : bool) (opts : list ty) (sel : nat) : option ty :=
  if none0 then match sel with O => None | S i => nth_error opts i end else nth_error opts sel.

Fixpoint ser (t : ty) (v : val) {struct t} : bytes :=
  match t, v with
  | TUint k, VUint n => le_bytes (N.to_nat k) n
  | TBool, VBool b => [if b then x01 else x00]
  | TBitvector _, VBits bs => bits_to_bytes bs
  | TBitlist _, VBits bs => bits_to_bytes (bs ++ [true])
  | TByteVector _, VBytes bs | TByteList _, VBytes bs => bs
  | TVector e _, VSeq vs | TList e _, VSeq vs => ser_parts (map (fun x => (is_fixed e, ser e x)) vs)
  | TContainer fs, VCont vs =>
      ser_parts ((fix go (fs : list ty) (vs : list val) : list (bool * bytes) :=
        match fs, vs with
        | f :: fs', x :: vs' => (is_fixed f, ser f x) :: go fs' vs'
        | _, _ => []
        end) fs vs)
  | TUnion none0 opts, VUnion sel ov =>
      byte_of_N (N.of_nat sel) ::
      match ov with
      | None => []
      | Some x =>
         (fix pick (os : list ty) (i : nat) : bytes :=
            match os, i with
            | o :: _, O => ser o x
            | _ :: os', S i' => pick os' i'
            | [], _ => []
            end) opts (if none0 then pred sel else sel)
      end
  | _, _ => []
  end.

(* ---- merkleisation ---- *)
Section WithHash.
Variable H : bytes -> bytes -> bytes.

(* "pad with zero chunks to 2^d leaves and hash pairwise", over an index function *)
Fixpoint mroot (d : nat) (f : nat -> bytes) (off : nat) : bytes :=
  match d with O => f off | S d' => H (mroot d' f off) (mroot d' f (off + 2 ^ d')) end.
Definition merkleize (d : nat) (cs : list bytes) : bytes := mroot d (fun i => nth i cs zero32) 0.

(* 32-byte chunks of a byte string, the last one zero-padded *)
Fixpoint chunks_fuel (fuel : nat) (bs : bytes) : list bytes :=
  match fuel with
  | O => []
  | S f => match bs with
           | [] => []
           | _ => pad32 (firstn 32 bs) :: chunks_fuel f (skipn 32 bs)
           end
  end.
Definition chunks (bs : bytes) : list bytes := chunks_fuel (length bs) bs.

(* depth of the tree for a chunk count / limit: next power of two *)
Definition depth_of (n : N) : nat := N.to_nat (N.log2_up n).

Definition mix_in (r : bytes) (n : N) : bytes := H r (le_bytes 32 n).

Fixpoint htr (t : ty) (v : val) {struct t} : bytes :=
  let d := depth_of (chunk_count t) in
  match t, v with
  | TUint _, _ | TBool, _ => pad32 (ser t v)
  | TBitvector _, VBits bs => merkleize d (chunks (bits_to_bytes bs))
  | TBitlist _, VBits bs => mix_in (merkleize d (chunks (bits_to_bytes bs))) (lenN bs)
  | TByteVector _, VBytes bs => merkleize d (chunks bs)
  | TByteList _, VBytes bs => mix_in (merkleize d (chunks bs)) (lenN bs)
  | TVector e _, VSeq vs =>
      if is_basic e then merkleize d (chunks (concat (map (ser e) vs)))
      else merkleize d (map (htr e) vs)
  | TList e _, VSeq vs =>
      mix_in (if is_basic e then merkleize d (chunks (concat (map (ser e) vs)))
              else merkleize d (map (htr e) vs)) (lenN vs)
  | TContainer fs, VCont vs =>
      merkleize d ((fix go (fs : list ty) (vs : list val) : list bytes :=
        match fs, vs with
        | f :: fs', x :: vs' => htr f x :: go fs' vs'
        | _, _ => []
        end) fs vs)
  | TUnion none0 opts, VUnion sel ov =>
      mix_in (match ov with
              | None => zero32
              | Some x =>
                 (fix pick (os : list ty) (i : nat) : bytes :=
                    match os, i with
                    | o :: _, O => htr o x
                    | _ :: os', S i' => pick os' i'
                    | [], _ => zero32
                    end) opts (if none0 then pred sel else sel)
              end) (N.of_nat sel)
  | _, _ => zero32
  end.

(* ---- executable sparse merkleisation (used to RUN the spec; proved equal to merkleize) ---- *)
Fixpoint zero_hash_s (d : nat) : bytes :=
  match d with O => zero32 | S d' => let z := zero_hash_s d' in H z z end.
Fixpoint msparse (d : nat) (cs : list bytes) {struct d} : bytes :=
  match cs with
  | [] => zero_hash_s d
  | c0 :: _ =>
      match d with
      | O => c0
      | S d' =>
          let pivot := N.shiftl 1 (N.of_nat d') in
          if lenN cs <=? pivot then H (msparse d' cs) (zero_hash_s d')
          else let k := N.to_nat pivot in H (msparse d' (firstn k cs)) (msparse d' (skipn k cs))
      end
  end.
End WithHash.

(* ---- generalized indices of the specification (get_generalized_index) ---- *)
Inductive key := KIndex (i : N) | KLen | KSelector.   (* container fields are KIndex i *)

Definition next_pow2 (n : N) : N := N.shiftl 1 (N.log2_up n).

(* one step: (gindex relative to t, type reached) *)
Definition spec_step (t : ty) (k : key) : option (N * ty) :=
  let base := next_pow2 (chunk_count t) in
  match t, k with
  | TVector e n, KIndex i =>
      if i <? n then
        match basic_size e with
        | Some s => Some (base + (i * s) / 32, e)
        | None => Some (base + i, e)
        end
      else None
  | TList e l, KIndex i =>
      if i <? l then
        match basic_size e with
        | Some s => Some (2 * base + (i * s) / 32, e)
        | None => Some (2 * base + i, e)
        end
      else None
  | TList _ _, KLen | TBitlist _, KLen | TByteList _, KLen => Some (3, TUint 32)
  | TBitvector n, KIndex i => if i <? n then Some (base + i / 256, TBool) else None
  | TBitlist l, KIndex i => if i <? l then Some (2 * base + i / 256, TBool) else None
  | TByteVector n, KIndex i => if i <? n then Some (base + i / 32, TUint 1) else None
  | TByteList l, KIndex i => if i <? l then Some (2 * base + i / 32, TUint 1) else None
  | TContainer fs, KIndex i =>
      match nth_error fs (N.to_nat i) with
      | Some f => if i <? lenN fs then Some (base + i, f) else None
      | None => None
      end
  | TUnion none0 opts, KIndex i =>
      if i <? lenN opts + (if none0 then 1 else 0) then
        match union_opt none0 opts (N.to_nat i) with
        | Some o => Some (2, o)
        | None => None      (* the None option has no type to navigate into *)
        end
      else None
  | TUnion _ _, KSelector => Some (3, TUint 32)
  | _, _ => None
  end.
