(* PartialErrors.v — C17, the other direction: where the COMPLETE tree answers, the partial tree gives the related
   answer or fails with a navigation error (an index error where the code re-labels it, Bitlist bit access) — never
   with another error and never with other data.  `nsim` packages both directions for every view operation,
   serialisation, and (error class only) every store command with its hook propagation. *)
Require Import RM.Base RM.Gindex RM.Tree RM.TreeProofs RM.Types RM.Spec RM.ModelViews RM.ModelCodec RM.ModelMut
               RM.PartialProofs RM.PartialViews RM.ModelStore RM.StoreProofs RM.ReprProofs RM.CtorSound RM.StoreChain RM.PartialStore.
From Coq Require Import ZifyBool ZifyNat ZifyN.
Local Open Scope N_scope.
Section WithHash.
Variable H : bytes -> bytes -> bytes.
Variable src : bytes -> option (bytes * bytes).
Hypothesis Hi : Hinj H.
Notation summ := (summ H).
Notation root := (root H).
Notation getter_i := (getter_i src).
Notation getter_g := (getter_g src).
Notation setter_i := (setter_i H src).
Notation setter_g := (setter_g H src).
Notation mixin_value := (mixin_value H src).
(* partial n against complete m (which holds no virtual nodes) *)
Definition sn (x y : node) : Prop := summ x y /\ novirt y.
(* two-way statement: what succeeds on the partial side succeeds, related, on the complete side; and where the complete
   side succeeds the partial side can fail only with a NAVIGATION (or, where the code turns it into one, INDEX) error *)
Definition naverr (e : err) : Prop := e = ENav \/ e = EIndex.
Definition nsim {A} (R : A -> A -> Prop) (rp rc : result A) : Prop :=
  (forall x, rp = Ok x -> exists y, rc = Ok y /\ R x y) /\ (forall e y, rp = Err e -> rc = Ok y -> naverr e).

Lemma nsim_bind {A B} (R : A -> A -> Prop) (S : B -> B -> Prop) a b (f g : A -> result B) :
  nsim R a b -> (forall x y, R x y -> a = Ok x -> b = Ok y -> nsim S (f x) (g y)) -> nsim S (bind a f) (bind b g).
Proof.
  intros [H1 H2] Hfg. split.
  - intros u Hu. destruct a as [x|e]; [|discriminate]. destruct (H1 x eq_refl) as (y & -> & Hr). cbn [bind] in *.
    exact (proj1 (Hfg x y Hr eq_refl eq_refl) u Hu).
  - intros e v He Hv. destruct b as [y|eb]; [|discriminate]. cbn [bind] in Hv. destruct a as [x|ea].
    + destruct (H1 x eq_refl) as (y' & Ey & Hr). inversion Ey; subst y'. cbn [bind] in He.
      exact (proj2 (Hfg x y Hr eq_refl eq_refl) e v He Hv).
    + cbn [bind] in He. inversion He; subst. exact (H2 e y eq_refl eq_refl).
Qed.
Lemma nsim_ret {A} (R : A -> A -> Prop) x y : R x y -> nsim R (Ok x) (Ok y).
Proof. intros Hr. split; [intros u Hu; inversion Hu; subst; eauto|intros e v He; discriminate]. Qed.
Lemma nsim_err {A} (R : A -> A -> Prop) e e' : nsim R (Err e) (Err e').
Proof. split; [intros u Hu; discriminate|intros e0 v _ Hv; discriminate]. Qed.
Lemma nsim_eq_refl {A} (r : result A) : nsim eq r r.
Proof. destruct r; [now apply nsim_ret|apply nsim_err]. Qed.
Lemma nsim_of {A} (R : A -> A -> Prop) rp rc :
  (forall x, rp = Ok x -> exists y, rc = Ok y /\ R x y) -> (forall e, rp = Err e -> e = ENav) -> nsim R rp rc.
Proof. intros H1 H2. split; [exact H1|intros e y He _; left; now apply H2]. Qed.
(* the reading the property asks for *)
Theorem nsim_complete {A} (R : A -> A -> Prop) rp rc y : nsim R rp rc -> rc = Ok y ->
  (exists x, rp = Ok x /\ R x y) \/ rp = Err ENav \/ rp = Err EIndex.
Proof.
  intros [H1 H2] Hy. destruct rp as [x|e].
  - left. destruct (H1 x eq_refl) as (y' & Ey & Hr). rewrite Hy in Ey. inversion Ey; subst. eauto.
  - right. destruct (H2 e y eq_refl Hy) as [-> | ->]; auto.
Qed.
Theorem nsim_partial {A} (R : A -> A -> Prop) rp rc x : nsim R rp rc -> rp = Ok x -> exists y, rc = Ok y /\ R x y.
Proof. intros [H1 _]. apply H1. Qed.

Lemma sn_refl x : novirt x -> sn x x.
Proof. intros Hx. split; [constructor|exact Hx]. Qed.
Lemma sn_root x y : sn x y -> root x = root y.
Proof. intros [Hs _]. now apply summ_root. Qed.

(* ---- tree-level operations ---- *)
Lemma getter_g_err n g e : getter_g n g = Err e -> e = ENav.
Proof. unfold Tree.getter_g. destruct (path_of_gindex g); [apply getter_err|intros E; now inversion E]. Qed.
Lemma setter_g_err ex n g v e : setter_g ex n g v = Err e -> e = ENav.
Proof. unfold Tree.setter_g. destruct (path_of_gindex g); [apply setter_err|intros E; now inversion E]. Qed.

Lemma n_getter_g n m g : sn n m -> nsim sn (getter_g n g) (getter_g m g).
Proof.
  intros [Hs Hnv]. apply nsim_of; [|apply getter_g_err]. intros x Hx.
  destruct (summ_getter_g H src n m g x Hs Hx) as (y & Hy & Hxy). exists y. split; [exact Hy|split; [exact Hxy|exact (nv_getter_g src m g y Hnv Hy)]].
Qed.
Lemma n_getter_i n m i d : sn n m -> nsim sn (getter_i n i d) (getter_i m i d).
Proof. intros Hs. unfold ModelCodec.getter_i. destruct (to_gindex i d); cbn [bind]; [now apply n_getter_g|apply nsim_err]. Qed.
Lemma n_setter_g e n m g v w : sn n m -> sn v w -> nsim sn (setter_g e n g v) (setter_g e m g w).
Proof.
  intros [Hs Hnv] [Hvw Hnw]. apply nsim_of; [|apply setter_g_err]. intros x Hx.
  destruct (summ_setter_g_rel H src Hi e n m g v w x Hnv Hs Hvw Hx) as (y & Hy & Hxy). exists y. split; [exact Hy|split; [exact Hxy|]].
  exact (novirt_setter_g H src e m g w y Hnv Hnw Hy).
Qed.
Lemma n_setter_i e n m i d v w : sn n m -> sn v w -> nsim sn (setter_i e n i d v) (setter_i e m i d w).
Proof. intros Hs Hv. unfold ModelMut.setter_i. destruct (to_gindex i d); cbn [bind]; [now apply n_setter_g|apply nsim_err]. Qed.

Lemma n_get_right n m : sn n m -> nsim sn (get_right src n) (get_right src m).
Proof.
  intros [Hs Hnv]. unfold get_right. destruct (children src n) as [[l r]|] eqn:Hc.
  - destruct (summ_children H src n m l r Hs Hc) as (l' & r' & Hc' & Hl & Hr). rewrite Hc'. apply nsim_ret. split; [exact Hr|].
    exact (proj2 (novirt_children' src m l' r' Hnv Hc')).
  - apply nsim_of; [discriminate|intros e E; now inversion E].
Qed.
Lemma n_get_left n m : sn n m -> nsim sn (get_left src n) (get_left src m).
Proof.
  intros [Hs Hnv]. unfold get_left. destruct (children src n) as [[l r]|] eqn:Hc.
  - destruct (summ_children H src n m l r Hs Hc) as (l' & r' & Hc' & Hl & Hr). rewrite Hc'. apply nsim_ret. split; [exact Hl|].
    exact (proj1 (novirt_children' src m l' r' Hnv Hc')).
  - apply nsim_of; [discriminate|intros e E; now inversion E].
Qed.
Lemma n_rebind_right n m v w : sn n m -> sn v w -> nsim sn (rebind_right src n v) (rebind_right src m w).
Proof.
  intros [Hs Hnv] [Hvw Hnw]. unfold rebind_right. destruct (children src n) as [[l r]|] eqn:Hc.
  - destruct (summ_children H src n m l r Hs Hc) as (l' & r' & Hc' & Hl & Hr). rewrite Hc'. apply nsim_ret. split; [now constructor|].
    split; [exact (proj1 (novirt_children' src m l' r' Hnv Hc'))|exact Hnw].
  - apply nsim_of; [discriminate|intros e E; now inversion E].
Qed.
Lemma n_mixin n m : sn n m -> nsim eq (mixin_value n) (mixin_value m).
Proof.
  intros Hs. unfold ModelCodec.mixin_value. apply (nsim_bind sn eq _ _ _ _ (n_get_right n m Hs)).
  intros x y Hxy _ _. rewrite (sn_root x y Hxy). apply nsim_eq_refl.
Qed.
Lemma n_summarize_g n m g : sn n m -> nsim sn (summarize_into_g H src n g) (summarize_into_g H src m g).
Proof.
  intros [Hs Hnv]. apply nsim_of.
  - intros x Hx. destruct (summ_summarize_g H src Hi n m g x Hnv Hs Hx) as (y & Hy & Hxy). exists y. split; [exact Hy|split; [exact Hxy|]].
    exact (nv_summarize_g H src m g y Hnv Hy).
  - unfold summarize_into_g, summarize_into. destruct (path_of_gindex g) as [p|]; [|intros e E; now inversion E].
    intros e. destruct (getter src n p) as [x|e0] eqn:Hg; cbn [bind]; [apply setter_err|intros E; inversion E; subst; exact (getter_err src n p e Hg)].
Qed.
Lemma snz : sn (RootN zero32) (RootN zero32).
Proof. now apply sn_refl. Qed.
Ltac nerr := first [apply nsim_err | apply nsim_eq_refl].

(* ---- view operations ---- *)
Lemma n_view_len t v m : sn v m -> nsim eq (view_len H src t v) (view_len H src t m).
Proof. intros Hv. destruct t; cbn [ModelCodec.view_len]; try apply nsim_eq_refl; now apply n_mixin. Qed.

Lemma n_check_index t v m i : sn v m -> nsim eq (check_index H src t v i) (check_index H src t m i).
Proof.
  intros Hv. unfold ModelMut.check_index. destruct t; try apply nsim_eq_refl;
    (apply (nsim_bind eq eq _ _ _ _ (n_view_len _ v m Hv)); intros x y -> _ _; apply nsim_eq_refl).
Qed.

Lemma n_sub_get t v m i : sn v m -> nsim sn (sub_get H src t v i) (sub_get H src t m i).
Proof.
  intros Hv. unfold ModelMut.sub_get. destruct (elem_ty t i) as [e|]; [|nerr]. cbn [bind].
  destruct (match t with TContainer _ => None | _ => basic_size e end) as [sz|]; [|now apply n_getter_i].
  apply (nsim_bind sn sn _ _ _ _ (n_getter_i v m _ _ Hv)). intros c c' Hc _ _.
  unfold packed_elem_bytes. rewrite (sn_root c c' Hc).
  match goal with |- nsim _ (bind ?A _) _ => destruct A as [b|]; cbn [bind]; [apply nsim_ret; now apply sn_refl|nerr] end.
Qed.

Lemma n_sub_set t v m i xv xm : sn v m -> sn xv xm -> nsim sn (sub_set H src t v i xv) (sub_set H src t m i xm).
Proof.
  intros Hv Hx. unfold ModelMut.sub_set. rewrite (sn_root xv xm Hx). destruct (elem_ty t i) as [e|]; [|nerr]. cbn [bind].
  destruct (match t with TContainer _ => None | _ => basic_size e end) as [sz|]; [|now apply n_setter_i].
  apply (nsim_bind sn sn _ _ _ _ (n_setter_i false v m _ _ (RootN zero32) (RootN zero32) Hv snz)). intros _ _ _ _ _.
  apply (nsim_bind sn sn _ _ _ _ (n_getter_i v m _ _ Hv)). intros c c' Hc _ _. rewrite (sn_root c c' Hc).
  apply n_setter_i; [exact Hv|now apply sn_refl].
Qed.

Theorem n_view_get t v m i : sn v m -> nsim sn (view_get H src t v i) (view_get H src t m i).
Proof.
  intros Hv. unfold ModelMut.view_get. apply (nsim_bind eq sn _ _ _ _ (n_check_index t v m i Hv)). intros k k' -> _ _. now apply n_sub_get.
Qed.
Theorem n_view_set t v m i xv xm : sn v m -> sn xv xm -> nsim sn (view_set H src t v i xv) (view_set H src t m i xm).
Proof.
  intros Hv Hx. unfold ModelMut.view_set. apply (nsim_bind eq sn _ _ _ _ (n_check_index t v m i Hv)). intros k k' -> _ _. now apply n_sub_set.
Qed.

Theorem n_list_append t v m xv xm : sn v m -> sn xv xm -> nsim sn (list_append H src t v xv) (list_append H src t m xm).
Proof.
  intros Hv Hx. unfold ModelMut.list_append. rewrite (sn_root xv xm Hx). destruct t; try nerr.
  apply (nsim_bind eq sn _ _ _ _ (n_mixin v m Hv)). intros ll ll' -> _ _.
  destruct (limit <=? ll'); [nerr|]. cbv zeta.
  match goal with |- nsim _ (bind ?A _) (bind ?B _) => assert (nsim sn A B) as Hab end.
  { destruct (basic_size t) as [s0|]; [|now apply n_setter_i].
    destruct (ll' mod elems_per_chunk s0 =? 0); [apply n_setter_i; [exact Hv|now apply sn_refl]|].
    apply (nsim_bind sn sn _ _ _ _ (n_setter_i false v m _ _ (RootN zero32) (RootN zero32) Hv snz)). intros _ _ _ _ _.
    apply (nsim_bind sn sn _ _ _ _ (n_getter_i v m _ _ Hv)). intros c c' Hc _ _. rewrite (sn_root c c' Hc).
    apply n_setter_i; [exact Hv|now apply sn_refl]. }
  apply (nsim_bind sn sn _ _ _ _ Hab). intros nb mb Hb _ _. apply n_rebind_right; [exact Hb|now apply sn_refl].
Qed.

Lemma n_summarize_up v m g : sn v m -> nsim sn (summarize_up H src v g) (summarize_up H src m g).
Proof. unfold ModelMut.summarize_up. apply n_summarize_g. Qed.

Theorem n_list_pop t v m : sn v m -> nsim sn (list_pop H src t v) (list_pop H src t m).
Proof.
  intros Hv. unfold ModelMut.list_pop. destruct t; try nerr.
  apply (nsim_bind eq sn _ _ _ _ (n_mixin v m Hv)). intros ll ll' -> _ _.
  destruct (ll' =? 0); [nerr|]. cbv zeta.
  match goal with |- nsim _ (bind ?A _) (bind ?B _) =>
    assert (nsim (fun a b => sn (fst (fst a)) (fst (fst b)) /\ snd (fst a) = snd (fst b) /\ snd a = snd b) A B) as Hab end.
  { destruct (basic_size t) as [s0|].
    - destruct (to_gindex ((ll' - 1) / elems_per_chunk s0) (tree_depth (TList t limit))) as [g|]; [|nerr]. cbn [bind].
      destruct ((ll' - 1) mod elems_per_chunk s0 =? 0) eqn:E0; cbn [bind].
      + eapply nsim_bind; [apply n_setter_g; [exact Hv|now apply sn_refl]|]. intros nb mb Hb _ _. apply nsim_ret. cbn. auto.
      + apply (nsim_bind sn _ _ _ _ _ (n_getter_g v m g Hv)). intros c c' Hc _ _. rewrite (sn_root c c' Hc).
        eapply nsim_bind; [apply n_setter_g; [exact Hv|now apply sn_refl]|]. intros nb mb Hb _ _. apply nsim_ret. cbn. auto.
    - destruct (to_gindex (ll' - 1) (tree_depth (TList t limit))) as [g|]; [|nerr]. cbn [bind].
      eapply nsim_bind; [apply n_setter_g; [exact Hv|now apply sn_refl]|]. intros nb mb Hb _ _. apply nsim_ret. cbn. auto. }
  apply (nsim_bind _ sn _ _ _ _ Hab). intros [[nb g] can] [[mb g'] can'] (Hb & Eg & Ec) _ _. cbn [fst snd] in *. subst g' can'.
  match goal with |- nsim _ (bind ?A _) (bind ?B _) => assert (nsim sn A B) as Hab2 by (destruct can; [now apply n_summarize_up|now apply nsim_ret]) end.
  apply (nsim_bind sn sn _ _ _ _ Hab2). intros nb2 mb2 Hb2 _ _. apply n_rebind_right; [exact Hb2|now apply sn_refl].
Qed.

Lemma n_bits_len t v m : sn v m -> nsim eq (bits_len H src t v) (bits_len H src t m).
Proof. intros Hv. destruct t; cbn [ModelMut.bits_len]; try apply nsim_eq_refl. now apply n_mixin. Qed.

Theorem n_bits_get t v m i : sn v m -> nsim eq (bits_get H src t v i) (bits_get H src t m i).
Proof.
  intros Hv. unfold ModelMut.bits_get. apply (nsim_bind eq eq _ _ _ _ (n_bits_len t v m Hv)). intros ll ll' -> _ _.
  destruct ((i <? 0)%Z || (Z.of_N ll' <=? i)%Z); [nerr|]. cbv zeta.
  destruct (n_getter_i v m (Z.to_N i / 256) (tree_depth t) Hv) as [G1 G2].
  destruct (getter_i v (Z.to_N i / 256) (tree_depth t)) as [c|ev].
  - destruct (G1 c eq_refl) as (c' & -> & Hc). rewrite (sn_root c c' Hc). apply nsim_eq_refl.
  - destruct (getter_i m (Z.to_N i / 256) (tree_depth t)) as [c'|em]; [|nerr].
    split; [discriminate|]. intros e y He _. destruct (G2 ev c' eq_refl eq_refl) as [-> | ->]; destruct t; inversion He; subst; unfold naverr; auto.
Qed.
(* a navigation error re-labelled as an index error (Bitlist) stays inside the allowed classes *)
Lemma nsim_relabel {A} (R : A -> A -> Prop) (f : err -> err) a b :
  (forall e, naverr e -> naverr (f e)) -> nsim R a b ->
  nsim R (match a with Err e => Err (f e) | Ok x => Ok x end) (match b with Err e => Err (f e) | Ok x => Ok x end).
Proof.
  intros Hf [H1 H2]. split.
  - intros x Hx. destruct a as [x0|e]; [|discriminate]. destruct (H1 x0 eq_refl) as (y & -> & Hr). inversion Hx; subst. eauto.
  - intros e y He Hy. destruct b as [y0|eb]; [|discriminate]. destruct a as [x0|ea]; [discriminate|]. inversion He; subst. apply Hf. exact (H2 ea y0 eq_refl eq_refl).
Qed.

Theorem n_bits_set t v m i b : sn v m -> nsim sn (bits_set H src t v i b) (bits_set H src t m i b).
Proof.
  intros Hv. unfold ModelMut.bits_set. apply (nsim_bind eq sn _ _ _ _ (n_bits_len t v m Hv)). intros ll ll' -> _ _.
  destruct ((i <? 0)%Z || (Z.of_N ll' <=? i)%Z); [nerr|]. cbv zeta.
  apply (nsim_relabel sn (fun e => match t with TBitlist _ => EIndex | _ => e end)).
  { intros e He. destruct t; try exact He. right; reflexivity. }
  apply (nsim_bind sn sn _ _ _ _ (n_setter_i false v m _ _ (RootN zero32) (RootN zero32) Hv snz)). intros _ _ _ _ _.
  apply (nsim_bind sn sn _ _ _ _ (n_getter_i v m _ _ Hv)). intros c c' Hc _ _. rewrite (sn_root c c' Hc).
  apply n_setter_i; [exact Hv|now apply sn_refl].
Qed.

Theorem n_bitlist_append t v m b : sn v m -> nsim sn (bitlist_append H src t v b) (bitlist_append H src t m b).
Proof.
  intros Hv. unfold ModelMut.bitlist_append. destruct t; try nerr.
  apply (nsim_bind eq sn _ _ _ _ (n_mixin v m Hv)). intros ll ll' -> _ _.
  destruct (limit <=? ll'); [nerr|]. cbv zeta.
  match goal with |- nsim _ (bind ?A _) (bind ?B _) => assert (nsim sn A B) as Hab end.
  { destruct (ll' mod 256 =? 0); [apply n_setter_i; [exact Hv|now apply sn_refl]|].
    apply (nsim_bind sn sn _ _ _ _ (n_setter_i false v m _ _ (RootN zero32) (RootN zero32) Hv snz)). intros _ _ _ _ _.
    apply (nsim_bind sn sn _ _ _ _ (n_getter_i v m _ _ Hv)). intros c c' Hc _ _. rewrite (sn_root c c' Hc).
    apply n_setter_i; [exact Hv|now apply sn_refl]. }
  apply (nsim_bind sn sn _ _ _ _ Hab). intros nb mb Hb _ _. apply n_rebind_right; [exact Hb|now apply sn_refl].
Qed.

Theorem n_bitlist_pop t v m : sn v m -> nsim sn (bitlist_pop H src t v) (bitlist_pop H src t m).
Proof.
  intros Hv. unfold ModelMut.bitlist_pop. destruct t; try nerr.
  apply (nsim_bind eq sn _ _ _ _ (n_mixin v m Hv)). intros ll ll' -> _ _.
  destruct (ll' =? 0); [nerr|]. cbv zeta.
  destruct (to_gindex ((ll' - 1) / 256) (tree_depth (TBitlist limit))) as [g|]; [|nerr]. cbn [bind].
  match goal with |- nsim _ (bind ?A _) (bind ?B _) => assert (nsim sn A B) as Hab end.
  { destruct ((ll' - 1) mod 256 =? 0); [apply n_setter_g; [exact Hv|now apply sn_refl]|].
    apply (nsim_bind sn sn _ _ _ _ (n_setter_g false v m g (RootN zero32) (RootN zero32) Hv snz)). intros _ _ _ _ _.
    apply (nsim_bind sn sn _ _ _ _ (n_getter_g v m g Hv)). intros c c' Hc _ _. rewrite (sn_root c c' Hc).
    apply n_setter_g; [exact Hv|now apply sn_refl]. }
  apply (nsim_bind sn sn _ _ _ _ Hab). intros nb mb Hb _ _.
  match goal with |- nsim _ (bind ?A _) (bind ?B _) => assert (nsim sn A B) as Hab2 by (destruct (N.even g && _); [now apply n_summarize_up|now apply nsim_ret]) end.
  apply (nsim_bind sn sn _ _ _ _ Hab2). intros nb2 mb2 Hb2 _ _. apply n_rebind_right; [exact Hb2|now apply sn_refl].
Qed.

Theorem n_union_selector t v m : sn v m -> nsim eq (union_selector H src t v) (union_selector H src t m).
Proof.
  intros Hv. unfold ModelMut.union_selector. destruct t; try nerr.
  apply (nsim_bind eq eq _ _ _ _ (n_mixin v m Hv)). intros sel sel' -> _ _. apply nsim_eq_refl.
Qed.

Theorem n_union_value t v m : sn v m ->
  nsim (fun a b => match a, b with None, None => True | Some (o, x), Some (o', y) => o = o' /\ sn x y | _, _ => False end)
      (union_value H src t v) (union_value H src t m).
Proof.
  intros Hv. unfold ModelMut.union_value. destruct t; try nerr.
  apply (nsim_bind sn _ _ _ _ _ (n_get_left v m Hv)). intros vn vm Hn _ _.
  apply (nsim_bind eq _ _ _ _ _ (n_union_selector (TUnion none0 opts) v m Hv)). intros sel sel' -> _ _.
  destruct (union_opt none0 opts (N.to_nat sel')) as [o|].
  - apply nsim_ret. split; [reflexivity|exact Hn].
  - rewrite (sn_root vn vm Hn). destruct (bytes_eqb (root vm) zero32); [now apply nsim_ret|nerr].
Qed.
(* ---- serialisation ---- *)
Lemma nseq {A B} (f g : A -> result B) : forall l, (forall i, nsim eq (f i) (g i)) -> nsim eq (seq_res (map f l)) (seq_res (map g l)).
Proof.
  intros l Hfg. induction l as [|a l IH]; cbn [map seq_res]; [apply nsim_eq_refl|].
  apply (nsim_bind eq eq _ _ _ _ (Hfg a)). intros x y -> _ _. apply (nsim_bind eq eq _ _ _ _ IH). intros xs ys -> _ _. apply nsim_eq_refl.
Qed.
Lemma n_read_chunks n m d count : sn n m -> nsim eq (read_chunks H src n d count) (read_chunks H src m d count).
Proof.
  intros Hs. unfold read_chunks. eapply (nsim_bind eq eq); [apply nseq|intros x y E _ _; subst; apply nsim_eq_refl].
  intros i. apply (nsim_bind sn eq _ _ _ _ (n_getter_i n m i d Hs)). intros c c' Hc _ _. rewrite (sn_root c c' Hc). apply nsim_eq_refl.
Qed.
Lemma n_bits_serialize b n m td bl : sn n m -> nsim eq (bits_serialize H src b n td bl) (bits_serialize H src b m td bl).
Proof.
  intros Hs. unfold bits_serialize. cbv zeta. apply (nsim_bind eq eq _ _ _ _ (n_read_chunks n m td _ Hs)). intros fb fb' -> _ _.
  destruct (0 <? (bl + 255) / 256); [|apply nsim_eq_refl].
  apply (nsim_bind sn eq _ _ _ _ (n_getter_i n m _ td Hs)). intros c c' Hc _ _. rewrite (sn_root c c' Hc). apply nsim_eq_refl.
Qed.

Theorem n_ser : forall t n m, sn n m -> nsim eq (ser_impl H src t n) (ser_impl H src t m).
Proof.
  induction t as [k| |bn|bl|yn|yl|e nn IHe|e l IHe|fs Hfs|b os Hos] using ty_ind'; intros n m Hs; cbn [ModelCodec.ser_impl].
  - rewrite (sn_root n m Hs). apply nsim_eq_refl.
  - rewrite (sn_root n m Hs). apply nsim_eq_refl.
  - apply (nsim_bind eq eq _ _ _ _ (n_bits_serialize false n m _ _ Hs)). intros x y E _ _; subst; apply nsim_eq_refl.
  - apply (nsim_bind eq eq _ _ _ _ (n_mixin n m Hs)). intros ll ll' -> _ _.
    apply (nsim_bind eq eq _ _ _ _ (n_bits_serialize true n m _ _ Hs)). intros x y E _ _; subst; apply nsim_eq_refl.
  - cbv zeta. rewrite (sn_root n m Hs). eapply (nsim_bind eq eq); [|intros x y E _ _; subst; apply nsim_eq_refl].
    destruct (Nat.eqb _ 0); [apply nsim_eq_refl|now apply n_read_chunks].
  - cbv zeta. apply (nsim_bind sn eq _ _ _ _ (n_get_left n m Hs)). intros c c' Hc _ _.
    apply (nsim_bind eq eq _ _ _ _ (n_mixin n m Hs)). intros ll ll' -> _ _. destruct (yl <? ll'); [nerr|].
    rewrite (sn_root c c' Hc). eapply (nsim_bind eq eq); [|intros x y E _ _; subst; apply nsim_eq_refl].
    destruct (Nat.eqb _ 0); [apply nsim_eq_refl|now apply n_read_chunks].
  - (* vector *) cbn [view_len bind]. cbv zeta. destruct (basic_size e) as [s|].
    + eapply (nsim_bind eq eq); [apply nseq|intros x y E _ _; subst; apply nsim_eq_refl]. intros i.
      apply (nsim_bind sn eq _ _ _ _ (n_getter_i n m _ _ Hs)). intros c c' Hc _ _. unfold packed_elem_bytes. rewrite (sn_root c c' Hc). apply nsim_eq_refl.
    + eapply (nsim_bind eq eq); [apply nseq|intros x y E _ _; subst; apply nsim_eq_refl]. intros i.
      apply (nsim_bind sn eq _ _ _ _ (n_getter_i n m _ _ Hs)). intros c c' Hc _ _. now apply IHe.
  - (* list *) cbn [view_len]. apply (nsim_bind eq eq _ _ _ _ (n_mixin n m Hs)). intros ll ll' -> _ _. cbv zeta. destruct (basic_size e) as [s|].
    + eapply (nsim_bind eq eq); [apply nseq|intros x y E _ _; subst; apply nsim_eq_refl]. intros i.
      apply (nsim_bind sn eq _ _ _ _ (n_getter_i n m _ _ Hs)). intros c c' Hc _ _. unfold packed_elem_bytes. rewrite (sn_root c c' Hc). apply nsim_eq_refl.
    + eapply (nsim_bind eq eq); [apply nseq|intros x y E _ _; subst; apply nsim_eq_refl]. intros i.
      apply (nsim_bind sn eq _ _ _ _ (n_getter_i n m _ _ Hs)). intros c c' Hc _ _. now apply IHe.
  - (* container *) cbv zeta. eapply (nsim_bind eq eq); [|intros x y E _ _; subst; apply nsim_eq_refl].
    generalize (tree_depth (TContainer fs)) as td. intros td.
    generalize (@nil byte, @nil byte, fold_left (fun acc f => acc + (if is_fixed_impl f then min_impl f else OFFSET)) fs 0) as acc0.
    generalize 0 as i0. intros i0 acc0. revert acc0 i0.
    induction Hfs as [|f fs' Hf Hfs' IH]; intros acc0 i0; [apply nsim_eq_refl|].
    destruct acc0 as [[fx vr0] written].
    apply (nsim_bind sn eq _ _ _ _ (n_getter_i n m i0 td Hs)). intros c c' Hc _ _.
    apply (nsim_bind eq eq _ _ _ _ (Hf c c' Hc)). intros x y E _ _; subst. destruct (is_fixed_impl f); apply IH.
  - (* union *)
    apply (nsim_bind eq eq _ _ _ _ (n_mixin n m Hs)). intros sel sel' -> _ _.
    destruct (lenN os + (if b then 1 else 0) <=? sel'); [nerr|].
    apply (nsim_bind sn eq _ _ _ _ (n_get_left n m Hs)). intros c c' Hc _ _. rewrite (sn_root c c' Hc).
    destruct (b && (sel' =? 0)); [apply nsim_eq_refl|]. eapply (nsim_bind eq eq); [|intros x y E _ _; subst; apply nsim_eq_refl].
    generalize (N.to_nat (if b then sel' - 1 else sel')) as j. induction Hos as [|o os' Ho Hos' IH]; intros j; [destruct j; nerr|].
    destruct j as [|j]; [now apply Ho|apply IH].
Qed.
(* ---- store level: a command that succeeds on the complete store can fail on the partial store only with a
        navigation / index error ---- *)
Definition anyrel {A} (_ _ : A) : Prop := True.
Lemma nsim_weaken {A} (R S : A -> A -> Prop) a b : (forall x y, R x y -> S x y) -> nsim R a b -> nsim S a b.
Proof. intros Hrs [H1 H2]. split; [|exact H2]. intros x Hx. destruct (H1 x Hx) as (y & Hy & Hr). eauto. Qed.
Lemma nsim_any {A} (R : A -> A -> Prop) a b : nsim R a b -> nsim anyrel a b.
Proof. apply nsim_weaken. intros; exact I. Qed.
Lemma nsim_triv {A} (r : result A) : nsim anyrel r r.
Proof. destruct r; [now apply nsim_ret|apply nsim_err]. Qed.

Lemma new_backing_nerr cp cc c : pcrel H cp cc -> nsim anyrel (new_backing H src cp c) (new_backing H src cc c).
Proof.
  intros (Ht & _ & Hk & Hnc & Hwf). assert (sn (cback cp) (cback cc)) as Hs by (split; assumption).
  destruct c; cbn [new_backing]; try nerr; rewrite Ht.
  - (* set *)
    assert (nsim anyrel (do k <- check_index H src (cty cc) (cback cp) i; do e <- elem_ty (cty cc) k; do x <- coerce_arg H e a; sub_set H src (cty cc) (cback cp) k x)
                        (do k <- check_index H src (cty cc) (cback cc) i; do e <- elem_ty (cty cc) k; do x <- coerce_arg H e a; sub_set H src (cty cc) (cback cc) k x)) as G.
    { apply (nsim_bind eq anyrel _ _ _ _ (n_check_index _ _ _ i Hs)). intros k k' -> _ _.
      destruct (elem_ty (cty cc) k') as [e|] eqn:Ee; [|nerr]. cbn [bind]. destruct (coerce_arg H e a) as [x|] eqn:Hx; [|nerr]. cbn [bind].
      apply (nsim_any sn). apply n_sub_set; [exact Hs|]. apply sn_refl. apply (coerce_novirt H e a x); [now apply (elem_ty_wf (cty cc) k' e)|exact Hx]. }
    destruct (cty cc); try nerr; exact G.
  - (* append *)
    destruct (cty cc) eqn:Ect; try nerr.
    + destruct a as [[| b | | | | |]| |]; try nerr. apply (nsim_any sn). now apply n_bitlist_append.
    + apply (nsim_bind eq anyrel _ _ _ _ (n_mixin _ _ Hs)). intros ll ll' -> _ _. destruct (limit <=? ll'); [nerr|].
      destruct (coerce_arg H t a) as [x|] eqn:Hx; [|nerr]. cbn [bind]. apply (nsim_any sn). apply n_list_append; [exact Hs|]. apply sn_refl.
      apply (coerce_novirt H t a x); [|exact Hx]. cbn [wf_ty] in Hwf. now apply andb_true_iff in Hwf as [Hte _].
  - (* pop *)
    destruct (cty cc); try nerr; apply (nsim_any sn); [now apply n_bitlist_pop|now apply n_list_pop].
  - (* bit set *)
    destruct a as [[| b | | | | |]| |]; try nerr. apply (nsim_any sn). now apply n_bits_set.
  - (* union change: computed from the argument alone *)
    apply nsim_triv.
Qed.

Lemma psrel_nth_none sp sc u : psrel H sp sc -> nth_error sp u = None -> nth_error sc u = None.
Proof. intros Hs Hn. apply nth_error_None. rewrite <- (psrel_length H sp sc Hs). now apply nth_error_None. Qed.

Lemma n_union_guard t n m e : sn n m -> nsim eq (union_guard H src t n e) (union_guard H src t m e).
Proof.
  intros Hs. unfold union_guard. destruct t; try nerr.
  apply (nsim_bind eq eq _ _ _ _ (n_union_selector (TUnion none0 opts) n m Hs)). intros sel sel' -> _ _. apply nsim_eq_refl.
Qed.

Lemma set_backing_naverr : forall fuel sp sc u bp bc e sp' sc', psrel H sp sc -> summ bp bc -> novirt bc ->
  set_backing H src fuel sp u bp = (Err e, sp') -> set_backing H src fuel sc u bc = (Ok tt, sc') -> naverr e.
Proof.
  induction fuel as [|f IH]; intros sp sc u bp bc e sp' sc' Hs Hb Hnb Hp Hc; cbn [ModelStore.set_backing] in *;
    (destruct (nth_error sp u) as [cp|] eqn:Ecp; [|rewrite (psrel_nth_none sp sc u Hs Ecp) in Hc; discriminate]);
    destruct (psrel_nth H sp sc u cp Hs Ecp) as (cc & Ecc & Ht & Hh & Hk & Hnc & Hwf); rewrite Ecc in Hc; rewrite Ht, Hh in Hp;
    (assert (psrel H (upd_cell sp u {| cty := cty cc; cback := bp; chook := chook cc |}) (upd_cell sc u {| cty := cty cc; cback := bc; chook := chook cc |})) as Hs1
       by (apply psrel_upd; [exact Hs|repeat split; assumption]));
    destruct (chook cc) as [|p i|p]; try discriminate.
  - destruct (nth_error (upd_cell sp u _) p) as [pp|] eqn:Epp; [|rewrite (psrel_nth_none _ _ p Hs1 Epp) in Hc; discriminate].
    destruct (psrel_nth H _ _ p pp Hs1 Epp) as (pc & Epc & Htp & _ & Hkp & Hnp & _). rewrite Epc in Hc. rewrite Htp in Hp.
    destruct (n_view_set (cty pc) (cback pp) (cback pc) (Z.of_N i) bp bc (conj Hkp Hnp) (conj Hb Hnb)) as [V1 V2].
    destruct (view_set H src (cty pc) (cback pp) (Z.of_N i) bp) as [np|ev] eqn:Hv.
    + destruct (V1 np eq_refl) as (nc & Hvc & Hn & Hnn). rewrite Hvc in Hc. exact (IH _ _ p np nc e sp' sc' Hs1 Hn Hnn Hp Hc).
    + inversion Hp; subst. destruct (view_set H src (cty pc) (cback pc) (Z.of_N i) bc) as [nc|] eqn:Hvc; [|discriminate]. exact (V2 e nc eq_refl eq_refl).
  - destruct (nth_error (upd_cell sp u _) p) as [pp|] eqn:Epp; [|rewrite (psrel_nth_none _ _ p Hs1 Epp) in Hc; discriminate].
    destruct (psrel_nth H _ _ p pp Hs1 Epp) as (pc & Epc & Htp & _ & Hkp & Hnp & _). rewrite Epc in Hc. rewrite Htp in Hp.
    destruct (n_union_guard (cty pc) (cback pp) (cback pc) (cty cc) (conj Hkp Hnp)) as [G1 G2].
    destruct (union_guard H src (cty pc) (cback pc) (cty cc)) as [[]|egc] eqn:Hgc; [|discriminate]. cbn [bind] in Hc.
    destruct (union_guard H src (cty pc) (cback pp) (cty cc)) as [[]|egp] eqn:Hgp;
      [|cbn [bind] in Hp; inversion Hp; subst; exact (G2 e tt eq_refl eq_refl)]. cbn [bind] in Hp.
    destruct (n_setter_g false (cback pp) (cback pc) 2 bp bc (conj Hkp Hnp) (conj Hb Hnb)) as [V1 V2].
    destruct (setter_g false (cback pp) 2 bp) as [np|ev] eqn:Hv.
    + destruct (V1 np eq_refl) as (nc & Hvc & Hn & Hnn). rewrite Hvc in Hc. exact (IH _ _ p np nc e sp' sc' Hs1 Hn Hnn Hp Hc).
    + inversion Hp; subst. destruct (setter_g false (cback pc) 2 bc) as [nc|] eqn:Hvc; [|discriminate]. exact (V2 e nc eq_refl eq_refl).
Qed.
Lemma n_normalise e x x' : wf_ty e = true -> sn x x' -> nsim anyrel (normalise_child H src e x) (normalise_child H src e x').
Proof.
  intros Hte Hs. destruct e; cbn [normalise_child]; try (now apply nsim_ret); rewrite ?(sn_root x x' Hs); try apply nsim_triv.
  - apply (nsim_bind eq anyrel _ _ _ _ (n_ser (TByteVector n) x x' Hs)). intros r r' -> _ _. apply nsim_triv.
  - apply (nsim_bind eq anyrel _ _ _ _ (n_ser (TByteList limit) x x' Hs)). intros r r' -> _ _. apply nsim_triv.
Qed.

Lemma pget_step_naverr sp sc t bp bc v i e sp' sc' : sn bp bc -> wf_ty t = true ->
  pget_step H src sp t bp v i = (Err e, sp') -> pget_step H src sc t bc v i = (Ok tt, sc') -> naverr e.
Proof.
  intros Hs Hwf Hp Hc. unfold pget_step in *.
  destruct (n_check_index t bp bc i Hs) as [C1 C2].
  destruct (check_index H src t bc i) as [k|] eqn:Hcc; [|discriminate].
  destruct (check_index H src t bp i) as [kp|ep] eqn:Hcp; [|inversion Hp; subst; exact (C2 e k eq_refl eq_refl)].
  destruct (C1 kp eq_refl) as (k' & Ek & Ekk). inversion Ek. subst k' kp. clear C1 C2 Ek.
  destruct (elem_ty t k) as [el|] eqn:Ee; [|destruct (sub_get H src t bc k); discriminate]. cbn [bind] in *.
  assert (nsim anyrel (do x <- sub_get H src t bp k; normalise_child H src el x) (do x <- sub_get H src t bc k; normalise_child H src el x)) as [_ G2].
  { apply (nsim_bind sn anyrel _ _ _ _ (n_sub_get t bp bc k Hs)). intros x x' Hx _ _. apply n_normalise; [now apply (elem_ty_wf t k el)|exact Hx]. }
  destruct (do x <- sub_get H src t bc k; normalise_child H src el x) as [nd'|] eqn:Hc2; [|discriminate].
  destruct (do x <- sub_get H src t bp k; normalise_child H src el x) as [nd|ep] eqn:Hp2; [discriminate|].
  inversion Hp; subst. exact (G2 e nd' eq_refl eq_refl).
Qed.

Theorem run_cmd_naverr sp sc c e sp' sc' : psrel H sp sc ->
  run_cmd H src sp c = (Err e, sp') -> run_cmd H src sc c = (Ok tt, sc') -> naverr e.
Proof.
  intros Hs Hp Hc. pose proof (psrel_length H sp sc Hs) as Hlen.
  destruct (mutating c) eqn:Hm.
  - destruct (nth_error sp (target c)) as [cp|] eqn:Ecp.
    + destruct (psrel_nth H sp sc _ cp Hs Ecp) as (cc & Ecc & Hcell).
      rewrite (run_cmd_mut H src sp c cp Ecp Hm) in Hp. rewrite (run_cmd_mut H src sc c cc Ecc Hm) in Hc.
      destruct (new_backing_nerr cp cc c Hcell) as [_ N2].
      destruct (new_backing H src cc c) as [nbc|] eqn:Hnc; [|discriminate].
      destruct (new_backing H src cp c) as [nbp|ep] eqn:Hnp; [|inversion Hp; subst; exact (N2 e nbc eq_refl eq_refl)].
      destruct (new_backing_psim H src Hi cp cc c nbp Hcell Hnp) as (nbc' & E' & Hb & Hnb). rewrite Hnc in E'. inversion E'; subst nbc'.
      rewrite <- Hlen in Hc. exact (set_backing_naverr _ sp sc _ nbp nbc e sp' sc' Hs Hb Hnb Hp Hc).
    + pose proof (psrel_nth_none sp sc _ Hs Ecp) as Ecc.
      destruct c; try discriminate; cbn [target] in *; cbn [ModelStore.run_cmd] in Hc; cbv zeta in Hc; rewrite Ecc in Hc; discriminate.
  - destruct c; try discriminate; cbn [ModelStore.run_cmd] in *; cbv zeta in *.
    + (* get *)
      destruct (nth_error sp v) as [cp|] eqn:Ecp; [|rewrite (psrel_nth_none sp sc v Hs Ecp) in Hc; discriminate].
      destruct (psrel_nth H sp sc v cp Hs Ecp) as (cc & Ecc & Ht & Hh & Hk & Hnc & Hwf). rewrite Ecc in Hc. rewrite Ht in Hp.
      assert ((match bits_get H src (cty cc) (cback cp) i with Ok _ => (Ok tt, sp) | Err e => (Err e, sp) end) = (Err e, sp') ->
              (match bits_get H src (cty cc) (cback cc) i with Ok _ => (Ok tt, sc) | Err e => (Err e, sc) end) = (Ok tt, sc') -> naverr e) as Hbits.
      { destruct (n_bits_get (cty cc) (cback cp) (cback cc) i (conj Hk Hnc)) as [_ B2].
        destruct (bits_get H src (cty cc) (cback cc) i) as [b|]; [|discriminate]. destruct (bits_get H src (cty cc) (cback cp) i) as [b'|eb]; [discriminate|].
        intros E _. inversion E; subst. exact (B2 e b eq_refl eq_refl). }
      destruct (cty cc) eqn:Ect; try (now apply Hbits); clear Hbits; rewrite <- Ect in *;
        exact (pget_step_naverr sp sc (cty cc) (cback cp) (cback cc) v i e sp' sc' (conj Hk Hnc) Hwf Hp Hc).
    + (* value *)
      destruct (nth_error sp v) as [cp|] eqn:Ecp; [|rewrite (psrel_nth_none sp sc v Hs Ecp) in Hc; discriminate].
      destruct (psrel_nth H sp sc v cp Hs Ecp) as (cc & Ecc & Ht & Hh & Hk & Hnc & Hwf). rewrite Ecc in Hc. rewrite Ht in Hp.
      destruct (n_union_value (cty cc) (cback cp) (cback cc) (conj Hk Hnc)) as [U1 U2].
      destruct (union_value H src (cty cc) (cback cc)) as [uc|] eqn:Huc; [|discriminate].
      destruct (union_value H src (cty cc) (cback cp)) as [up|eu] eqn:Hup; [|inversion Hp; subst; exact (U2 e uc eq_refl eq_refl)].
      destruct (U1 up eq_refl) as (uc' & E' & Hrel). inversion E'; subst uc'.
      destruct up as [[o x]|]; destruct uc as [[o' y]|]; try contradiction; [|discriminate].
      destruct Hrel as [<- Hxy].
      destruct (union_value_opt H src _ _ o y Huc) as (b & os & j & Et & Ho). rewrite Et in Hwf. pose proof (union_opt_wf b os j o Hwf Ho) as Hto.
      destruct (n_normalise o x y Hto Hxy) as [_ N2].
      destruct (normalise_child H src o y) as [nd'|] eqn:Hny; [|discriminate]. destruct (normalise_child H src o x) as [nd|en] eqn:Hnx; [discriminate|].
      inversion Hp; subst. exact (N2 e nd' eq_refl eq_refl).
    + (* copy *)
      destruct (nth_error sp v) as [cp|] eqn:Ecp; [discriminate|rewrite (psrel_nth_none sp sc v Hs Ecp) in Hc; discriminate].
Qed.
End WithHash.
