(* ChunkProofs.v — byte-level facts about the spec's `chunks` (32-byte groups, last one zero-padded)
   and reading them back out of a contents tree: used by the packed / byte-array / bitfield cases of
   the serialisation theorem (C02). *)
Require Import RM.Base RM.Gindex RM.Tree RM.TreeProofs RM.Types RM.Spec RM.ModelViews RM.ModelCodec
               RM.SerLen RM.FactsProofs RM.MerkleProofs RM.PackProofs RM.CtorProofs RM.PathProofs RM.CRepProofs
               RM.ListProofs RM.SerProofs RM.CodecBasicProofs RM.SerProofs2 RM.BitProofs.
From Coq Require Import ZifyBool ZifyNat ZifyN.
Local Open Scope nat_scope.

(* ---- generic list facts ---- *)
Lemma firstn_add {A} (a m : nat) (l : list A) : firstn (a + m) l = firstn a l ++ firstn m (skipn a l).
Proof.
  revert l; induction a as [|a IH]; intros l; [reflexivity|].
  destruct l as [|x l]; [rewrite skipn_nil, !firstn_nil; reflexivity|]. cbn [Nat.add firstn skipn app]. now rewrite IH.
Qed.

Lemma nth_uniform {A} (k : nat) (ls : list (list A)) (i : nat) :
  Forall (fun l => length l = k) ls -> i < length ls ->
  nth i ls [] = firstn k (skipn (i * k) (concat ls)).
Proof.
  intros Hall Hi. destruct (firstn_concat_uniform k i ls Hall) as [_ Hs]. rewrite Hs.
  revert i Hi Hs; induction Hall as [|l ls Hl Hall IH]; intros i Hi Hs; [cbn in Hi; lia|].
  destruct i as [|i].
  - cbn [nth skipn concat]. rewrite firstn_app, firstn_all2 by lia. replace (k - length l) with 0 by lia. cbn. now rewrite app_nil_r.
  - cbn [nth skipn]. destruct (firstn_concat_uniform k i ls Hall) as [_ Hs']. apply IH; [cbn in Hi; lia|exact Hs'].
Qed.

Lemma concat_firstn_partial {A} (k : nat) (ls : list (list A)) (full m : nat) :
  Forall (fun l => length l = k) ls -> full < length ls -> m <= k ->
  concat (firstn full ls) ++ firstn m (nth full ls []) = firstn (full * k + m) (concat ls).
Proof.
  intros Hall Hf Hm. rewrite firstn_add. destruct (firstn_concat_uniform k full ls Hall) as [Hfi Hs].
  rewrite Hfi. f_equal. rewrite (nth_uniform k ls full Hall Hf).
  rewrite firstn_firstn. f_equal. lia.
Qed.

Lemma skipn_add {A} (a b : nat) (l : list A) : skipn a (skipn b l) = skipn (b + a) l.
Proof.
  revert l; induction b as [|b IH]; intros l; [reflexivity|]. destruct l as [|x l]; [now rewrite !skipn_nil|].
  cbn [Nat.add skipn]. apply IH.
Qed.

(* ---- chunks ---- *)
Lemma pad32_length l : length l <= 32 -> length (pad32 l) = 32.
Proof. intros Hl. unfold pad32, pad_to, zero_bytes. rewrite app_length, repeat_length. lia. Qed.

Lemma chunks_fuel_nil f : chunks_fuel f [] = [].
Proof. destruct f; reflexivity. Qed.

Lemma chunks_fuel_all32 : forall f bs, Forall (fun c => length c = 32) (chunks_fuel f bs).
Proof.
  induction f as [|f IH]; intros bs; [constructor|]. destruct bs as [|b bs]; [constructor|].
  cbn [chunks_fuel]. constructor; [|apply IH]. apply pad32_length. rewrite firstn_length. lia.
Qed.
Lemma chunks_all32 bs : Forall (fun c => length c = 32) (chunks bs).
Proof. apply chunks_fuel_all32. Qed.

(* the chunks, concatenated, are the bytes followed by zero padding *)
Lemma concat_chunks_fuel : forall f bs, length bs <= f -> exists z, concat (chunks_fuel f bs) = bs ++ z.
Proof.
  induction f as [|f IH]; intros bs Hle.
  - destruct bs; [|cbn in Hle; lia]. exists []. reflexivity.
  - destruct bs as [|b bs]; [exists []; reflexivity|]. cbn [chunks_fuel concat].
    set (l := b :: bs) in *. destruct (Nat.le_gt_cases 32 (length l)) as [Hbig|Hsmall].
    + destruct (IH (skipn 32 l)) as (z & Hz); [rewrite skipn_length; unfold l in *; cbn [length] in *; lia|].
      exists z. rewrite Hz. unfold pad32, pad_to. rewrite firstn_length. replace (32 - Nat.min 32 (length l)) with 0 by lia.
      cbn [zero_bytes repeat]. rewrite app_nil_r, app_assoc, firstn_skipn. reflexivity.
    + rewrite (skipn_all2 l) by lia. rewrite chunks_fuel_nil. cbn [concat]. rewrite app_nil_r.
      rewrite firstn_all2 by lia. unfold pad32, pad_to. eexists. reflexivity.
Qed.
Lemma concat_chunks bs : exists z, concat (chunks bs) = bs ++ z.
Proof. apply concat_chunks_fuel. lia. Qed.

Lemma firstn_concat_chunks bs : firstn (length bs) (concat (chunks bs)) = bs.
Proof. destruct (concat_chunks bs) as (z & ->). rewrite firstn_app, firstn_all, Nat.sub_diag. cbn. now rewrite app_nil_r. Qed.

(* k bytes at offset r of chunk ci are the k bytes at offset 32 ci + r of the data *)
Lemma chunk_slice bs ci r k : r + k <= 32 -> ci * 32 + r + k <= length bs -> 0 < k ->
  slice (nth ci (chunks bs) []) r (r + k) = firstn k (skipn (ci * 32 + r) bs).
Proof.
  intros Hrk Hin Hk. unfold slice. replace (r + k - r) with k by lia.
  assert (ci < length (chunks bs)) as Hci by (rewrite chunks_length; apply Nat.div_le_lower_bound; lia).
  pose proof (nth_uniform 32 _ ci (chunks_all32 bs) Hci) as E. unfold bytes in *. rewrite E. clear E.
  destruct (concat_chunks bs) as (z & ->).
  assert (forall X : list byte, skipn r (firstn 32 X) = firstn (32 - r) (skipn r X)) as Esk
    by (intros X; rewrite firstn_skipn_comm; f_equal; f_equal; lia).
  rewrite Esk. rewrite firstn_firstn. replace (Nat.min k (32 - r)) with k by lia.
  rewrite skipn_add.
  rewrite skipn_app. rewrite firstn_app. rewrite skipn_length.
  replace (k - (length bs - (ci * 32 + r))) with 0 by lia. cbn [firstn]. now rewrite app_nil_r.
Qed.

(* ---- reading the chunks back out of a contents tree ---- *)
Lemma map_nth_seq {A} (d : A) : forall (l : list A) k, k <= length l ->
  map (fun j => nth j l d) (seq 0 k) = firstn k l.
Proof.
  induction l as [|x l IH]; intros k Hk; [cbn in Hk; assert (k = 0) as -> by lia; reflexivity|].
  destruct k as [|k]; [reflexivity|]. cbn [seq map nth firstn]. f_equal.
  rewrite <- seq_shift, map_map. cbn [nth]. apply IH. cbn in Hk; lia.
Qed.

Lemma seq_res_tab {A} (f : N -> result A) (g : nat -> A) : forall k a,
  (forall j, a <= j < a + k -> f (N.of_nat j) = Ok (g j)) ->
  seq_res (map f (map N.of_nat (seq a k))) = Ok (map g (seq a k)).
Proof.
  induction k as [|k IH]; intros a Hf; [reflexivity|].
  cbn [seq map seq_res]. rewrite (Hf a) by lia. cbn [bind]. rewrite (IH (S a)) by (intros j Hj; apply Hf; lia). reflexivity.
Qed.

Section WithHash.
Variable H : bytes -> bytes -> bytes.
Variable src : bytes -> option (bytes * bytes).
Notation root := (root H).
Notation CRep := (CRep H).
Notation ser_impl := (ser_impl H src).
Notation mk := (mk H).

(* the loop of read_chunks, over any accessor that yields the represented chunk nodes *)
Lemma read_loop (get : N -> result node) (cs : list bytes) (count : nat) :
  count <= length cs ->
  (forall j, j < length cs -> get (N.of_nat j) = Ok (RootN (nth j cs zero32))) ->
  seq_res (map (fun i => do c <- get i; Ok (root c)) (iotaN count)) = Ok (firstn count cs).
Proof.
  intros Hc Hget. unfold iotaN.
  rewrite (seq_res_tab _ (fun j => nth j cs zero32)).
  - now rewrite map_nth_seq.
  - intros j Hj. rewrite Hget by lia. reflexivity.
Qed.

Lemma nth_map_RootN (cs : list bytes) j : j < length cs -> nth j (map RootN cs) (RootN zero32) = RootN (nth j cs zero32).
Proof. intros Hj. apply (map_nth RootN). Qed.

(* vector-like backing: the tree is the contents *)
Lemma read_chunks_crep d n (cs : list bytes) (count : nat) : CRep d n (map RootN cs) -> count <= length cs ->
  read_chunks H src n d (N.of_nat count) = Ok (concat (firstn count cs)).
Proof.
  intros Hc Hk. unfold read_chunks. rewrite Nat2N.id.
  rewrite (read_loop (fun i => getter_i src n i d) cs count Hk); [reflexivity|].
  intros j Hj. rewrite <- (Nat2N.id j) at 2. rewrite <- nth_map_RootN by (rewrite Nat2N.id; exact Hj).
  apply (getter_i_crep H src _ _ _ _ _ Hc). unfold lenN. rewrite map_length. lia.
Qed.

(* list-like backing: contents on the left of the length mix-in *)
Lemma read_chunks_crep_list d c lenn (cs : list bytes) (count : nat) : CRep d c (map RootN cs) -> count <= length cs ->
  read_chunks H src (PairN c lenn) (S d) (N.of_nat count) = Ok (concat (firstn count cs)).
Proof.
  intros Hc Hk. unfold read_chunks. rewrite Nat2N.id.
  rewrite (read_loop (fun i => getter_i src (PairN c lenn) i (S d)) cs count Hk); [reflexivity|].
  intros j Hj. rewrite <- (Nat2N.id j) at 2. rewrite <- nth_map_RootN by (rewrite Nat2N.id; exact Hj).
  apply (getter_i_crep_list H src _ _ _ _ _ _ Hc). unfold lenN. rewrite map_length. lia.
Qed.

(* a depth-0 contents tree holding one chunk is that chunk *)
Lemma crep0_single n (c : bytes) : CRep 0 n [RootN c] -> root n = c.
Proof. intros Hc. inversion Hc; subst; reflexivity. Qed.

(* what ByteVector / ByteList serialisation reads: the data followed by padding *)
Lemma bytes_read d n (bs : bytes) (count : N) : CRep d n (map RootN (chunks bs)) ->
  count = N.of_nat (length (chunks bs)) ->
  exists B, (if Nat.eqb d 0 then Ok (root n) else read_chunks H src n d count) = Ok B /\ firstn (length bs) B = bs.
Proof.
  intros Hc ->. destruct d as [|d]; cbn [Nat.eqb].
  - exists (root n). split; [reflexivity|]. destruct bs as [|b bs]; [reflexivity|].
    pose proof (CRep_len H _ _ _ Hc) as Hl. rewrite map_length in Hl. cbn [Nat.pow] in Hl.
    pose proof (chunks_length (b :: bs)) as Hcl. pose proof (firstn_concat_chunks (b :: bs)) as Hf.
    destruct (chunks (b :: bs)) as [|c [|c2 cs]]; cbn [length] in *.
    + symmetry in Hcl. apply Nat.div_small_iff in Hcl; lia.
    + cbn [map] in Hc. rewrite (crep0_single n c Hc). cbn [concat] in Hf. now rewrite app_nil_r in Hf.
    + lia.
  - rewrite (read_chunks_crep (S d) n (chunks bs) _ Hc (le_n _)). rewrite firstn_all.
    eexists; split; [reflexivity|]. apply firstn_concat_chunks.
Qed.

Theorem ser_bytevector k bs n : wf_ty (TByteVector k) = true -> wf (TByteVector k) (VBytes bs) = true ->
  mk (TByteVector k) (VBytes bs) = Ok n -> ser_ok H src (TByteVector k) (VBytes bs) n.
Proof.
  intros Hty Hwf Hmk. cbn [wf] in Hwf. cbn [ModelViews.mk] in Hmk. rewrite Hwf in Hmk. cbn [negb] in Hmk. apply N.eqb_eq in Hwf.
  rewrite pack_bytes_chunks in Hmk.
  destruct (fill_to_contents_CRep H (contents_depth (TByteVector k)) (map RootN (chunks bs))) as (n' & Hf & Hc).
  { rewrite map_length, chunks_length. cbn [contents_depth]. pose proof (get_depth_fits ((k + 31) / 32)). unfold lenN in Hwf. lia. }
  rewrite Hf in Hmk. inversion Hmk; subst n'. clear Hmk.
  destruct (bytes_read _ n bs ((k + 31) / 32)%N Hc) as (B & HB & HfB).
  { rewrite chunks_length. unfold lenN in Hwf. lia. }
  unfold ser_ok. cbn [ModelCodec.ser_impl]. rewrite HB. cbn [bind Spec.ser].
  replace (N.to_nat k) with (length bs) by (unfold lenN in Hwf; lia). rewrite HfB.
  assert ((lenN bs =? k)%N = true) as -> by now apply N.eqb_eq. reflexivity.
Qed.

Theorem ser_bytelist l bs n : wf_ty (TByteList l) = true -> wf (TByteList l) (VBytes bs) = true ->
  mk (TByteList l) (VBytes bs) = Ok n -> ser_ok H src (TByteList l) (VBytes bs) n.
Proof.
  intros Hty Hwf Hmk. cbn [wf] in Hwf. cbn [wf_ty] in Hty. apply N.ltb_lt in Hty. unfold LIMIT_BOUND in Hty.
  cbn [ModelViews.mk] in Hmk. apply N.leb_le in Hwf.
  assert ((l <? lenN bs)%N = false) as Hlt by (apply N.ltb_ge; exact Hwf). rewrite Hlt in Hmk.
  rewrite pack_bytes_chunks in Hmk.
  destruct (fill_to_contents_CRep H (contents_depth (TByteList l)) (map RootN (chunks bs))) as (c & Hf & Hc).
  { rewrite map_length, chunks_length. cbn [contents_depth]. pose proof (get_depth_fits ((l + 31) / 32)). unfold lenN in Hwf. lia. }
  rewrite Hf in Hmk. cbn [bind] in Hmk. inversion Hmk; subst n. clear Hmk.
  destruct (bytes_read _ c bs ((lenN bs + 31) / 32)%N Hc) as (B & HB & HfB).
  { rewrite chunks_length. unfold lenN. lia. }
  unfold ser_ok. cbn [ModelCodec.ser_impl get_left children bind].
  rewrite (mixin_len_node H src c (lenN bs)) by lia. cbn [bind]. rewrite Hlt, HB. cbn [bind Spec.ser].
  replace (N.to_nat (lenN bs)) with (length bs) by (unfold lenN; lia). rewrite HfB. reflexivity.
Qed.

(* ---- packed basic elements ---- *)
Lemma packed_get (s' epc' : nat) (D : bytes) (j : nat) : s' * epc' = 32 -> 0 < s' -> (j + 1) * s' <= length D ->
  slice (nth (j / epc') (chunks D) zero32) ((j mod epc') * s') ((j mod epc' + 1) * s') = firstn s' (skipn (j * s') D).
Proof.
  intros Hse Hs Hj. assert (epc' <> 0) as He by (intros ->; lia).
  pose proof (Nat.div_mod j epc' He) as Hdm. pose proof (Nat.mod_upper_bound j epc' He) as Hm.
  set (q := j / epc') in *. set (m := j mod epc') in *.
  assert ((m + 1) * s' <= 32) as Hr by (rewrite <- Hse, (Nat.mul_comm s'); apply Nat.mul_le_mono_r; lia).
  assert (q * 32 + m * s' = j * s') as Hpos by (rewrite Hdm, <- Hse; nia).
  replace ((m + 1) * s') with (m * s' + s') by nia.
  assert (q < length (chunks D)) as Hq.
  { rewrite chunks_length. apply Nat.div_le_lower_bound; [lia|]. nia. }
  rewrite (nth_indep _ zero32 [] Hq).
  rewrite chunk_slice; [now rewrite Hpos| nia | nia | exact Hs].
Qed.

Lemma packed_elem_ok e s x (chunk : bytes) (jm : N) : wf_ty e = true -> basic_size e = Some s -> wf e x = true ->
  slice chunk (N.to_nat (jm * s)) (N.to_nat ((jm + 1) * s)) = ser e x ->
  packed_elem_bytes H e (RootN chunk) jm = Ok (ser e x).
Proof.
  destruct e; cbn [basic_size]; intros Hw E Hx Hsl; inversion E; subst; destruct x; cbn [wf] in Hx; try discriminate.
  - cbn [packed_elem_bytes Tree.root]. now rewrite Hsl.
  - cbn [packed_elem_bytes Tree.root]. rewrite !N.mul_1_r in Hsl. rewrite Hsl. cbn [Spec.ser]. destruct b; reflexivity.
Qed.

Lemma packed_elems e s (vs : list val) (get : N -> result node) :
  wf_ty e = true -> basic_size e = Some s -> forallb (wf e) vs = true ->
  (forall ci, ci < length (chunks (concat (map (ser e) vs))) ->
     get (N.of_nat ci) = Ok (RootN (nth ci (chunks (concat (map (ser e) vs))) zero32))) ->
  seq_res (map (fun i => do c <- get (i / elems_per_chunk s)%N; packed_elem_bytes H e c (i mod elems_per_chunk s)%N)
               (iotaN (length vs))) = Ok (map (ser e) vs).
Proof.
  intros Hw E Hall Hget. set (D := concat (map (ser e) vs)) in *.
  pose proof (basic_size_ok e s Hw E) as Hs.
  assert (Forall (fun l => length l = N.to_nat s) (map (ser e) vs)) as Hu.
  { apply Forall_forall. intros b Hb. apply in_map_iff in Hb as (x & <- & Hx).
    apply (ser_basic_length e s x Hw E). rewrite forallb_forall in Hall. now apply Hall. }
  pose proof (concat_ser_length e s vs Hw E Hall) as HD. fold D in HD.
  unfold iotaN. rewrite (seq_res_tab _ (fun j => nth j (map (ser e) vs) [])).
  - rewrite <- (map_length (ser e) vs). rewrite map_nth_seq by lia. now rewrite firstn_all.
  - intros j [_ Hj]. cbn [Nat.add] in Hj.
    set (s' := N.to_nat s). set (epc' := N.to_nat (elems_per_chunk s)).
    assert (s' * epc' = 32 /\ 0 < s') as [Hse Hs0] by (unfold s', epc', elems_per_chunk; destruct Hs as [ -> | [ -> | [ -> | [ -> | [ -> | -> ]]]]]; cbn; lia).
    assert (epc' <> 0) as He by (intros E0; rewrite E0 in Hse; lia).
    assert ((N.of_nat j / elems_per_chunk s)%N = N.of_nat (j / epc')) as -> by (unfold epc'; rewrite Nat2N.inj_div, N2Nat.id; reflexivity).
    assert ((N.of_nat j mod elems_per_chunk s)%N = N.of_nat (j mod epc')) as -> by (unfold epc'; rewrite Nat2N.inj_mod, N2Nat.id; reflexivity).
    assert ((j + 1) * s' <= length D) as HjD by (rewrite HD; fold s'; apply Nat.mul_le_mono_r; lia).
    rewrite Hget.
    2:{ rewrite chunks_length. apply Nat.div_le_lower_bound; [lia|].
        pose proof (Nat.div_mod j epc' He). pose proof (Nat.mod_upper_bound j epc' He). nia. }
    cbn [bind].
    assert (nth j (map (ser e) vs) [] = ser e (nth j vs (VUint 0))) as Enth.
    { rewrite (nth_indep _ [] (ser e (VUint 0))) by (now rewrite map_length). apply map_nth. }
    rewrite Enth. apply (packed_elem_ok e s); [exact Hw|exact E| |].
    + rewrite forallb_forall in Hall. apply Hall. now apply nth_In.
    + replace (N.to_nat (N.of_nat (j mod epc') * s)) with ((j mod epc') * s') by (unfold s'; lia).
      replace (N.to_nat ((N.of_nat (j mod epc') + 1) * s)) with ((j mod epc' + 1) * s') by (unfold s'; lia).
      rewrite (packed_get s' epc' D j Hse Hs0 HjD). rewrite <- Enth.
      symmetry. apply (nth_uniform s' _ j Hu). now rewrite map_length.
Qed.

(* the spec encoding of a sequence of basic elements is the concatenation *)
Lemma ser_basic_seq e s vs : wf_ty e = true -> basic_size e = Some s -> forallb (wf e) vs = true ->
  ser_parts (map (fun x => (is_fixed e, ser e x)) vs) = concat (map (ser e) vs) /\
  lenN (concat (map (ser e) vs)) = (s * lenN vs)%N.
Proof.
  intros Hw E Hall. assert (is_fixed e = true) as -> by (destruct e; cbn in E; try discriminate; reflexivity).
  destruct (seq_fixed_ser (map (fun x => (ser e x, 0%N)) vs) s) as [H1 _].
  { intros x Hx. apply in_map_iff in Hx as (y & <- & Hy). cbn [fst]. unfold lenN.
    rewrite (ser_basic_length e s y Hw E); [lia|]. rewrite forallb_forall in Hall. now apply Hall. }
  rewrite !map_map in H1. cbn [fst] in H1. split; [symmetry; exact H1|].
  unfold lenN. rewrite (concat_ser_length e s vs Hw E Hall). lia.
Qed.

Theorem ser_packed_vector e nn vs n s : wf_ty (TVector e nn) = true -> basic_size e = Some s ->
  wf (TVector e nn) (VSeq vs) = true -> mk (TVector e nn) (VSeq vs) = Ok n -> ser_ok H src (TVector e nn) (VSeq vs) n.
Proof.
  intros Hty E Hwf Hmk. cbn [wf] in Hwf. apply andb_true_iff in Hwf as [Hn Hall]. apply N.eqb_eq in Hn.
  pose proof Hty as Hty0. cbn [wf_ty] in Hty. apply andb_true_iff in Hty as [Hty Hnb2]. apply andb_true_iff in Hty as [Hte Hn1]. apply N.leb_le in Hn1.
  cbn [ModelViews.mk] in Hmk. destruct vs as [|x0 vs0] eqn:Evs; [unfold lenN in Hn; cbn in Hn; lia|]. rewrite <- Evs in *.
  assert ((lenN vs =? nn)%N = true) as Hn' by now apply N.eqb_eq. rewrite Hn' in Hmk. cbn [negb] in Hmk. rewrite E in Hmk.
  destruct (mk_basic_all e s vs Hte E Hall) as (xs & Hxs & Hl & Hm). rewrite Hxs in Hmk. cbn [bind] in Hmk.
  rewrite (pack_ints_chunks s xs (basic_size_ok e s Hte E)), Hm in Hmk.
  set (D := concat (map (ser e) vs)) in *.
  destruct (fill_to_contents_CRep H (contents_depth (TVector e nn)) (map RootN (chunks D))) as (n' & Hf & Hc).
  { rewrite map_length, chunks_length. unfold D. rewrite (concat_ser_length e s vs Hte E Hall).
    cbn [contents_depth]. unfold to_chunk_length. rewrite E. rewrite (chunk_len_eq s nn (basic_size_ok e s Hte E)).
    pose proof (get_depth_fits ((nn * s + 31) / 32)). unfold lenN in Hn. lia. }
  rewrite Hf in Hmk. inversion Hmk; subst n'. clear Hmk.
  unfold ser_ok. cbn [ModelCodec.ser_impl view_len bind]. rewrite E.
  assert (tree_depth (TVector e nn) = contents_depth (TVector e nn)) as -> by reflexivity.
  replace (N.to_nat nn) with (length vs) by (unfold lenN in Hn; lia).
  rewrite (packed_elems e s vs (fun i => getter_i src n i (contents_depth (TVector e nn))) Hte E Hall).
  2:{ intros ci Hci. fold D in Hci |- *. rewrite <- nth_map_RootN by exact Hci. rewrite <- (Nat2N.id ci) at 2.
      apply (getter_i_crep H src _ _ _ _ _ Hc). unfold lenN. rewrite map_length. lia. }
  cbn [bind Spec.ser]. destruct (ser_basic_seq e s vs Hte E Hall) as [-> ->]. now rewrite Hn.
Qed.

Theorem ser_packed_list e l vs n s : wf_ty (TList e l) = true -> basic_size e = Some s ->
  wf (TList e l) (VSeq vs) = true -> mk (TList e l) (VSeq vs) = Ok n -> ser_ok H src (TList e l) (VSeq vs) n.
Proof.
  intros Hty E Hwf Hmk. cbn [wf] in Hwf. apply andb_true_iff in Hwf as [Hn Hall]. apply N.leb_le in Hn.
  pose proof Hty as Hty0. cbn [wf_ty] in Hty. apply andb_true_iff in Hty as [Hte Hlb]. apply N.ltb_lt in Hlb. unfold LIMIT_BOUND in Hlb.
  cbn [ModelViews.mk] in Hmk. destruct vs as [|x0 vs0] eqn:Evs.
  - cbn [default_node] in Hmk. inversion Hmk; subst n. clear Hmk.
    change (zero_node H 0) with (len_node 0).
    unfold ser_ok. cbn [ModelCodec.ser_impl view_len]. rewrite (mixin_len_node H src _ 0%N) by (cbn; lia). cbn [bind]. rewrite E.
    cbn. rewrite N.mul_0_r. reflexivity.
  - rewrite <- Evs in *. assert ((l <? lenN vs)%N = false) as Hlt by (apply N.ltb_ge; exact Hn). rewrite Hlt, E in Hmk.
    destruct (mk_basic_all e s vs Hte E Hall) as (xs & Hxs & Hl & Hm). rewrite Hxs in Hmk. cbn [bind] in Hmk.
    rewrite (pack_ints_chunks s xs (basic_size_ok e s Hte E)), Hm in Hmk.
    set (D := concat (map (ser e) vs)) in *.
    destruct (fill_to_contents_CRep H (contents_depth (TList e l)) (map RootN (chunks D))) as (c & Hf & Hc).
    { rewrite map_length, chunks_length. unfold D. rewrite (concat_ser_length e s vs Hte E Hall).
      cbn [contents_depth]. unfold to_chunk_length. rewrite E. rewrite (chunk_len_eq s l (basic_size_ok e s Hte E)).
      pose proof (get_depth_fits ((l * s + 31) / 32)). unfold lenN in Hn.
      pose proof (basic_size_ok e s Hte E) as Hs. nia. }
    rewrite Hf in Hmk. cbn [bind] in Hmk. inversion Hmk; subst n. clear Hmk.
    assert (lenN vs < 2 ^ 64)%N as H64 by lia.
    unfold ser_ok. cbn [ModelCodec.ser_impl view_len]. rewrite (mixin_len_node H src c (lenN vs) H64). cbn [bind]. rewrite E.
    assert (tree_depth (TList e l) = S (contents_depth (TList e l))) as -> by reflexivity.
    replace (N.to_nat (lenN vs)) with (length vs) by (unfold lenN; lia).
    rewrite (packed_elems e s vs (fun i => getter_i src (PairN c (len_node (lenN vs))) i (S (contents_depth (TList e l)))) Hte E Hall).
    2:{ intros ci Hci. fold D in Hci |- *. rewrite <- nth_map_RootN by exact Hci. rewrite <- (Nat2N.id ci) at 2.
        apply (getter_i_crep_list H src _ _ _ _ _ _ Hc). unfold lenN. rewrite map_length. lia. }
    cbn [bind Spec.ser]. destruct (ser_basic_seq e s vs Hte E Hall) as [-> ->]. reflexivity.
Qed.

(* ---- bitfields ---- *)
Lemma bits_core (is_list : bool) (n : node) (td : nat) (bs : list bool) :
  (forall count, count <= length (chunks (bits_to_bytes bs)) ->
     read_chunks H src n td (N.of_nat count) = Ok (concat (firstn count (chunks (bits_to_bytes bs))))) ->
  (forall j, j < length (chunks (bits_to_bytes bs)) ->
     getter_i src n (N.of_nat j) td = Ok (RootN (nth j (chunks (bits_to_bytes bs)) zero32))) ->
  bits_serialize H src is_list n td (lenN bs) = Ok (if is_list then bits_to_bytes (bs ++ [true]) else bits_to_bytes bs).
Proof.
  set (B := bits_to_bytes bs). intros Hread Hget. unfold bits_serialize.
  pose proof (bits_to_bytes_lenN bs) as HB. fold B in HB. unfold lenN in HB.
  pose proof (chunks_length B) as Hcl. pose proof (chunks_all32 B) as Hu.
  set (cc := ((lenN bs + 255) / 256)%N). set (bl := ((lenN bs + 7) / 8)%N).
  assert (length (chunks B) = N.to_nat cc) as Hcc by (unfold cc, lenN; lia).
  assert (length B = N.to_nat bl) as Hbl by (unfold bl, lenN; lia).
  rewrite <- (N2Nat.id (cc - 1)%N) at 1. rewrite Hread by lia. cbn [bind].
  destruct (0 <? cc)%N eqn:Hpos.
  - apply N.ltb_lt in Hpos. set (full := N.to_nat (cc - 1)) in *.
    rewrite <- (N2Nat.id (cc - 1)%N). fold full. rewrite Hget by lia. cbn [bind Tree.root].
    set (m := N.to_nat (bl - N.of_nat full * 32)).
    assert (full * 32 + m = length B /\ m <= 32) as [Hfm Hm32] by (unfold m, full, cc, bl, lenN in *; lia).
    assert (full < length (chunks B)) as Hfl by (unfold full; lia).
    assert (concat (firstn full (chunks B)) ++ firstn m (nth full (chunks B) zero32) = B) as Hcat.
    { rewrite (nth_indep _ zero32 []) by exact Hfl.
      pose proof (concat_firstn_partial 32 (chunks B) full m Hu Hfl Hm32) as E. unfold bytes in *. rewrite E.
      rewrite Hfm. apply firstn_concat_chunks. }
    destruct is_list.
    + destruct (delimiter_bytes bs) as [D0 D1]. fold B in D0, D1.
      assert ((lenN bs mod 8 =? 0)%N = (length bs mod 8 =? 0)) as Emod by (unfold lenN; lia).
      rewrite Emod. destruct (length bs mod 8 =? 0) eqn:Er.
      * apply Nat.eqb_eq in Er. rewrite (D0 Er). rewrite app_assoc. unfold bytes in *. now rewrite Hcat.
      * apply Nat.eqb_neq in Er.
        destruct (rev (firstn m (nth full (chunks B) zero32))) as [|lastb r0] eqn:Erev.
        -- exfalso. apply (f_equal (@length byte)) in Erev. rewrite rev_length in Erev. cbn [length] in Erev.
           rewrite firstn_length in Erev.
           assert (length (nth full (chunks B) zero32) = 32) as L32.
           { rewrite Forall_forall in Hu. apply Hu. apply nth_In. exact Hfl. }
           assert (0 < m) by (unfold m, full, cc, bl, lenN in *; lia). unfold bytes in *. lia.
        -- assert (firstn m (nth full (chunks B) zero32) = rev r0 ++ [lastb]) as Ebz
             by (rewrite <- (rev_involutive (firstn m _)); unfold bytes in *; rewrite Erev; reflexivity).
           unfold bytes in *. rewrite Ebz in Hcat. rewrite app_assoc in Hcat.
           rewrite (D1 Er _ _ (eq_sym Hcat)). rewrite app_assoc.
           replace (lenN bs mod 8)%N with (N.of_nat (length bs mod 8)) by (unfold lenN; lia). reflexivity.
    + unfold bytes in *. now rewrite Hcat.
  - apply N.ltb_ge in Hpos. assert (bs = []) as -> by (destruct bs; [reflexivity|unfold cc, lenN in Hpos; cbn [length] in Hpos; lia]).
    destruct is_list; reflexivity.
Qed.

Theorem ser_bitvector k bs n : wf_ty (TBitvector k) = true -> wf (TBitvector k) (VBits bs) = true ->
  mk (TBitvector k) (VBits bs) = Ok n -> ser_ok H src (TBitvector k) (VBits bs) n.
Proof.
  intros Hty Hwf Hmk. cbn [wf] in Hwf. cbn [ModelViews.mk] in Hmk. rewrite Hwf in Hmk. cbn [negb] in Hmk. apply N.eqb_eq in Hwf.
  rewrite pack_bits_chunks in Hmk. set (B := bits_to_bytes bs) in *.
  pose proof (bits_to_bytes_lenN bs) as HB. fold B in HB. unfold lenN in HB.
  destruct (fill_to_contents_CRep H (contents_depth (TBitvector k)) (map RootN (chunks B))) as (n' & Hf & Hc).
  { rewrite map_length, chunks_length. cbn [contents_depth]. pose proof (get_depth_fits ((k + 255) / 256)). unfold lenN in Hwf. lia. }
  rewrite Hf in Hmk. inversion Hmk; subst n'. clear Hmk.
  unfold ser_ok. cbn [ModelCodec.ser_impl]. rewrite <- Hwf.
  assert (tree_depth (TBitvector (lenN bs)) = contents_depth (TBitvector k)) as -> by (rewrite Hwf; reflexivity).
  rewrite (bits_core false n _ bs).
  - cbn [bind Spec.ser]. fold B. f_equal. f_equal. unfold lenN. lia.
  - intros count Hcnt. now apply read_chunks_crep.
  - intros j Hj. fold B in Hj |- *. rewrite <- nth_map_RootN by exact Hj. rewrite <- (Nat2N.id j) at 2.
    apply (getter_i_crep H src _ _ _ _ _ Hc). unfold lenN. rewrite map_length. lia.
Qed.

Theorem ser_bitlist l bs n : wf_ty (TBitlist l) = true -> wf (TBitlist l) (VBits bs) = true ->
  mk (TBitlist l) (VBits bs) = Ok n -> ser_ok H src (TBitlist l) (VBits bs) n.
Proof.
  intros Hty Hwf Hmk. cbn [wf] in Hwf. cbn [wf_ty] in Hty. apply N.ltb_lt in Hty. unfold LIMIT_BOUND in Hty.
  cbn [ModelViews.mk] in Hmk. apply N.leb_le in Hwf.
  assert ((l <? lenN bs)%N = false) as Hlt by (apply N.ltb_ge; exact Hwf). rewrite Hlt in Hmk.
  rewrite pack_bits_chunks in Hmk. set (B := bits_to_bytes bs) in *.
  pose proof (bits_to_bytes_lenN bs) as HB. fold B in HB. unfold lenN in HB.
  destruct (fill_to_contents_CRep H (contents_depth (TBitlist l)) (map RootN (chunks B))) as (c & Hf & Hc).
  { rewrite map_length, chunks_length. cbn [contents_depth]. pose proof (get_depth_fits ((l + 255) / 256)). unfold lenN in Hwf. lia. }
  rewrite Hf in Hmk. cbn [bind] in Hmk. inversion Hmk; subst n. clear Hmk.
  unfold ser_ok. cbn [ModelCodec.ser_impl]. rewrite (mixin_len_node H src c (lenN bs)) by lia. cbn [bind].
  assert (tree_depth (TBitlist l) = S (contents_depth (TBitlist l))) as -> by reflexivity.
  rewrite (bits_core true _ _ bs).
  - cbn [bind Spec.ser]. f_equal. f_equal. rewrite bits_to_bytes_lenN, lenN_app. unfold lenN. cbn [length]. lia.
  - intros count Hcnt. now apply read_chunks_crep_list.
  - intros j Hj. fold B in Hj |- *. rewrite <- nth_map_RootN by exact Hj. rewrite <- (Nat2N.id j) at 2.
    apply (getter_i_crep_list H src _ _ _ _ _ _ Hc). unfold lenN. rewrite map_length. lia.
Qed.

End WithHash.
