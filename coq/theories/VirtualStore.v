(* VirtualStore.v — C20 at store level: any command, hence any history of commands through any held views, on a store whose backings are virtual trees gives the results it gives on the materialised store, and the stores stay related (same types, hooks, roots and encodings). *)
Require Import RM.Base RM.Gindex RM.Tree RM.TreeProofs RM.Types RM.Spec RM.ModelViews RM.ModelCodec RM.ModelMut RM.ModelStore
               RM.StoreProofs RM.VirtualProofs RM.VirtualViews RM.StoreChain.
From Coq Require Import ZifyBool ZifyNat ZifyN.
Local Open Scope N_scope.
Section WithHash.
Variable H : bytes -> bytes -> bytes.
Variable src : bytes -> option (bytes * bytes).
Notation vr := (vr H src).
Notation run_cmd := (run_cmd H src).
Notation set_backing := (set_backing H src).
(* ---- stores of views over virtual trees ---- *)
Definition crel (cv cm : cell) : Prop := cty cv = cty cm /\ chook cv = chook cm /\ vr (cback cv) (cback cm).
Definition srel (sv sm : store) : Prop := Forall2 crel sv sm.
Definition rrel (a b : result unit * store) : Prop := fst a = fst b /\ srel (snd a) (snd b).

Lemma srel_length sv sm : srel sv sm -> length sv = length sm.
Proof. induction 1; cbn; auto. Qed.

Lemma srel_nth sv sm u : srel sv sm ->
  match nth_error sm u with
  | Some cm => exists cv, nth_error sv u = Some cv /\ crel cv cm
  | None => nth_error sv u = None
  end.
Proof.
  intros Hs. revert u. induction Hs as [|cv cm sv sm Hc Hs IH]; intros [|u]; cbn [nth_error]; auto; [eauto|apply IH].
Qed.

Lemma srel_app sv sm cv cm : srel sv sm -> crel cv cm -> srel (sv ++ [cv]) (sm ++ [cm]).
Proof. intros Hs Hc. apply Forall2_app; [exact Hs|constructor; [exact Hc|constructor]]. Qed.

Lemma Forall2_firstn {A B} (R : A -> B -> Prop) k : forall l r, Forall2 R l r -> Forall2 R (firstn k l) (firstn k r).
Proof. induction k as [|k IH]; intros l r Hf; [constructor|]. destruct Hf; cbn; constructor; auto. Qed.
Lemma Forall2_skipn {A B} (R : A -> B -> Prop) k : forall l r, Forall2 R l r -> Forall2 R (skipn k l) (skipn k r).
Proof. induction k as [|k IH]; intros l r Hf; [exact Hf|]. destruct Hf; cbn; [constructor|auto]. Qed.

Lemma srel_upd sv sm u cv cm : srel sv sm -> crel cv cm -> srel (upd_cell sv u cv) (upd_cell sm u cm).
Proof.
  intros Hs Hc. unfold upd_cell. apply Forall2_app; [now apply Forall2_firstn|]. constructor; [exact Hc|now apply Forall2_skipn].
Qed.

Lemma vr_union_guard t v m e : vr v m -> union_guard H src t v e = union_guard H src t m e.
Proof.
  intros Hv. unfold union_guard. destruct t; try reflexivity.
  now rewrite (sim_eq_is_eq _ _ (vr_union_selector H src (TUnion none0 opts) v m Hv)).
Qed.

Lemma set_backing_sim : forall fuel sv sm u bv bm, srel sv sm -> vr bv bm -> rrel (set_backing fuel sv u bv) (set_backing fuel sm u bm).
Proof.
  induction fuel as [|f IH]; intros sv sm u bv bm Hs Hb; cbn [ModelStore.set_backing];
    pose proof (srel_nth sv sm u Hs) as Hu; destruct (nth_error sm u) as [cm|];
    try (rewrite Hu; split; [reflexivity|exact Hs]);
    destruct Hu as (cv & -> & Ht & Hh & Hk); rewrite Ht, Hh;
    (assert (srel (upd_cell sv u {| cty := cty cm; cback := bv; chook := chook cm |}) (upd_cell sm u {| cty := cty cm; cback := bm; chook := chook cm |})) as Hs1
       by (apply srel_upd; [exact Hs|repeat split; exact Hb]));
    destruct (chook cm) as [|p i|p]; try (split; [reflexivity|exact Hs1]).
  - (* element hook *)
    pose proof (srel_nth _ _ p Hs1) as Hp. destruct (nth_error (upd_cell sm u _) p) as [pm|]; [|rewrite Hp; split; [reflexivity|exact Hs1]].
    destruct Hp as (pv & -> & Htp & _ & Hkp). rewrite Htp.
    pose proof (vr_view_set H src (cty pm) (cback pv) (cback pm) (Z.of_N i) bv bm Hkp Hb) as Hvs. unfold sim in Hvs.
    destruct (view_set H src (cty pm) (cback pm) (Z.of_N i) bm) as [nb|e].
    + destruct Hvs as (nv & -> & Hn). now apply IH.
    + rewrite Hvs. split; [reflexivity|exact Hs1].
  - (* union value hook *)
    pose proof (srel_nth _ _ p Hs1) as Hp. destruct (nth_error (upd_cell sm u _) p) as [pm|]; [|rewrite Hp; split; [reflexivity|exact Hs1]].
    destruct Hp as (pv & -> & Htp & _ & Hkp). rewrite Htp. rewrite (vr_union_guard (cty pm) (cback pv) (cback pm) (cty cm) Hkp).
    destruct (union_guard H src (cty pm) (cback pm) (cty cm)) as [[]|eg]; cbn [bind]; [|split; [reflexivity|exact Hs1]].
    pose proof (vr_setter_g H src false (cback pv) (cback pm) 2 bv bm Hkp Hb ltac:(discriminate)) as Hvs. unfold sim in Hvs.
    destruct (setter_g H src false (cback pm) 2 bm) as [nb|e].
    + destruct Hvs as (nv & -> & Hn). now apply IH.
    + rewrite Hvs. split; [reflexivity|exact Hs1].
Qed.

Lemma sim_vr_refl (r : result node) : sim vr r r.
Proof. destruct r; cbn; [eexists; split; [reflexivity|apply vr_refl]|reflexivity]. Qed.

Lemma new_backing_sim cv cm c : crel cv cm -> sim vr (new_backing H src cv c) (new_backing H src cm c).
Proof.
  intros (Ht & _ & Hk). destruct c; cbn [new_backing]; try reflexivity; rewrite Ht.
  - (* set *)
    destruct (cty cm); try reflexivity;
      (eapply sim_bind; [apply vr_check_index; exact Hk|]; intros k k' -> _ _;
       match goal with |- context [elem_ty ?t k'] => destruct (elem_ty t k') as [e|]; [|reflexivity] end; cbn [bind];
       destruct (coerce_arg H e a) as [x|]; [|reflexivity]; cbn [bind]; apply vr_sub_set; [exact Hk|apply vr_refl]).
  - (* append *)
    destruct (cty cm); try reflexivity.
    + destruct a as [[]| |]; try reflexivity. now apply vr_bitlist_append.
    + eapply sim_bind; [apply vr_mixin; exact Hk|]. intros ll ll' -> _ _. destruct (limit <=? ll'); [reflexivity|].
      destruct (coerce_arg H t a) as [x|]; [|reflexivity]. cbn [bind]. apply vr_list_append; [exact Hk|apply vr_refl].
  - (* pop *)
    destruct (cty cm); try reflexivity; [now apply vr_bitlist_pop|now apply vr_list_pop].
  - (* bit set *)
    destruct a as [[]| |]; try reflexivity. now apply vr_bits_set.
  - (* union change: computed from the argument alone *)
    destruct (cty cm); try reflexivity. apply sim_vr_refl.
Qed.

Lemma normalise_sim e xv xm : vr xv xm -> sim vr (normalise_child H src e xv) (normalise_child H src e xm).
Proof.
  intros Hx. destruct e; cbn [normalise_child]; try (now apply sim_ret); rewrite ?(vr_root H src xv xm Hx), ?(vr_ser H src _ xv xm Hx); apply sim_vr_refl.
Qed.

Definition get_step (s : store) (t : ty) (b : node) (v : vid) (i : Z) : result unit * store :=
  match check_index H src t b i with
  | Err e => (Err e, s)
  | Ok k =>
      match elem_ty t k, (do x <- sub_get H src t b k; do e <- elem_ty t k; normalise_child H src e x) with
      | Ok e, Ok nd =>
          let hk := match e with TUint _ | TBool | TByteVector _ | TByteList _ => HNone | _ => HElem v k end in
          (Ok tt, s ++ [{| cty := e; cback := nd; chook := hk |}])
      | Err e, _ => (Err e, s)
      | _, Err e => (Err e, s)
      end
  end.

Lemma get_step_sim sv sm t bv bm v i : srel sv sm -> vr bv bm -> rrel (get_step sv t bv v i) (get_step sm t bm v i).
Proof.
  intros Hs Hk. unfold get_step. rewrite (sim_eq_is_eq _ _ (vr_check_index H src t bv bm i Hk)).
  destruct (check_index H src t bm i) as [k|]; [|split; [reflexivity|exact Hs]].
  pose proof (vr_sub_get H src t bv bm k Hk) as Hg. unfold sim in Hg.
  destruct (elem_ty t k) as [e|] eqn:Ee.
  - destruct (sub_get H src t bm k) as [xm|eg].
    + destruct Hg as (xv & -> & Hx). cbn [bind]. pose proof (normalise_sim e xv xm Hx) as Hn. unfold sim in Hn.
      destruct (normalise_child H src e xm) as [nm|en].
      * destruct Hn as (nv & -> & Hnn). split; [reflexivity|]. apply srel_app; [exact Hs|]. repeat split. exact Hnn.
      * rewrite Hn. split; [reflexivity|exact Hs].
    + rewrite Hg. cbn [bind]. split; [reflexivity|exact Hs].
  - split; [reflexivity|exact Hs].
Qed.

(* C20 at store level: ANY command on a store of views whose backings are virtual trees gives the result it gives on
   the store of the materialised trees, and the stores stay related (same types and hooks, every backing related,
   hence with the same root and the same encoding) — so whole histories, through any of the held views, agree *)
Theorem run_cmd_sim sv sm c : srel sv sm -> rrel (run_cmd sv c) (run_cmd sm c).
Proof.
  intros Hs. pose proof (srel_length sv sm Hs) as Hlen.
  destruct (mutating c) eqn:Hm.
  - pose proof (srel_nth sv sm (target c) Hs) as Hu. destruct (nth_error sm (target c)) as [cm|] eqn:Ecm.
    + destruct Hu as (cv & Ecv & Hc). rewrite (run_cmd_mut H src sv c cv Ecv Hm), (run_cmd_mut H src sm c cm Ecm Hm).
      pose proof (new_backing_sim cv cm c Hc) as Hn. unfold sim in Hn. destruct (new_backing H src cm c) as [nb|e].
      * destruct Hn as (nv & -> & Hb). rewrite Hlen. now apply set_backing_sim.
      * rewrite Hn. split; [reflexivity|exact Hs].
    + destruct c; try discriminate; cbn [target] in *; cbn [ModelStore.run_cmd]; cbv zeta; rewrite Hu, Ecm; (split; [reflexivity|exact Hs]).
  - destruct c; try discriminate; cbn [ModelStore.run_cmd]; cbv zeta.
    + (* get *)
      pose proof (srel_nth sv sm v Hs) as Hu. destruct (nth_error sm v) as [cm|]; [|rewrite Hu; split; [reflexivity|exact Hs]].
      destruct Hu as (cv & -> & Ht & Hh & Hk). rewrite Ht.
      assert (rrel (match bits_get H src (cty cm) (cback cv) i with Ok _ => (Ok tt, sv) | Err e => (Err e, sv) end)
                   (match bits_get H src (cty cm) (cback cm) i with Ok _ => (Ok tt, sm) | Err e => (Err e, sm) end)) as Hbits.
      { rewrite (sim_eq_is_eq _ _ (vr_bits_get H src (cty cm) _ _ i Hk)). destruct (bits_get H src (cty cm) (cback cm) i); (split; [reflexivity|exact Hs]). }
      destruct (cty cm) eqn:Ect; try exact Hbits; clear Hbits; rewrite <- Ect; exact (get_step_sim sv sm (cty cm) (cback cv) (cback cm) v i Hs Hk).
    + (* value *)
      pose proof (srel_nth sv sm v Hs) as Hu. destruct (nth_error sm v) as [cm|]; [|rewrite Hu; split; [reflexivity|exact Hs]].
      destruct Hu as (cv & -> & Ht & Hh & Hk). rewrite Ht.
      pose proof (vr_union_value H src (cty cm) _ _ Hk) as Hv. unfold sim in Hv.
      destruct (union_value H src (cty cm) (cback cm)) as [[[o xm]|]|e].
      * destruct Hv as ([[o' xv]|] & -> & Hr); [|contradiction]. destruct Hr as [-> Hx].
        pose proof (normalise_sim o xv xm Hx) as Hn. unfold sim in Hn. destruct (normalise_child H src o xm) as [nm|en].
        -- destruct Hn as (nv & -> & Hnn). split; [reflexivity|]. apply srel_app; [exact Hs|]. repeat split. exact Hnn.
        -- rewrite Hn. split; [reflexivity|exact Hs].
      * destruct Hv as ([[o' xv]|] & -> & Hr); [contradiction|]. split; [reflexivity|exact Hs].
      * rewrite Hv. split; [reflexivity|exact Hs].
    + (* copy *)
      pose proof (srel_nth sv sm v Hs) as Hu. destruct (nth_error sm v) as [cm|]; [|rewrite Hu; split; [reflexivity|exact Hs]].
      destruct Hu as (cv & -> & Ht & Hh & Hk). split; [reflexivity|]. apply srel_app; [exact Hs|]. repeat split; auto.
Qed.

(* whole histories *)
Fixpoint run_all (s : store) (cs : list cmd) : list (result unit) * store :=
  match cs with
  | [] => ([], s)
  | c :: r => let '(res, s1) := run_cmd s c in let '(rs, s2) := run_all s1 r in (res :: rs, s2)
  end.

Theorem run_all_sim : forall cs sv sm, srel sv sm ->
  fst (run_all sv cs) = fst (run_all sm cs) /\ srel (snd (run_all sv cs)) (snd (run_all sm cs)).
Proof.
  induction cs as [|c cs IH]; intros sv sm Hs; cbn [run_all]; [split; [reflexivity|exact Hs]|].
  pose proof (run_cmd_sim sv sm c Hs) as [Hr Hs1]. destruct (run_cmd sv c) as [rv sv1]. destruct (run_cmd sm c) as [rm sm1]. cbn [fst snd] in *. subst rm.
  destruct (IH sv1 sm1 Hs1) as [Hf Hs2]. destruct (run_all sv1 cs) as [rsv sv2]. destruct (run_all sm1 cs) as [rsm sm2]. cbn [fst snd] in *.
  split; [now f_equal|exact Hs2].
Qed.

(* what related stores mean for the observer: every held view has the same type, root and encoding on both sides *)
Theorem srel_observed sv sm : srel sv sm -> forall u cm, nth_error sm u = Some cm ->
  exists cv, nth_error sv u = Some cv /\ cty cv = cty cm /\ root H (cback cv) = root H (cback cm) /\
             ser_impl H src (cty cv) (cback cv) = ser_impl H src (cty cm) (cback cm).
Proof.
  intros Hs u cm Hu. pose proof (srel_nth sv sm u Hs) as Hn. rewrite Hu in Hn. destruct Hn as (cv & Hcv & Ht & _ & Hk).
  exists cv. split; [exact Hcv|]. split; [exact Ht|]. split; [now apply (vr_root H src)|]. rewrite Ht. now apply vr_ser.
Qed.

(* where it starts: a view created over VirtualNode(root, source) for a source that is a root-keyed store of m *)
Theorem srel_start t m : consistent H src m ->
  srel [{| cty := t; cback := VirtN (root H m); chook := HNone |}] [{| cty := t; cback := m; chook := HNone |}].
Proof. intros Hc. constructor; [|constructor]. repeat split. now apply vr_start. Qed.
End WithHash.
