(* VirtualViews.v — C20 at view level: on a virtual tree (vrel) every model view operation computes what it computes on the materialised tree: the same failure, or related (equally rooted) results and the same data; serialisation gives the same bytes.  sim / sim_bind make the operations' bind chains compose. *)
Require Import RM.Base RM.Gindex RM.Tree RM.TreeProofs RM.Types RM.Spec RM.ModelViews RM.ModelCodec RM.ModelMut RM.VirtualProofs.
From Coq Require Import ZifyBool ZifyNat ZifyN.
Local Open Scope N_scope.
Section WithHash.
Variable H : bytes -> bytes -> bytes.
Variable src : bytes -> option (bytes * bytes).
Notation root := (root H).
Notation getter := (getter src).
Notation setter_below := (setter_below H src).
Notation setter := (setter H src).
Notation children := (children src).
Notation vrel := (vrel H src).
(* the virtual side computes what the materialised side computes: same failure, or related successes *)
Definition sim {A} (R : A -> A -> Prop) (rv rm : result A) : Prop :=
  match rm with Ok y => exists x, rv = Ok x /\ R x y | Err e => rv = Err e end.

Lemma sim_bind {A B} (R : A -> A -> Prop) (S : B -> B -> Prop) a b (f g : A -> result B) :
  sim R a b -> (forall x y, R x y -> a = Ok x -> b = Ok y -> sim S (f x) (g y)) -> sim S (bind a f) (bind b g).
Proof.
  unfold sim at 1. destruct b as [y|e]; intros Hab Hfg.
  - destruct Hab as (x & -> & Hr). cbn [bind]. now apply Hfg.
  - rewrite Hab. reflexivity.
Qed.
Lemma sim_ret {A} (R : A -> A -> Prop) x y : R x y -> sim R (Ok x) (Ok y).
Proof. intros Hr. exists x. split; [reflexivity|exact Hr]. Qed.
Lemma sim_eq_refl {A} (r : result A) : sim eq r r.
Proof. destruct r; cbn; eauto. Qed.
Lemma sim_err {A} (R : A -> A -> Prop) e : sim R (Err e) (Err e).
Proof. reflexivity. Qed.

(* v is m with some subtrees replaced by virtual nodes (vrel); none of the facts below needs m to be materialised *)
Definition vr (v m : node) : Prop := vrel v m.

Lemma vr_refl x : vr x x.
Proof. constructor. Qed.

Lemma vr_children v m : vr v m ->
  match children m with
  | Some (ml, mr) => exists vl vr', children v = Some (vl, vr') /\ vr vl ml /\ vr vr' mr
  | None => children v = None
  end.
Proof.
  intros Hv. inversion Hv as [n|m0 Hc|l r l' r' Hl Hr]; subst.
  - destruct (children m) as [[ml mr]|]; [|reflexivity]. exists ml, mr. repeat split; constructor.
  - destruct m as [r0|ml mr|r0]; cbn in Hc; try contradiction.
    + cbn [Tree.children Tree.root]. now rewrite Hc.
    + destruct Hc as (Hs & Hcl & Hcr). cbn [Tree.children Tree.root] in *. rewrite Hs.
      exists (VirtN (root ml)), (VirtN (root mr)). repeat split; now constructor.
  - cbn [Tree.children]. exists l, r. repeat split; assumption.
Qed.

Lemma vr_get : forall p v m, vr v m -> sim vr (getter v p) (getter m p).
Proof.
  induction p as [|b p IH]; intros v m Hv; [now apply sim_ret|].
  cbn [Tree.getter]. pose proof (vr_children v m Hv) as Hc. destruct (children m) as [[ml mr]|].
  - destruct Hc as (vl & vr' & -> & Hl & Hr). destruct b; now apply IH.
  - rewrite Hc. reflexivity.
Qed.

(* writes of related nodes at the same position: same failure, or related results *)
Lemma vr_set_below e : forall p v m xv xm, vr v m -> vr xv xm -> sim vr (setter_below e v p xv) (setter_below e m p xm).
Proof.
  induction p as [|b p IH]; intros v m xv xm Hv Hx; [now apply sim_ret|].
  cbn [Tree.setter_below]. pose proof (vr_children v m Hv) as Hc. destruct (children m) as [[ml mr]|].
  - destruct Hc as (vl & vr' & -> & Hl & Hr). destruct b.
    + pose proof (IH vr' mr xv xm Hr Hx) as Hi. unfold sim in Hi |- *. destruct (setter_below e mr p xm) as [c|er].
      * destruct Hi as (c' & -> & Hrc). cbn [rebuild]. eexists; split; [reflexivity|]. now constructor.
      * rewrite Hi. reflexivity.
    + pose proof (IH vl ml xv xm Hl Hx) as Hi. unfold sim in Hi |- *. destruct (setter_below e ml p xm) as [c|er].
      * destruct Hi as (c' & -> & Hrc). cbn [rebuild]. eexists; split; [reflexivity|]. now constructor.
      * rewrite Hi. reflexivity.
  - rewrite Hc. rewrite (vrel_root H src v m Hv).
    destruct (e && bytes_eqb (root m) (zero_hash H (length (b :: p)))); [|reflexivity].
    pose proof (IH (zero_node H (length p)) (zero_node H (length p)) xv xm (vr_refl _) Hx) as Hi. unfold sim in Hi |- *.
    destruct (setter_below e (zero_node H (length p)) p xm) as [c|er].
    + destruct Hi as (c' & -> & Hrc). cbn [rebuild]. eexists; split; [reflexivity|]. destruct b; constructor; auto; constructor.
    + rewrite Hi. reflexivity.
Qed.

(* ... through the public setter: identical, except that an EXPANDING write through a childless virtual node at the
   very top fails where a zero leaf would expand — so expanding writes need the top node to have children *)
Lemma vr_set e p v m xv xm : vr v m -> vr xv xm -> (e = true -> children m <> None) ->
  sim vr (setter e v p xv) (setter e m p xm).
Proof.
  intros Hv Hx Hch. pose proof (vr_children v m Hv) as Hc.
  assert (setter e m p xm = setter_below e m p xm /\ setter e v p xv = setter_below e v p xv) as [-> ->]; [|now apply vr_set_below].
  rewrite !setter_unfold. destruct p as [|b p]; [split; reflexivity|].
  destruct (children m) as [[ml mr]|] eqn:Em.
  - destruct Hc as (vl & vr' & Ec & _). split.
    + destruct m; try reflexivity; cbn [Tree.setter_below]; rewrite ?Em; reflexivity.
    + destruct v; try reflexivity; cbn [Tree.setter_below]; rewrite ?Ec; reflexivity.
  - destruct e; [exfalso; now apply Hch|]. split.
    + destruct m; try reflexivity; cbn [Tree.setter_below]; rewrite ?Em; reflexivity.
    + destruct v; try reflexivity; cbn [Tree.setter_below]; rewrite ?Hc; reflexivity.
Qed.

Notation getter_i := (getter_i src).
Notation getter_g := (getter_g src).
Notation setter_i := (setter_i H src).
Notation setter_g := (setter_g H src).
Notation mixin_value := (mixin_value H src).

Lemma vr_root v m : vr v m -> root v = root m.
Proof. exact (vrel_root H src v m). Qed.

Lemma vr_getter_g v m g : vr v m -> sim vr (getter_g v g) (getter_g m g).
Proof. intros Hv. unfold Tree.getter_g. destruct (path_of_gindex g); [now apply vr_get|reflexivity]. Qed.
Lemma vr_getter_i v m i d : vr v m -> sim vr (getter_i v i d) (getter_i m i d).
Proof. intros Hv. unfold ModelCodec.getter_i. destruct (to_gindex i d); cbn [bind]; [now apply vr_getter_g|reflexivity]. Qed.
Lemma vr_setter_g e v m g xv xm : vr v m -> vr xv xm -> (e = true -> children m <> None) -> sim vr (setter_g e v g xv) (setter_g e m g xm).
Proof. intros Hv Hx Hc. unfold Tree.setter_g. destruct (path_of_gindex g); [now apply vr_set|reflexivity]. Qed.
Lemma vr_setter_i e v m i d xv xm : vr v m -> vr xv xm -> (e = true -> children m <> None) -> sim vr (setter_i e v i d xv) (setter_i e m i d xm).
Proof. intros Hv Hx Hc. unfold ModelMut.setter_i. destruct (to_gindex i d); cbn [bind]; [now apply vr_setter_g|reflexivity]. Qed.

Lemma vr_get_right v m : vr v m -> sim vr (get_right src v) (get_right src m).
Proof.
  intros Hv. unfold get_right. pose proof (vr_children v m Hv) as Hc. destruct (children m) as [[ml mr]|].
  - destruct Hc as (vl & vr' & -> & _ & Hr). now apply sim_ret.
  - rewrite Hc. reflexivity.
Qed.
Lemma vr_get_left v m : vr v m -> sim vr (get_left src v) (get_left src m).
Proof.
  intros Hv. unfold get_left. pose proof (vr_children v m Hv) as Hc. destruct (children m) as [[ml mr]|].
  - destruct Hc as (vl & vr' & -> & Hl & _). now apply sim_ret.
  - rewrite Hc. reflexivity.
Qed.
Lemma vr_rebind_right v m xv xm : vr v m -> vr xv xm -> sim vr (rebind_right src v xv) (rebind_right src m xm).
Proof.
  intros Hv Hx. unfold rebind_right. pose proof (vr_children v m Hv) as Hc. destruct (children m) as [[ml mr]|].
  - destruct Hc as (vl & vr' & -> & Hl & _). apply sim_ret. now constructor.
  - rewrite Hc. reflexivity.
Qed.
Lemma vr_mixin v m : vr v m -> sim eq (mixin_value v) (mixin_value m).
Proof.
  intros Hv. unfold ModelCodec.mixin_value. apply (sim_bind vr eq _ _ _ _ (vr_get_right v m Hv)).
  intros x y Hxy _ _. rewrite (vr_root x y Hxy). apply sim_eq_refl.
Qed.
Lemma mixin_children m k : mixin_value m = Ok k -> children m <> None.
Proof. unfold ModelCodec.mixin_value, get_right. destruct (children m) as [[l r]|]; [discriminate|discriminate]. Qed.

Lemma vr_summarize_g v m g : vr v m -> sim vr (summarize_into_g H src v g) (summarize_into_g H src m g).
Proof.
  intros Hv. unfold summarize_into_g, summarize_into. destruct (path_of_gindex g) as [p|]; [|reflexivity].
  apply (sim_bind vr vr _ _ _ _ (vr_get p v m Hv)). intros x y Hxy _ _. rewrite (vr_root x y Hxy).
  apply vr_set; [exact Hv|apply vr_refl|discriminate].
Qed.

(* ---- view operations: the virtual tree computes what the materialised tree computes ---- *)
Lemma vr_view_len t v m : vr v m -> sim eq (view_len H src t v) (view_len H src t m).
Proof. intros Hv. destruct t; cbn [ModelCodec.view_len]; try apply sim_eq_refl; now apply vr_mixin. Qed.

Lemma vr_check_index t v m i : vr v m -> sim eq (check_index H src t v i) (check_index H src t m i).
Proof.
  intros Hv. unfold ModelMut.check_index. destruct t; try apply sim_eq_refl;
    (apply (sim_bind eq eq _ _ _ _ (vr_view_len _ v m Hv)); intros x y -> _ _; apply sim_eq_refl).
Qed.

Lemma vr_sub_get t v m i : vr v m -> sim vr (sub_get H src t v i) (sub_get H src t m i).
Proof.
  intros Hv. unfold ModelMut.sub_get. destruct (elem_ty t i) as [e|]; [|reflexivity]. cbn [bind].
  destruct (match t with TContainer _ => None | _ => basic_size e end) as [sz|]; [|now apply vr_getter_i].
  apply (sim_bind vr vr _ _ _ _ (vr_getter_i v m _ _ Hv)). intros c c' Hc _ _.
  unfold packed_elem_bytes. rewrite (vr_root c c' Hc).
  match goal with |- sim _ (bind ?A _) _ => destruct A as [b|]; cbn [bind]; [apply sim_ret; apply vr_refl|reflexivity] end.
Qed.

Lemma vr_sub_set t v m i xv xm : vr v m -> vr xv xm -> sim vr (sub_set H src t v i xv) (sub_set H src t m i xm).
Proof.
  intros Hv Hx. unfold ModelMut.sub_set. rewrite (vr_root xv xm Hx). destruct (elem_ty t i) as [e|]; [|reflexivity]. cbn [bind].
  destruct (match t with TContainer _ => None | _ => basic_size e end) as [sz|]; [|apply vr_setter_i; [exact Hv|exact Hx|discriminate]].
  apply (sim_bind vr vr _ _ _ _ (vr_setter_i false v m _ _ (RootN zero32) (RootN zero32) Hv (vr_refl _) ltac:(discriminate))). intros _ _ _ _ _.
  apply (sim_bind vr vr _ _ _ _ (vr_getter_i v m _ _ Hv)). intros c c' Hc _ _. rewrite (vr_root c c' Hc).
  apply vr_setter_i; [exact Hv|apply vr_refl|discriminate].
Qed.

Theorem vr_view_get t v m i : vr v m -> sim vr (view_get H src t v i) (view_get H src t m i).
Proof.
  intros Hv. unfold ModelMut.view_get. apply (sim_bind eq vr _ _ _ _ (vr_check_index t v m i Hv)). intros k k' -> _ _. now apply vr_sub_get.
Qed.
Theorem vr_view_set t v m i xv xm : vr v m -> vr xv xm -> sim vr (view_set H src t v i xv) (view_set H src t m i xm).
Proof.
  intros Hv Hx. unfold ModelMut.view_set. apply (sim_bind eq vr _ _ _ _ (vr_check_index t v m i Hv)). intros k k' -> _ _. now apply vr_sub_set.
Qed.

Theorem vr_list_append t v m xv xm : vr v m -> vr xv xm -> sim vr (list_append H src t v xv) (list_append H src t m xm).
Proof.
  intros Hv Hx. unfold ModelMut.list_append. rewrite (vr_root xv xm Hx). destruct t; try reflexivity.
  apply (sim_bind eq vr _ _ _ _ (vr_mixin v m Hv)). intros ll ll' -> _ Hmm. pose proof (mixin_children m ll' Hmm) as Hch.
  destruct (limit <=? ll'); [reflexivity|]. cbv zeta.
  match goal with |- sim _ (bind ?A _) (bind ?B _) => assert (sim vr A B) as Hab end.
  { destruct (basic_size t) as [s0|]; [|apply vr_setter_i; auto].
    destruct (ll' mod elems_per_chunk s0 =? 0); [apply vr_setter_i; [exact Hv|apply vr_refl|auto]|].
    apply (sim_bind vr vr _ _ _ _ (vr_setter_i false v m _ _ (RootN zero32) (RootN zero32) Hv (vr_refl _) ltac:(discriminate))). intros _ _ _ _ _.
    apply (sim_bind vr vr _ _ _ _ (vr_getter_i v m _ _ Hv)). intros c c' Hc _ _. rewrite (vr_root c c' Hc).
    apply vr_setter_i; [exact Hv|apply vr_refl|discriminate]. }
  apply (sim_bind vr vr _ _ _ _ Hab). intros nb mb Hb _ _. apply vr_rebind_right; [exact Hb|apply vr_refl].
Qed.

Lemma vr_summarize_up v m g : vr v m -> sim vr (summarize_up H src v g) (summarize_up H src m g).
Proof. unfold ModelMut.summarize_up. apply vr_summarize_g. Qed.

Theorem vr_list_pop t v m : vr v m -> sim vr (list_pop H src t v) (list_pop H src t m).
Proof.
  intros Hv. unfold ModelMut.list_pop. destruct t; try reflexivity.
  apply (sim_bind eq vr _ _ _ _ (vr_mixin v m Hv)). intros ll ll' -> _ _.
  destruct (ll' =? 0); [reflexivity|]. cbv zeta.
  match goal with |- sim _ (bind ?A _) (bind ?B _) =>
    assert (sim (fun a b => vr (fst (fst a)) (fst (fst b)) /\ snd (fst a) = snd (fst b) /\ snd a = snd b) A B) as Hab end.
  { destruct (basic_size t) as [s0|].
    - destruct (to_gindex ((ll' - 1) / elems_per_chunk s0) (tree_depth (TList t limit))) as [g|]; [|reflexivity]. cbn [bind].
      destruct ((ll' - 1) mod elems_per_chunk s0 =? 0) eqn:E0; cbn [bind].
      + eapply sim_bind; [apply vr_setter_g; [exact Hv|apply vr_refl|discriminate]|]. intros nb mb Hb _ _. apply sim_ret. cbn. auto.
      + apply (sim_bind vr _ _ _ _ _ (vr_getter_g v m g Hv)). intros c c' Hc _ _. rewrite (vr_root c c' Hc).
        eapply sim_bind; [apply vr_setter_g; [exact Hv|apply vr_refl|discriminate]|]. intros nb mb Hb _ _. apply sim_ret. cbn. auto.
    - destruct (to_gindex (ll' - 1) (tree_depth (TList t limit))) as [g|]; [|reflexivity]. cbn [bind].
      eapply sim_bind; [apply vr_setter_g; [exact Hv|apply vr_refl|discriminate]|]. intros nb mb Hb _ _. apply sim_ret. cbn. auto. }
  apply (sim_bind _ vr _ _ _ _ Hab). intros [[nb g] can] [[mb g'] can'] (Hb & Eg & Ec) _ _. cbn [fst snd] in *. subst g' can'.
  match goal with |- sim _ (bind ?A _) (bind ?B _) => assert (sim vr A B) as Hab2 by (destruct can; [now apply vr_summarize_up|now apply sim_ret]) end.
  apply (sim_bind vr vr _ _ _ _ Hab2). intros nb2 mb2 Hb2 _ _. apply vr_rebind_right; [exact Hb2|apply vr_refl].
Qed.

Lemma vr_bits_len t v m : vr v m -> sim eq (bits_len H src t v) (bits_len H src t m).
Proof. intros Hv. destruct t; cbn [ModelMut.bits_len]; try apply sim_eq_refl. now apply vr_mixin. Qed.

Theorem vr_bits_get t v m i : vr v m -> sim eq (bits_get H src t v i) (bits_get H src t m i).
Proof.
  intros Hv. unfold ModelMut.bits_get. apply (sim_bind eq eq _ _ _ _ (vr_bits_len t v m Hv)). intros ll ll' -> _ _.
  destruct ((i <? 0)%Z || (Z.of_N ll' <=? i)%Z); [reflexivity|]. cbv zeta.
  pose proof (vr_getter_i v m (Z.to_N i / 256) (tree_depth t) Hv) as Hg. unfold sim in Hg.
  destruct (getter_i m (Z.to_N i / 256) (tree_depth t)) as [c'|e].
  - destruct Hg as (c & -> & Hc). rewrite (vr_root c c' Hc). apply sim_eq_refl.
  - rewrite Hg. apply sim_eq_refl.
Qed.

Theorem vr_bits_set t v m i b : vr v m -> sim vr (bits_set H src t v i b) (bits_set H src t m i b).
Proof.
  intros Hv. unfold ModelMut.bits_set. apply (sim_bind eq vr _ _ _ _ (vr_bits_len t v m Hv)). intros ll ll' -> _ _.
  destruct ((i <? 0)%Z || (Z.of_N ll' <=? i)%Z); [reflexivity|]. cbv zeta.
  match goal with |- sim _ (match ?A with _ => _ end) (match ?B with _ => _ end) => assert (sim vr A B) as Hab end.
  { apply (sim_bind vr vr _ _ _ _ (vr_setter_i false v m _ _ (RootN zero32) (RootN zero32) Hv (vr_refl _) ltac:(discriminate))). intros _ _ _ _ _.
    apply (sim_bind vr vr _ _ _ _ (vr_getter_i v m _ _ Hv)). intros c c' Hc _ _. rewrite (vr_root c c' Hc).
    apply vr_setter_i; [exact Hv|apply vr_refl|discriminate]. }
  unfold sim in Hab. match type of Hab with match ?B with _ => _ end => destruct B as [y|e] end.
  - destruct Hab as (x & -> & Hxy). now apply sim_ret.
  - rewrite Hab. reflexivity.
Qed.

Theorem vr_bitlist_append t v m b : vr v m -> sim vr (bitlist_append H src t v b) (bitlist_append H src t m b).
Proof.
  intros Hv. unfold ModelMut.bitlist_append. destruct t; try reflexivity.
  apply (sim_bind eq vr _ _ _ _ (vr_mixin v m Hv)). intros ll ll' -> _ Hmm. pose proof (mixin_children m ll' Hmm) as Hch.
  destruct (limit <=? ll'); [reflexivity|]. cbv zeta.
  match goal with |- sim _ (bind ?A _) (bind ?B _) => assert (sim vr A B) as Hab end.
  { destruct (ll' mod 256 =? 0); [apply vr_setter_i; [exact Hv|apply vr_refl|auto]|].
    apply (sim_bind vr vr _ _ _ _ (vr_setter_i false v m _ _ (RootN zero32) (RootN zero32) Hv (vr_refl _) ltac:(discriminate))). intros _ _ _ _ _.
    apply (sim_bind vr vr _ _ _ _ (vr_getter_i v m _ _ Hv)). intros c c' Hc _ _. rewrite (vr_root c c' Hc).
    apply vr_setter_i; [exact Hv|apply vr_refl|discriminate]. }
  apply (sim_bind vr vr _ _ _ _ Hab). intros nb mb Hb _ _. apply vr_rebind_right; [exact Hb|apply vr_refl].
Qed.

Theorem vr_bitlist_pop t v m : vr v m -> sim vr (bitlist_pop H src t v) (bitlist_pop H src t m).
Proof.
  intros Hv. unfold ModelMut.bitlist_pop. destruct t; try reflexivity.
  apply (sim_bind eq vr _ _ _ _ (vr_mixin v m Hv)). intros ll ll' -> _ _.
  destruct (ll' =? 0); [reflexivity|]. cbv zeta.
  destruct (to_gindex ((ll' - 1) / 256) (tree_depth (TBitlist limit))) as [g|]; [|reflexivity]. cbn [bind].
  match goal with |- sim _ (bind ?A _) (bind ?B _) => assert (sim vr A B) as Hab end.
  { destruct ((ll' - 1) mod 256 =? 0); [apply vr_setter_g; [exact Hv|apply vr_refl|discriminate]|].
    apply (sim_bind vr vr _ _ _ _ (vr_setter_g false v m g (RootN zero32) (RootN zero32) Hv (vr_refl _) ltac:(discriminate))). intros _ _ _ _ _.
    apply (sim_bind vr vr _ _ _ _ (vr_getter_g v m g Hv)). intros c c' Hc _ _. rewrite (vr_root c c' Hc).
    apply vr_setter_g; [exact Hv|apply vr_refl|discriminate]. }
  apply (sim_bind vr vr _ _ _ _ Hab). intros nb mb Hb _ _.
  match goal with |- sim _ (bind ?A _) (bind ?B _) => assert (sim vr A B) as Hab2 by (destruct (N.even g && _); [now apply vr_summarize_up|now apply sim_ret]) end.
  apply (sim_bind vr vr _ _ _ _ Hab2). intros nb2 mb2 Hb2 _ _. apply vr_rebind_right; [exact Hb2|apply vr_refl].
Qed.

Theorem vr_union_selector t v m : vr v m -> sim eq (union_selector H src t v) (union_selector H src t m).
Proof.
  intros Hv. unfold ModelMut.union_selector. destruct t; try reflexivity.
  apply (sim_bind eq eq _ _ _ _ (vr_mixin v m Hv)). intros sel sel' -> _ _. apply sim_eq_refl.
Qed.

Theorem vr_union_value t v m : vr v m ->
  sim (fun a b => match a, b with None, None => True | Some (o, x), Some (o', y) => o = o' /\ vr x y | _, _ => False end)
      (union_value H src t v) (union_value H src t m).
Proof.
  intros Hv. unfold ModelMut.union_value. destruct t; try reflexivity.
  apply (sim_bind vr _ _ _ _ _ (vr_get_left v m Hv)). intros vn vm Hn _ _.
  apply (sim_bind eq _ _ _ _ _ (vr_union_selector (TUnion none0 opts) v m Hv)). intros sel sel' -> _ _.
  destruct (union_opt none0 opts (N.to_nat sel')) as [o|].
  - apply sim_ret. split; [reflexivity|exact Hn].
  - rewrite (vr_root vn vm Hn). destruct (bytes_eqb (root vm) zero32); [now apply sim_ret|reflexivity].
Qed.


(* ---- serialisation: the encoding of a view over a virtual tree is the encoding over the materialised tree ---- *)
Lemma sim_eq_is_eq {A} (a b : result A) : sim eq a b -> a = b.
Proof. unfold sim. destruct b as [y|e]; [intros (x & -> & ->); reflexivity|auto]. Qed.

Lemma bind_vr {A} (a b : result node) (f g : node -> result A) : sim vr a b -> (forall c c', vr c c' -> f c = g c') -> bind a f = bind b g.
Proof.
  unfold sim. destruct b as [y|e]; [intros (x & -> & Hxy) Hfg; cbn [bind]; now apply Hfg|intros -> _; reflexivity].
Qed.

Lemma vr_read_chunks v m d count : vr v m -> read_chunks H src v d count = read_chunks H src m d count.
Proof.
  intros Hv. unfold read_chunks. f_equal. f_equal. apply map_ext. intros i.
  apply (bind_vr _ _ _ _ (vr_getter_i v m i d Hv)). intros c c' Hc. now rewrite (vr_root c c' Hc).
Qed.

Lemma vr_bits_serialize b v m td bl : vr v m -> bits_serialize H src b v td bl = bits_serialize H src b m td bl.
Proof.
  intros Hv. unfold bits_serialize. cbv zeta. rewrite (vr_read_chunks v m td _ Hv).
  destruct (read_chunks H src m td ((bl + 255) / 256 - 1)) as [fb|]; [|reflexivity]. cbn [bind].
  destruct (0 <? (bl + 255) / 256); [|reflexivity].
  apply (bind_vr _ _ _ _ (vr_getter_i v m _ td Hv)). intros c c' Hc. now rewrite (vr_root c c' Hc).
Qed.

Theorem vr_ser : forall t v m, vr v m -> ser_impl H src t v = ser_impl H src t m.
Proof.
  induction t as [k| |bn|bl|yn|yl|e n IHe|e l IHe|fs Hfs|b os Hos] using ty_ind'; intros v m Hv; cbn [ModelCodec.ser_impl].
  - now rewrite (vr_root v m Hv).
  - now rewrite (vr_root v m Hv).
  - now rewrite (vr_bits_serialize false v m _ _ Hv).
  - rewrite (sim_eq_is_eq _ _ (vr_mixin v m Hv)). destruct (mixin_value m) as [ll|]; [|reflexivity]. cbn [bind].
    now rewrite (vr_bits_serialize true v m _ _ Hv).
  - cbv zeta. rewrite (vr_root v m Hv), (vr_read_chunks v m _ _ Hv). reflexivity.
  - cbv zeta. apply (bind_vr _ _ _ _ (vr_get_left v m Hv)). intros c c' Hc.
    rewrite (sim_eq_is_eq _ _ (vr_mixin v m Hv)). destruct (mixin_value m) as [ll|]; [|reflexivity]. cbn [bind].
    destruct (yl <? ll); [reflexivity|]. now rewrite (vr_root c c' Hc), (vr_read_chunks c c' _ _ Hc).
  - (* vector *) cbn [view_len bind]. cbv zeta. destruct (basic_size e) as [s|].
    + f_equal. f_equal. apply map_ext. intros i. apply (bind_vr _ _ _ _ (vr_getter_i v m _ _ Hv)). intros c c' Hc.
      unfold packed_elem_bytes. now rewrite (vr_root c c' Hc).
    + assert (map (fun i => do c <- getter_i v i (tree_depth (TVector e n)); ser_impl H src e c) (iotaN (N.to_nat n)) =
              map (fun i => do c <- getter_i m i (tree_depth (TVector e n)); ser_impl H src e c) (iotaN (N.to_nat n))) as ->; [|reflexivity].
      apply map_ext. intros i. apply (bind_vr _ _ _ _ (vr_getter_i v m _ _ Hv)). intros c c' Hc. now apply IHe.
  - (* list *) cbn [view_len]. rewrite (sim_eq_is_eq _ _ (vr_mixin v m Hv)). destruct (mixin_value m) as [ll|]; [|reflexivity]. cbn [bind]. cbv zeta.
    destruct (basic_size e) as [s|].
    + f_equal. f_equal. apply map_ext. intros i. apply (bind_vr _ _ _ _ (vr_getter_i v m _ _ Hv)). intros c c' Hc.
      unfold packed_elem_bytes. now rewrite (vr_root c c' Hc).
    + assert (map (fun i => do c <- getter_i v i (tree_depth (TList e l)); ser_impl H src e c) (iotaN (N.to_nat ll)) =
              map (fun i => do c <- getter_i m i (tree_depth (TList e l)); ser_impl H src e c) (iotaN (N.to_nat ll))) as ->; [|reflexivity].
      apply map_ext. intros i. apply (bind_vr _ _ _ _ (vr_getter_i v m _ _ Hv)). intros c c' Hc. now apply IHe.
  - (* container *) cbv zeta. f_equal.
    generalize (tree_depth (TContainer fs)) as td. intros td.
    generalize (@nil byte, @nil byte, fold_left (fun acc f => acc + (if is_fixed_impl f then min_impl f else OFFSET)) fs 0) as acc0.
    generalize 0 as i0. intros i0 acc0. revert acc0 i0.
    induction Hfs as [|f fs' Hf Hfs' IH]; intros acc0 i0; [reflexivity|].
    destruct acc0 as [[fx vr0] written].
    apply (bind_vr _ _ _ _ (vr_getter_i v m i0 td Hv)). intros c c' Hc. rewrite (Hf c c' Hc).
    destruct (ser_impl H src f c') as [x|]; [|reflexivity]. cbn [bind]. destruct (is_fixed_impl f); apply IH.
  - (* union *)
    rewrite (sim_eq_is_eq _ _ (vr_mixin v m Hv)). destruct (mixin_value m) as [sel|]; [|reflexivity]. cbn [bind].
    destruct (lenN os + (if b then 1 else 0) <=? sel); [reflexivity|].
    apply (bind_vr _ _ _ _ (vr_get_left v m Hv)). intros c c' Hc. rewrite (vr_root c c' Hc).
    destruct (b && (sel =? 0)); [reflexivity|]. f_equal.
    generalize (N.to_nat (if b then sel - 1 else sel)) as j. induction Hos as [|o os' Ho Hos' IH]; intros j; [destruct j; reflexivity|].
    destruct j as [|j]; [now apply Ho|apply IH].
Qed.

(* where it starts: a virtual node over a source that is a root-keyed store of the materialised tree *)
Theorem vr_start m : consistent H src m -> vr (VirtN (root m)) m.
Proof. intros Hc. now constructor. Qed.
Theorem vr_same_root v m : vr v m -> root v = root m.
Proof. exact (vr_root v m). Qed.
End WithHash.
