(* HeapProofs.v — the node heap is persistent (C06) and updates share every untouched subtree and
   re-hash only what has no cached root (C19). *)
Require Import RM.Base RM.Gindex RM.Tree RM.TreeHeap.
From Coq Require Import ZifyNat ZifyN.

(* children have smaller addresses than their parent *)
Definition wfh (h : heap) : Prop :=
  forall a l r c, h_get h a = Some (HPair l r c) -> l < a /\ r < a.

(* h' extends h: same objects (caches included) at every old address *)
Definition extends (h h' : heap) : Prop := exists ext, objs h' = objs h ++ ext.

Lemma extends_refl h : extends h h.
Proof. exists []. now rewrite app_nil_r. Qed.
Lemma extends_trans a b c : extends a b -> extends b c -> extends a c.
Proof. intros (e1 & E1) (e2 & E2). exists (e1 ++ e2). now rewrite E2, E1, app_assoc. Qed.
Lemma extends_get h h' a o : extends h h' -> h_get h a = Some o -> h_get h' a = Some o.
Proof.
  intros (e & E) Hg. unfold h_get in *. rewrite E. rewrite nth_error_app1; [exact Hg|].
  apply nth_error_Some. congruence.
Qed.
Lemma extends_len h h' : extends h h' -> length (objs h) <= length (objs h').
Proof. intros (e & E). rewrite E, app_length. lia. Qed.

Lemma alloc_extends h o : extends h (snd (h_alloc h o)).
Proof. exists [o]. reflexivity. Qed.
Lemma alloc_addr h o : fst (h_alloc h o) = length (objs h).
Proof. reflexivity. Qed.
Lemma alloc_get h o : h_get (snd (h_alloc h o)) (length (objs h)) = Some o.
Proof. unfold h_get. cbn. rewrite nth_error_app2 by lia. now rewrite Nat.sub_diag. Qed.
Lemma alloc_hashes h o : hashes (snd (h_alloc h o)) = hashes h.
Proof. reflexivity. Qed.

Lemma get_lt h a o : h_get h a = Some o -> a < length (objs h).
Proof. intros Hg. apply nth_error_Some. unfold h_get in Hg. congruence. Qed.

Lemma alloc_wfh h o : wfh h ->
  (forall l r c, o = HPair l r c -> l < length (objs h) /\ r < length (objs h)) ->
  wfh (snd (h_alloc h o)).
Proof.
  intros Hw Ho a l r c Hg. unfold h_get in Hg. cbn in Hg.
  destruct (Nat.lt_ge_cases a (length (objs h))) as [Hlt|Hge].
  - rewrite nth_error_app1 in Hg by exact Hlt. now apply (Hw a l r c).
  - rewrite nth_error_app2 in Hg by exact Hge.
    destruct (a - length (objs h)) as [|k] eqn:Ek; cbn in Hg; [|destruct k; discriminate].
    inversion Hg; subst. destruct (Ho l r c eq_refl). lia.
Qed.

(* ---- persistence: what an address denotes never changes (C06) ---- *)
Lemma den_extends : forall f h h' a, wfh h -> extends h h' -> a < length (objs h) ->
  den f h' a = den f h a.
Proof.
  induction f as [|f IH]; intros h h' a Hw He Ha; [reflexivity|].
  cbn [den]. destruct (h_get h a) as [o|] eqn:Hg.
  - rewrite (extends_get h h' a o He Hg). destruct o as [r|l r c]; [reflexivity|].
    destruct (Hw a l r c Hg) as [Hl Hr].
    rewrite (IH h h' l Hw He) by lia. rewrite (IH h h' r Hw He) by lia. reflexivity.
  - apply nth_error_None in Hg. lia.
Qed.

Theorem heap_frame h h' a : wfh h -> extends h h' -> a < length (objs h) ->
  den_of h' a = den_of h a /\ h_get h' a = h_get h a.
Proof.
  intros Hw He Ha. split; [apply den_extends; assumption|].
  destruct (h_get h a) as [o|] eqn:Hg; [now apply (extends_get h h')|].
  apply nth_error_None in Hg. lia.
Qed.

Lemma h_expand_spec H k h z h0' : wfh h -> h_expand H k h = (z, h0') ->
  wfh h0' /\ extends h h0' /\ z < length (objs h0') /\ hashes h0' = hashes h.
Proof.
  intros Hw Ex. unfold h_expand, h_zero_node, h_alloc in Ex. cbn in Ex. inversion Ex; subst. clear Ex.
  split; [|split; [|split]].
  - intros ad ll rr cc Hg0. unfold h_get in Hg0. cbn [objs] in Hg0.
    destruct (Nat.lt_ge_cases ad (length (objs h))) as [Hlt|Hge].
    + rewrite <- app_assoc in Hg0. rewrite nth_error_app1 in Hg0 by exact Hlt. now apply (Hw ad ll rr cc).
    + rewrite <- app_assoc in Hg0. rewrite nth_error_app2 in Hg0 by exact Hge.
      destruct (ad - length (objs h)) as [|[|k0]] eqn:Ek; cbn in Hg0; try discriminate.
      * inversion Hg0; subst. lia.
      * destruct k0; discriminate.
  - eexists. cbn [objs]. rewrite <- app_assoc. reflexivity.
  - cbn [objs]. rewrite !app_length. cbn. lia.
  - reflexivity.
Qed.

(* ---- setter: allocates only, hashes nothing, keeps every off-path child address (C19) ---- *)
Theorem h_setter_extends H e : forall p h a v a' h', wfh h -> v < length (objs h) ->
  h_setter H e h a p v = Ok (a', h') ->
  extends h h' /\ hashes h' = hashes h /\ wfh h' /\ a' < length (objs h').
Proof.
  induction p as [|b p IH]; intros h a v a' h' Hw Hv Hs.
  - cbn in Hs. inversion Hs; subst. split; [apply extends_refl|split; [reflexivity|split; [exact Hw|exact Hv]]].
  - cbn [h_setter] in Hs. destruct (h_get h a) as [[rt|l r c]|] eqn:Hg; [| |discriminate].
    + destruct (e && bytes_eqb rt (zero_hash H (length (b :: p)))); [|discriminate].
      destruct (h_expand H (length p) h) as [z h0'] eqn:Ex.
      destruct (h_expand_spec H (length p) h z h0' Hw Ex) as (Hw0 & He0 & Hz0 & Hh0).
      assert (v < length (objs h0')) as Hv0 by (pose proof (extends_len _ _ He0); lia).
      destruct (h_setter H e h0' z p v) as [[c h1]|] eqn:Hrec; [|discriminate]. cbn [bind] in Hs.
      destruct (IH h0' z v c h1 Hw0 Hv0 Hrec) as (He1 & Hh1 & Hw1 & Hc1).
      inversion Hs; subst a' h'. clear Hs.
      set (o := if b then HPair z c None else HPair c z None).
      change (extends h (snd (h_alloc h1 o)) /\ hashes (snd (h_alloc h1 o)) = hashes h /\
              wfh (snd (h_alloc h1 o)) /\ fst (h_alloc h1 o) < length (objs (snd (h_alloc h1 o)))).
      split; [|split; [|split]].
      * eapply extends_trans; [exact He0|]. eapply extends_trans; [exact He1|apply alloc_extends].
      * rewrite alloc_hashes. congruence.
      * apply alloc_wfh; [exact Hw1|]. intros l0 r0 c0 E. pose proof (extends_len _ _ He1).
        unfold o in E. destruct b; inversion E; subst; lia.
      * cbn. rewrite app_length. cbn. lia.
    + destruct (Hw a l r c Hg) as [Hl Hr]. pose proof (get_lt h a _ Hg) as Ha.
      destruct (h_setter H e h (if b then r else l) p v) as [[ch h1]|] eqn:Hrec; [|discriminate]. cbn [bind] in Hs.
      destruct (IH h (if b then r else l) v ch h1 Hw Hv Hrec) as (He1 & Hh1 & Hw1 & Hc1).
      inversion Hs; subst a' h'. clear Hs.
      set (o := if b then HPair l ch None else HPair ch r None).
      change (extends h (snd (h_alloc h1 o)) /\ hashes (snd (h_alloc h1 o)) = hashes h /\
              wfh (snd (h_alloc h1 o)) /\ fst (h_alloc h1 o) < length (objs (snd (h_alloc h1 o)))).
      split; [|split; [|split]].
      * eapply extends_trans; [exact He1|apply alloc_extends].
      * rewrite alloc_hashes. exact Hh1.
      * apply alloc_wfh; [exact Hw1|]. intros l0 r0 c0 E. pose proof (extends_len _ _ He1).
        unfold o in E. destruct b; inversion E; subst; lia.
      * cbn. rewrite app_length. cbn. lia.
Qed.

(* the new node on the path is a fresh pair whose off-path child is the very same address as in
   the old tree *)
Theorem h_setter_shares H e b p h a v a' h' l r c :
  h_get h a = Some (HPair l r c) -> h_setter H e h a (b :: p) v = Ok (a', h') ->
  exists x, h_get h' a' = Some (HPair (if b then l else x) (if b then x else r) None).
Proof.
  intros Hg Hs. cbn [h_setter] in Hs. rewrite Hg in Hs.
  destruct (h_setter H e h (if b then r else l) p v) as [[ch h1]|]; [|discriminate]. cbn [bind] in Hs.
  inversion Hs; subst. exists ch. destruct b; [exact (alloc_get h1 (HPair l ch None))|exact (alloc_get h1 (HPair ch r None))].
Qed.

(* ---- merkle_root only fills caches ---- *)
Definition skel (o : option hobj) : option (bytes + addr * addr) :=
  match o with
  | Some (HRoot r) => Some (inl r)
  | Some (HPair l r _) => Some (inr (l, r))
  | None => None
  end.
Definition same_skel (h h' : heap) : Prop := forall a, skel (h_get h' a) = skel (h_get h a).

Lemma same_skel_refl h : same_skel h h.
Proof. intros a. reflexivity. Qed.
Lemma same_skel_trans a b c : same_skel a b -> same_skel b c -> same_skel a c.
Proof. intros S1 S2 x. now rewrite S2, S1. Qed.

Lemma get_lt' h a o : h_get h a = Some o -> a < length (objs h).
Proof. exact (get_lt h a o). Qed.

Lemma nth_firstn {A} : forall n (l : list A) i, i < n -> nth_error (firstn n l) i = nth_error l i.
Proof.
  induction n as [|n IH]; intros l i Hi; [lia|]. destruct l as [|x l]; [now destruct i|].
  destruct i as [|i]; [reflexivity|]. cbn. apply IH. lia.
Qed.
Lemma nth_skipn {A} : forall n (l : list A) i, nth_error (skipn n l) i = nth_error l (n + i).
Proof.
  induction n as [|n IH]; intros l i; [reflexivity|]. destruct l as [|x l]; [now destruct i|]. cbn. apply IH.
Qed.

Lemma set_cache_other h a c x : x <> a -> h_get (set_cache h a c) x = h_get h x.
Proof.
  intros Hne. unfold set_cache. destruct (h_get h a) as [[r|l r c0]|] eqn:Hg; try reflexivity.
  pose proof (get_lt h a _ Hg) as Ha. unfold h_get. cbn [objs].
  destruct (Nat.lt_ge_cases x a) as [Hlt|Hge].
  - rewrite nth_error_app1 by (rewrite firstn_length; lia). apply nth_firstn. exact Hlt.
  - rewrite nth_error_app2 by (rewrite firstn_length; lia). rewrite firstn_length.
    replace (x - Nat.min a (length (objs h))) with (S (x - S a)) by lia. cbn [nth_error].
    rewrite nth_skipn. f_equal. lia.
Qed.
Lemma set_cache_same h a c l r c0 : h_get h a = Some (HPair l r c0) ->
  h_get (set_cache h a c) a = Some (HPair l r (Some c)).
Proof.
  intros Hg. unfold set_cache. rewrite Hg. unfold h_get. cbn [objs].
  pose proof (get_lt h a _ Hg) as Ha.
  rewrite nth_error_app2 by (rewrite firstn_length; lia). rewrite firstn_length.
  replace (a - Nat.min a (length (objs h))) with 0 by lia. reflexivity.
Qed.
Lemma set_cache_skel h a c : same_skel h (set_cache h a c).
Proof.
  intros x. destruct (Nat.eq_dec x a) as [->|Hne]; [|now rewrite set_cache_other].
  destruct (h_get h a) as [[r|l r c0]|] eqn:Hg.
  - unfold set_cache. now rewrite Hg, Hg.
  - now rewrite (set_cache_same h a c l r c0 Hg).
  - unfold set_cache. now rewrite Hg, Hg.
Qed.

Theorem h_root_skel H : forall f h a rt h', h_root H f h a = Some (rt, h') -> same_skel h h'.
Proof.
  induction f as [|f IH]; intros h a rt h' Hr; [discriminate|].
  cbn [h_root] in Hr. destruct (h_get h a) as [[r|l r [c|]]|] eqn:Hg; try discriminate.
  - inversion Hr; subst. apply same_skel_refl.
  - inversion Hr; subst. apply same_skel_refl.
  - destruct (h_root H f h l) as [[rl h1]|] eqn:Hl; [|discriminate].
    destruct (h_root H f h1 r) as [[rr h2]|] eqn:Hrr; [|discriminate]. inversion Hr; subst. clear Hr.
    eapply same_skel_trans; [apply (IH _ _ _ _ Hl)|].
    eapply same_skel_trans; [apply (IH _ _ _ _ Hrr)|].
    eapply same_skel_trans; [|apply set_cache_skel]. intros x. reflexivity.
Qed.

(* what an address denotes does not depend on caches *)
Lemma den_skel : forall f h h' a, same_skel h h' -> den f h' a = den f h a.
Proof.
  induction f as [|f IH]; intros h h' a Hs; [reflexivity|]. cbn [den]. specialize (Hs a) as Ha.
  destruct (h_get h a) as [[r|l r c]|]; destruct (h_get h' a) as [[r'|l' r' c']|]; cbn in Ha; try discriminate; try reflexivity.
  - now inversion Ha.
  - inversion Ha; subst. now rewrite !(IH h h').
Qed.

(* computing a root never changes what any address denotes (C06: only caches are written) *)
Theorem h_root_frame H f h a rt h' x : h_root H f h a = Some (rt, h') -> den_of h' x = den_of h x.
Proof. intros Hr. apply den_skel. eapply h_root_skel; eauto. Qed.

Lemma h_root_cached H f h a l r c : h_get h a = Some (HPair l r (Some c)) ->
  h_root H (S f) h a = Some (c, h).
Proof. intros Hg. cbn [h_root]. now rewrite Hg. Qed.

(* a second merkle_root() returns the same root, performs no hash and changes nothing (C19 idle) *)
Theorem h_root_idle H f h a rt h' : h_root H (S f) h a = Some (rt, h') ->
  h_root H (S f) h' a = Some (rt, h').
Proof.
  intros Hr. pose proof Hr as Hr0. cbn [h_root] in Hr.
  destruct (h_get h a) as [[r|l r [c|]]|] eqn:Hg; try discriminate.
  - inversion Hr; subst. exact Hr0.
  - inversion Hr; subst. exact Hr0.
  - destruct (h_root H f h l) as [[rl h1]|] eqn:Hl; [|discriminate].
    destruct (h_root H f h1 r) as [[rr h2]|] eqn:Hrr; [|discriminate]. inversion Hr; subst. clear Hr.
    pose proof (same_skel_trans _ _ _ (h_root_skel H _ _ _ _ _ Hl) (h_root_skel H _ _ _ _ _ Hrr) a) as Sk.
    rewrite Hg in Sk. cbn [skel] in Sk.
    destruct (h_get h2 a) as [[r0|l0 r0 c0]|] eqn:G2; cbn in Sk; try discriminate. inversion Sk; subst l0 r0.
    apply (h_root_cached H f _ a l r (H rl rr)).
    apply (set_cache_same (bump h2) a (H rl rr) l r c0). exact G2.
Qed.

(* hashes are only performed for pairs without a cached root: with a cache (or on a leaf) none *)
Theorem h_root_cached_free H f h a rt h' :
  (exists l r c, h_get h a = Some (HPair l r (Some c))) \/ (exists r, h_get h a = Some (HRoot r)) ->
  h_root H (S f) h a = Some (rt, h') -> h' = h.
Proof.
  intros [(l & r & c & Hg)|(r & Hg)] Hr; cbn [h_root] in Hr; rewrite Hg in Hr; now inversion Hr.
Qed.

(* ---- the heap operations refine the pure tree operations through den ---- *)
Lemma den_fuel : forall f g h a, wfh h -> a < f -> a < g -> den f h a = den g h a.
Proof.
  induction f as [|f IH]; intros g h a Hw Hf Hg; [lia|]. destruct g as [|g]; [lia|].
  cbn [den]. destruct (h_get h a) as [[r|l r c]|] eqn:E; try reflexivity.
  destruct (Hw a l r c E) as [Hl Hr].
  rewrite (IH g h l Hw) by lia. rewrite (IH g h r Hw) by lia. reflexivity.
Qed.

Lemma den_pair h a l r c nl nr : wfh h -> h_get h a = Some (HPair l r c) ->
  den_of h l = Some nl -> den_of h r = Some nr -> den_of h a = Some (PairN nl nr).
Proof.
  intros Hw Hg Hl Hr. unfold den_of in *. cbn [den]. rewrite Hg. destruct (Hw a l r c Hg) as [Hla Hra].
  rewrite (den_fuel a (S l) h l Hw) by lia. rewrite Hl.
  rewrite (den_fuel a (S r) h r Hw) by lia. rewrite Hr. reflexivity.
Qed.

Lemma den_inv h a n : wfh h -> den_of h a = Some n ->
  match h_get h a with
  | Some (HRoot r) => n = RootN r
  | Some (HPair l r _) => exists nl nr, den_of h l = Some nl /\ den_of h r = Some nr /\ n = PairN nl nr
  | None => False
  end.
Proof.
  intros Hw Hd. unfold den_of in Hd. cbn [den] in Hd. destruct (h_get h a) as [[r|l r c]|] eqn:E; try discriminate.
  - now inversion Hd.
  - destruct (Hw a l r c E) as [Hla Hra].
    destruct (den a h l) as [nl|] eqn:El; [|discriminate]. destruct (den a h r) as [nr|] eqn:Er; [|discriminate].
    inversion Hd; subst. exists nl, nr. unfold den_of.
    rewrite <- (den_fuel a (S l) h l Hw) by lia. rewrite <- (den_fuel a (S r) h r Hw) by lia. auto.
Qed.

Theorem h_setter_refines H e : forall p h a v a' h' n nv, wfh h -> v < length (objs h) ->
  h_setter H e h a p v = Ok (a', h') ->
  den_of h a = Some n -> den_of h v = Some nv ->
  exists n', setter_below H (fun _ => None) e n p nv = Ok n' /\ den_of h' a' = Some n'.
Proof.
  induction p as [|b p IH]; intros h a v a' h' n nv Hw Hv Hs Hn Hnv.
  - cbn in Hs. inversion Hs; subst. exists nv. split; [reflexivity|exact Hnv].
  - pose proof (h_setter_extends H e (b :: p) h a v a' h' Hw Hv Hs) as (Hext & _ & Hw' & _).
    cbn [h_setter] in Hs. pose proof (den_inv h a n Hw Hn) as Hi.
    destruct (h_get h a) as [[rt|l r c]|] eqn:Hg; [| |contradiction].
    + subst n. cbn [setter_below children Tree.root].
      destruct (e && bytes_eqb rt (zero_hash H (length (b :: p)))); [|discriminate].
      destruct (h_expand H (length p) h) as [z h0'] eqn:Ex.
      destruct (h_expand_spec H (length p) h z h0' Hw Ex) as (Hw0 & He0 & Hz0 & Hh0).
      assert (v < length (objs h0')) as Hv0 by (pose proof (extends_len _ _ He0); lia).
      destruct (h_setter H e h0' z p v) as [[c h1]|] eqn:Hrec; [|discriminate]. cbn [bind] in Hs.
      assert (den_of h0' z = Some (zero_node H (length p))) as Hz.
      { unfold h_expand, h_zero_node, h_alloc in Ex. cbn in Ex. inversion Ex; subst. unfold den_of. cbn [den].
        unfold h_get. cbn [objs]. rewrite <- app_assoc. rewrite nth_error_app2 by lia. rewrite Nat.sub_diag. reflexivity. }
      assert (den_of h0' v = Some nv) as Hnv0.
      { unfold den_of. rewrite (den_extends (S v) h h0' v Hw He0 Hv). exact Hnv. }
      destruct (IH h0' z v c h1 _ nv Hw0 Hv0 Hrec Hz Hnv0) as (c' & Hc' & Hdc).
      rewrite Hc'. cbn [rebuild]. inversion Hs; subst a' h'. clear Hs.
      pose proof (h_setter_extends H e p h0' z v c h1 Hw0 Hv0 Hrec) as (He1 & _ & Hw1 & Hc1).
      set (o := if b then HPair z c None else HPair c z None).
      assert (den_of h1 z = Some (zero_node H (length p))) as Hz1.
      { unfold den_of. rewrite (den_extends (S z) h0' h1 z Hw0 He1 Hz0). exact Hz. }
      eexists; split; [reflexivity|].
      change (den_of (snd (h_alloc h1 o)) (length (objs h1)) = Some (if b then PairN (zero_node H (length p)) c' else PairN c' (zero_node H (length p)))).
      assert (wfh (snd (h_alloc h1 o))) as Hwa.
      { apply alloc_wfh; [exact Hw1|]. intros l0 r0 c0 E. unfold o in E. pose proof (extends_len _ _ He1). destruct b; inversion E; subst; lia. }
      assert (forall x nx, x < length (objs h1) -> den_of h1 x = Some nx -> den_of (snd (h_alloc h1 o)) x = Some nx) as Hlift.
      { intros x nx Hx Hd. unfold den_of. rewrite (den_extends (S x) h1 _ x Hw1 (alloc_extends h1 o) Hx). exact Hd. }
      assert (z < length (objs h1)) as Hz1l by (pose proof (extends_len _ _ He1); lia).
      unfold o in *. destruct b.
      * exact (den_pair _ _ z c None _ _ Hwa (alloc_get h1 (HPair z c None)) (Hlift z _ Hz1l Hz1) (Hlift c _ Hc1 Hdc)).
      * exact (den_pair _ _ c z None _ _ Hwa (alloc_get h1 (HPair c z None)) (Hlift c _ Hc1 Hdc) (Hlift z _ Hz1l Hz1)).
    + destruct Hi as (nl & nr & Hl & Hr & ->). cbn [setter_below children].
      destruct (Hw a l r c Hg) as [Hla Hra]. pose proof (get_lt h a _ Hg) as Ha.
      destruct (h_setter H e h (if b then r else l) p v) as [[ch h1]|] eqn:Hrec; [|discriminate]. cbn [bind] in Hs.
      destruct (IH h (if b then r else l) v ch h1 (if b then nr else nl) nv Hw Hv Hrec ltac:(destruct b; assumption) Hnv)
        as (c' & Hc' & Hdc).
      rewrite Hc'. cbn [rebuild]. inversion Hs; subst a' h'. clear Hs.
      pose proof (h_setter_extends H e p h _ v ch h1 Hw Hv Hrec) as (He1 & _ & Hw1 & Hc1).
      set (o := if b then HPair l ch None else HPair ch r None).
      eexists; split; [reflexivity|].
      change (den_of (snd (h_alloc h1 o)) (length (objs h1)) = Some (if b then PairN nl c' else PairN c' nr)).
      assert (wfh (snd (h_alloc h1 o))) as Hwa.
      { apply alloc_wfh; [exact Hw1|]. intros l0 r0 c0 E. unfold o in E. pose proof (extends_len _ _ He1). destruct b; inversion E; subst; lia. }
      assert (forall x nx, x < length (objs h) -> den_of h x = Some nx -> den_of (snd (h_alloc h1 o)) x = Some nx) as Hlift0.
      { intros x nx Hx Hd. unfold den_of.
        rewrite (den_extends (S x) h _ x Hw (extends_trans _ _ _ He1 (alloc_extends h1 o)) Hx). exact Hd. }
      assert (den_of (snd (h_alloc h1 o)) ch = Some c') as Hch.
      { unfold den_of. rewrite (den_extends (S ch) h1 _ ch Hw1 (alloc_extends h1 o) Hc1). exact Hdc. }
      unfold o in *. destruct b.
      * exact (den_pair _ _ l ch None _ _ Hwa (alloc_get h1 (HPair l ch None)) (Hlift0 l _ ltac:(lia) Hl) Hch).
      * exact (den_pair _ _ ch r None _ _ Hwa (alloc_get h1 (HPair ch r None)) Hch (Hlift0 r _ ltac:(lia) Hr)).
Qed.
