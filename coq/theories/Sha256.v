(* Sha256.v — executable SHA-256 of a 64-byte message on primitive 63-bit integers.
   Used ONLY to run the model in the correspondence check (run/*.v); no theorem mentions it.
   Validated on every run against hashlib (every root comparison is a SHA comparison). *)
From Coq Require Import Uint63 List NArith ZArith.
Require Import RM.Base.
Import ListNotations.
Local Open Scope uint63_scope.

Definition m32 : int := 0xFFFFFFFF.
Definition add32 (a b : int) := (a + b) land m32.
Definition rotr (n x : int) := ((x >> n) lor (x << (32 - n))) land m32.
Definition not32 (x : int) := x lxor m32.
Definition Ch x y z := (x land y) lxor ((not32 x) land z).
Definition Maj x y z := ((x land y) lxor (x land z)) lxor (y land z).
Definition S0 x := ((rotr 2 x) lxor (rotr 13 x)) lxor (rotr 22 x).
Definition S1 x := ((rotr 6 x) lxor (rotr 11 x)) lxor (rotr 25 x).
Definition s0 x := ((rotr 7 x) lxor (rotr 18 x)) lxor (x >> 3).
Definition s1 x := ((rotr 17 x) lxor (rotr 19 x)) lxor (x >> 10).

Definition K : list int := [
0x428a2f98;0x71374491;0xb5c0fbcf;0xe9b5dba5;0x3956c25b;0x59f111f1;0x923f82a4;0xab1c5ed5;
0xd807aa98;0x12835b01;0x243185be;0x550c7dc3;0x72be5d74;0x80deb1fe;0x9bdc06a7;0xc19bf174;
0xe49b69c1;0xefbe4786;0x0fc19dc6;0x240ca1cc;0x2de92c6f;0x4a7484aa;0x5cb0a9dc;0x76f988da;
0x983e5152;0xa831c66d;0xb00327c8;0xbf597fc7;0xc6e00bf3;0xd5a79147;0x06ca6351;0x14292967;
0x27b70a85;0x2e1b2138;0x4d2c6dfc;0x53380d13;0x650a7354;0x766a0abb;0x81c2c92e;0x92722c85;
0xa2bfe8a1;0xa81a664b;0xc24b8b70;0xc76c51a3;0xd192e819;0xd6990624;0xf40e3585;0x106aa070;
0x19a4c116;0x1e376c08;0x2748774c;0x34b0bcb5;0x391c0cb3;0x4ed8aa4a;0x5b9cca4f;0x682e6ff3;
0x748f82ee;0x78a5636f;0x84c87814;0x8cc70208;0x90befffa;0xa4506ceb;0xbef9a3f7;0xc67178f2].
Definition H0 : list int := [0x6a09e667;0xbb67ae85;0x3c6ef372;0xa54ff53a;0x510e527f;0x9b05688c;0x1f83d9ab;0x5be0cd19].

Fixpoint sched (n : nat) (rev_w : list int) : list int :=
  match n with
  | O => rev rev_w
  | S n' =>
    match rev_w with
    | w1 :: w2 :: _ =>
      let w7 := nth 6 rev_w 0 in let w15 := nth 14 rev_w 0 in let w16 := nth 15 rev_w 0 in
      sched n' (add32 (add32 (s1 w2) w7) (add32 (s0 w15) w16) :: rev_w)
    | _ => []
    end
  end.

Definition round (st : int*int*int*int*int*int*int*int) (kw : int * int) :=
  let '(a,b,c,d,e,f,g,h) := st in
  let '(k,w) := kw in
  let t1 := add32 (add32 (add32 h (S1 e)) (add32 (Ch e f g) k)) w in
  let t2 := add32 (S0 a) (Maj a b c) in
  (add32 t1 t2, a, b, c, add32 d t1, e, f, g).

Definition compress (hs : list int) (block : list int) : list int :=
  match hs with
  | [a;b;c;d;e;f;g;h] =>
    let ws := sched 48 (rev block) in
    let '(a',b',c',d',e',f',g',h') := fold_left round (combine K ws) (a,b,c,d,e,f,g,h) in
    [add32 a a'; add32 b b'; add32 c c'; add32 d d'; add32 e e'; add32 f f'; add32 g g'; add32 h h']
  | _ => []
  end.
Definition pad_block : list int := [0x80000000;0;0;0;0;0;0;0;0;0;0;0;0;0;0;512].
Definition sha256_64 (m : list int) : list int := compress (compress H0 m) pad_block.

Definition b2i (b : byte) : int := of_Z (Z.of_N (Byte.to_N b)).
Fixpoint words (l : list byte) : list int :=
  match l with
  | a :: b :: c :: d :: r => ((b2i a << 24) lor (b2i b << 16) lor (b2i c << 8) lor (b2i d)) :: words r
  | _ => []
  end.
Definition i2b (i : int) : byte := byte_of_N (Z.to_N (to_Z (i land 255))).
Definition unwords (l : list int) : list byte :=
  flat_map (fun w => [i2b (w >> 24); i2b (w >> 16); i2b (w >> 8); i2b w]) l.

(* SHA-256 of the concatenation of two 32-byte strings *)
Definition sha_pair (l r : bytes) : bytes := unwords (sha256_64 (words (l ++ r))).

(* table of zero hashes, computed once; sha_pair_z answers H(z_i, z_i) from the table.
   sha_pair_z is extensionally sha_pair (the table IS computed with sha_pair); it only avoids
   recomputing zero hashes on every zero_node call. *)
Fixpoint zh_table (n : nat) (z : bytes) : list bytes :=
  match n with O => [z] | S n' => z :: zh_table n' (sha_pair z z) end.
Definition ZH : list bytes := Eval vm_compute in zh_table 100 zero32.
Fixpoint zh_lookup (l : bytes) (tbl : list bytes) : option bytes :=
  match tbl with
  | a :: ((b :: _) as tl) => if bytes_eqb l a then Some b else zh_lookup l tl
  | _ => None
  end.
Definition sha_pair_z (l r : bytes) : bytes :=
  if bytes_eqb l r then match zh_lookup l ZH with Some x => x | None => sha_pair l r end
  else sha_pair l r.
