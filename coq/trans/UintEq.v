(* UintEq.v — the definitions GENERATED from remerkleable/basic.py (UintGen.v) compute exactly what the hand-written
   model ModelBasic.v computes, for every width, operand kind and operand value: the C13 theorems about the model are
   theorems about what the translator reads off the source. *)
Require Import RM.Base RM.ModelBasic RMT.PyInt RMG.UintGen.
From Coq Require Import Lia ZifyBool.
Local Open Scope Z_scope.
Ltac Zify.zify_post_hook ::= Z.to_euclidean_division_equations.

Definition kind_ok (k : okind) : Prop := match k with KOther w' => w' mod 8 = 0 | _ => True end.
Definition in_range (w a : Z) : Prop := 0 <= a < 2 ^ w.

Lemma shl3 bl : Z.shiftl bl 3 = 8 * bl.
Proof. rewrite Z.shiftl_mul_pow2 by lia. change (2 ^ 3) with 8. lia. Qed.

Lemma bit_length_gt w x : 0 <= w -> 0 <= x -> (bit_length x >? w) = (2 ^ w <=? x).
Proof.
  intros Hw Hx. unfold bit_length. destruct (x =? 0) eqn:E.
  - apply Z.eqb_eq in E. subst. assert (0 < 2 ^ w) by (apply Z.pow_pos_nonneg; lia). lia.
  - apply Z.eqb_neq in E. rewrite Z.abs_eq by lia.
    destruct (2 ^ w <=? x) eqn:Hp.
    + apply Z.leb_le in Hp. apply Z.log2_le_pow2 in Hp; lia.
    + apply Z.leb_gt in Hp. assert (~ w <= Z.log2 x) by (intros Hc; apply Z.log2_le_pow2 in Hc; lia). lia.
Qed.

Lemma new_eq bl x : 0 < bl -> t___new__ bl x = mk_uint (8 * bl) x.
Proof.
  intros Hb. unfold t___new__, mk_uint. destruct (x <? 0) eqn:E; [reflexivity|]. cbn [orb]. cbv zeta.
  rewrite shl3. rewrite bit_length_gt by lia. reflexivity.
Qed.

Lemma coerce_eq bl k b : 0 < bl -> kind_ok k -> t_coerce_view bl k b = coerce (8 * bl) k b.
Proof.
  intros Hb Hk. unfold t_coerce_view, coerce. destruct k as [|w'|]; cbn [is_uint kbytes andb].
  - rewrite Z.eqb_refl. cbn [negb]. now apply new_eq.
  - cbn in Hk. assert ((bl =? w' / 8) = (w' =? 8 * bl)) as -> by lia.
    destruct (w' =? 8 * bl); cbn [negb]; [now apply new_eq|reflexivity].
  - now apply new_eq.
Qed.

Lemma mk_in_range w a : in_range w a -> mk_uint w a = Ok a.
Proof. intros [H0 H1]. unfold mk_uint. assert ((a <? 0) = false) as -> by lia. assert ((2 ^ w <=? a) = false) as -> by lia. reflexivity. Qed.

Lemma mask_eq bl : 0 < bl -> Z.sub (Z.shiftl 1 (Z.shiftl bl 3)) 1 = mask (8 * bl).
Proof. intros Hb. unfold mask. rewrite shl3, Z.shiftl_mul_pow2 by lia. lia. Qed.

Section Ops.
Variables (bl a : Z) (k : okind) (b : Z).
Hypothesis Hb : 0 < bl.
Hypothesis Hk : kind_ok k.
Hypothesis Ha : in_range (8 * bl) a.
Notation w := (8 * bl).

Ltac start := unfold t___radd__, t___rmul__, t___rand__, t___rxor__, t___ror__, t___rsub__, t___rmod__, t___rfloordiv__, t___rlshift__, t___rrshift__, t___invert__;
  unfold t___add__, t___sub__, t___mul__, t___mod__, t___floordiv__,
  t___truediv__, t___rtruediv__, t___pow__, t___rpow__, t___lshift__, t___rshift__, t___and__,
  t___xor__, t___or__, t___neg__, t___pos__, t___abs__, uint_binop, uint_unop,
  py_add, py_sub, py_mul, py_and, py_or, py_xor, py_mod, py_floordiv, py_pow, py_rpow, py_lshift, py_rshift;
  cbv zeta; cbn [negb]; rewrite ?coerce_eq by (assumption || exact I); rewrite ?mask_eq by assumption;
  change (coerce w KSame a) with (mk_uint w a); change (coerce w KInt (mask w)) with (mk_uint w (mask w)); rewrite ?(mk_in_range w a Ha).
Ltac fin := try (destruct (coerce w k b) as [c|e]); cbn [bind]; rewrite ?new_eq by assumption;
  repeat (try reflexivity;
          first [ match goal with |- context [if ?c then _ else _] => destruct c eqn:?; cbn [bind]; rewrite ?new_eq by assumption end
                | match goal with |- bind ?x _ = bind ?x _ => destruct x; cbn [bind]; rewrite ?new_eq by assumption end ]);
  try reflexivity.

Theorem eq_add : t___add__ bl a k b = uint_binop w Add false a k b.  Proof. start. fin. Qed.
Theorem eq_radd : t___radd__ bl a k b = uint_binop w Add true a k b.  Proof. start. fin. Qed.
Theorem eq_mul : t___mul__ bl a k b = uint_binop w Mul false a k b.  Proof. start. fin. Qed.
Theorem eq_rmul : t___rmul__ bl a k b = uint_binop w Mul true a k b.  Proof. start. fin. Qed.
Theorem eq_and : t___and__ bl a k b = uint_binop w And false a k b.  Proof. start. fin. Qed.
Theorem eq_rand : t___rand__ bl a k b = uint_binop w And true a k b.  Proof. start. fin. Qed.
Theorem eq_or : t___or__ bl a k b = uint_binop w Or false a k b.  Proof. start. fin. Qed.
Theorem eq_ror : t___ror__ bl a k b = uint_binop w Or true a k b.  Proof. start. fin. Qed.
Theorem eq_xor : t___xor__ bl a k b = uint_binop w Xor false a k b.  Proof. start. fin. Qed.
Theorem eq_rxor : t___rxor__ bl a k b = uint_binop w Xor true a k b.  Proof. start. fin. Qed.
Theorem eq_sub : t___sub__ bl a k b = uint_binop w Sub false a k b.  Proof. start. fin. Qed.
Theorem eq_truediv : t___truediv__ bl a k b = uint_binop w TrueDiv false a k b.  Proof. reflexivity. Qed.
Theorem eq_rtruediv : t___rtruediv__ bl a k b = uint_binop w TrueDiv true a k b.  Proof. reflexivity. Qed.
Theorem eq_pow : t___pow__ bl a k b = uint_binop w Pow false a k b.  Proof. start. fin. Qed.
Theorem eq_rpow : t___rpow__ bl a k b = uint_binop w Pow true a k b.  Proof. start. fin. Qed.
Theorem eq_lshift : t___lshift__ bl a k b = uint_binop w LShift false a k b.  Proof. start. fin. Qed.
Theorem eq_rshift : t___rshift__ bl a k b = uint_binop w RShift false a k b.  Proof. start. fin. Qed.
Theorem eq_rsub : t___rsub__ bl a k b = uint_binop w Sub true a k b.  Proof. start. fin. Qed.
Theorem eq_mod : t___mod__ bl a k b = uint_binop w Mod false a k b.  Proof. start. fin. Qed.
Theorem eq_rmod : t___rmod__ bl a k b = uint_binop w Mod true a k b.  Proof. start. fin. Qed.
Theorem eq_floordiv : t___floordiv__ bl a k b = uint_binop w FloorDiv false a k b.  Proof. start. fin. Qed.
Theorem eq_rfloordiv : t___rfloordiv__ bl a k b = uint_binop w FloorDiv true a k b.  Proof. start. fin. Qed.
(* reflected shifts are reached only with a plain int on the left (a uint on the left runs its own __lshift__) *)
Theorem eq_rlshift : t___rlshift__ bl a KInt b = uint_binop w LShift true a KInt b.  Proof. reflexivity. Qed.
Theorem eq_rrshift : t___rrshift__ bl a KInt b = uint_binop w RShift true a KInt b.  Proof. reflexivity. Qed.
Theorem eq_neg : t___neg__ bl a = uint_unop w Neg a.  Proof. reflexivity. Qed.
Theorem eq_invert : t___invert__ bl a = uint_unop w Invert a.  Proof. start. destruct (mk_uint w (mask w)); cbn [bind]; rewrite ?new_eq by assumption; reflexivity. Qed.
Theorem eq_pos : t___pos__ bl a = uint_unop w Pos a.  Proof. reflexivity. Qed.
Theorem eq_abs : t___abs__ bl a = uint_unop w Abs a.  Proof. reflexivity. Qed.
End Ops.

Theorem eq_new : forall bl x, 0 < bl -> t___new__ bl x = mk_uint (8 * bl) x.
Proof. exact new_eq. Qed.
Theorem eq_coerce_view : forall bl k b, 0 < bl -> kind_ok k -> t_coerce_view bl k b = coerce (8 * bl) k b.
Proof. exact coerce_eq. Qed.

(* non-vacuity: a concrete instance of the premises (uint8, 200, another uint16) *)
Example premises_hold : 0 < 1 /\ kind_ok (KOther 16) /\ in_range (8 * 1) 200.
Proof. repeat split; try reflexivity; try lia; discriminate. Qed.

Print Assumptions eq_new.
Print Assumptions eq_coerce_view.
Print Assumptions eq_add. Print Assumptions eq_radd. Print Assumptions eq_sub. Print Assumptions eq_rsub.
Print Assumptions eq_mul. Print Assumptions eq_rmul. Print Assumptions eq_mod. Print Assumptions eq_rmod.
Print Assumptions eq_floordiv. Print Assumptions eq_rfloordiv. Print Assumptions eq_truediv. Print Assumptions eq_rtruediv.
Print Assumptions eq_pow. Print Assumptions eq_rpow. Print Assumptions eq_lshift. Print Assumptions eq_rlshift.
Print Assumptions eq_rshift. Print Assumptions eq_rrshift. Print Assumptions eq_and. Print Assumptions eq_rand.
Print Assumptions eq_xor. Print Assumptions eq_rxor. Print Assumptions eq_or. Print Assumptions eq_ror.
Print Assumptions eq_neg. Print Assumptions eq_invert. Print Assumptions eq_pos. Print Assumptions eq_abs.
