(* FillEq.v — the tree builders GENERATED from remerkleable/tree.py (FillGen.v: subtree_fill_to_depth / _to_length /
   _to_contents, recursion on fuel) compute exactly what the hand-written model Tree.v computes, for every argument. *)
Require Import RM.Base RM.Tree RM.Types RMT.PyInt RMG.FillGen.
From Coq Require Import List Lia ZifyBool ZifyN ZifyNat.
Local Open Scope Z_scope.

Lemma of_N_shiftl a n : Z.of_N (N.shiftl a n) = Z.shiftl (Z.of_N a) (Z.of_N n).
Proof. rewrite N.shiftl_mul_pow2, Z.shiftl_mul_pow2 by lia. now rewrite N2Z.inj_mul, N2Z.inj_pow. Qed.
Lemma shl_ok a y : 0 <= y -> py_shl a y = Ok (Z.shiftl a y).
Proof. intros Hy. unfold py_shl, py_lshift. assert ((y <? 0) = false) as -> by lia. reflexivity. Qed.
Lemma shr1_ok a : py_shr a 1 = Ok (Z.shiftr a 1).
Proof. reflexivity. Qed.
Lemma pow2_Z d : Z.of_N (pow2 d) = 2 ^ Z.of_nat d.
Proof. unfold pow2. rewrite N.shiftl_mul_pow2, N2Z.inj_mul, N2Z.inj_pow. cbn [Z.of_N]. rewrite nat_N_Z. lia. Qed.
Lemma shl1 d : Z.shiftl 1 (Z.of_nat d) = 2 ^ Z.of_nat d.
Proof. rewrite Z.shiftl_mul_pow2 by lia. lia. Qed.
Lemma half_pow d : Z.shiftr (2 ^ Z.of_nat (S d)) 1 = 2 ^ Z.of_nat d.
Proof. rewrite Z.shiftr_div_pow2 by lia. rewrite Nat2Z.inj_succ, Z.pow_succ_r by lia. change (2 ^ 1) with 2. rewrite Z.mul_comm, Z.div_mul by lia. reflexivity. Qed.

Section WithHash.
Variable H : bytes -> bytes -> bytes.

Lemma iter_fill (f : result node -> result node) bottom d : (forall x, f (Ok x) = Ok (PairN x x)) ->
  Nat.iter d f (Ok bottom) = Ok (fill_to_depth bottom d).
Proof. intros Hf. induction d as [|d IH]; [reflexivity|]. change (Nat.iter (S d) f (Ok bottom)) with (f (Nat.iter d f (Ok bottom))). rewrite IH. cbn [fill_to_depth]. apply Hf. Qed.

Theorem eq_fill_to_depth bottom d : t_subtree_fill_to_depth bottom (Z.of_nat d) = Ok (fill_to_depth bottom d).
Proof.
  unfold t_subtree_fill_to_depth. cbn [bind]. rewrite Nat2Z.id. rewrite iter_fill by (intros; reflexivity). reflexivity.
Qed.

Theorem eq_fill_to_length_fuel : forall fuel d bottom len, (d < fuel)%nat ->
  t_subtree_fill_to_length_fuel H fuel bottom (Z.of_nat d) (Z.of_N len) = fill_to_length H bottom d len.
Proof.
  induction fuel as [|fuel IH]; intros d bottom len Hf; [lia|].
  cbn [t_subtree_fill_to_length_fuel]. rewrite !shl_ok by lia. cbn [bind]. rewrite shl1. rewrite Nat2Z.id.
  pose proof (pow2_Z d) as Hp.
  destruct d as [|d']; cbn [fill_to_length].
  - (* depth 0 *)
    destruct (len =? 0)%N eqn:E0; [assert ((Z.of_N len =? 0) = true) as -> by lia; reflexivity|assert ((Z.of_N len =? 0) = false) as -> by lia].
    change (pow2 0) with 1%N in *. change (2 ^ Z.of_nat 0) with 1.
    destruct (1 <? len)%N eqn:E1; [assert ((Z.of_N len >? 1) = true) as -> by lia; reflexivity|assert ((Z.of_N len >? 1) = false) as -> by lia].
    destruct (len =? 1)%N eqn:E2; [assert ((Z.of_N len =? 1) = true) as -> by lia; cbn [bind]; exact (eq_fill_to_depth bottom 0)|].
    assert ((Z.of_N len =? 1) = false) as -> by lia. cbn. reflexivity.
  - destruct (len =? 0)%N eqn:E0; [assert ((Z.of_N len =? 0) = true) as -> by lia; reflexivity|assert ((Z.of_N len =? 0) = false) as -> by lia].
    destruct (pow2 (S d') <? len)%N eqn:E1; [assert ((Z.of_N len >? 2 ^ Z.of_nat (S d')) = true) as -> by lia; reflexivity|
                                             assert ((Z.of_N len >? 2 ^ Z.of_nat (S d')) = false) as -> by lia].
    destruct (len =? pow2 (S d'))%N eqn:E2; [assert ((Z.of_N len =? 2 ^ Z.of_nat (S d')) = true) as -> by lia; cbn [bind]; exact (eq_fill_to_depth bottom (S d'))|
                                             assert ((Z.of_N len =? 2 ^ Z.of_nat (S d')) = false) as -> by lia].
    assert ((Z.of_nat (S d') =? 0) = false) as -> by lia.
    destruct d' as [|d''].
    + (* depth 1 *) change (Z.of_nat 1 =? 1) with true. cbn [bind].
      destruct (1 <? len)%N eqn:E3; [assert ((Z.of_N len >? 1) = true) as -> by lia|assert ((Z.of_N len >? 1) = false) as -> by lia]; reflexivity.
    + assert ((Z.of_nat (S (S d'')) =? 1) = false) as -> by lia.
      rewrite shr1_ok. cbn [bind]. rewrite half_pow. pose proof (pow2_Z (S d'')) as Hp'.
      replace (Z.sub (Z.of_nat (S (S d''))) 1) with (Z.of_nat (S d'')) by lia. rewrite Nat2Z.id.
      destruct (len <=? pow2 (S d''))%N eqn:E4.
      * assert ((Z.of_N len <=? 2 ^ Z.of_nat (S d'')) = true) as -> by lia. rewrite (IH (S d'') bottom len) by lia. reflexivity.
      * assert ((Z.of_N len <=? 2 ^ Z.of_nat (S d'')) = false) as -> by lia. rewrite (eq_fill_to_depth bottom (S d'')). cbn [bind].
        replace (Z.sub (Z.of_N len) (2 ^ Z.of_nat (S d''))) with (Z.of_N (len - pow2 (S d''))) by lia.
        rewrite (IH (S d'') bottom (len - pow2 (S d''))%N) by lia. reflexivity.
Qed.
Theorem eq_fill_to_length bottom d len : t_subtree_fill_to_length H bottom (Z.of_nat d) (Z.of_N len) = fill_to_length H bottom d len.
Proof. unfold t_subtree_fill_to_length. apply eq_fill_to_length_fuel. lia. Qed.

Lemma lenN_Z {A} (l : list A) : Z.of_N (lenN l) = Z.of_nat (length l).
Proof. unfold lenN. lia. Qed.

Theorem eq_fill_to_contents_fuel : forall fuel d nodes, (d < fuel)%nat ->
  t_subtree_fill_to_contents_fuel H fuel nodes (Z.of_nat d) = fill_to_contents H nodes d.
Proof.
  induction fuel as [|fuel IH]; intros d nodes Hf; [lia|].
  cbn [t_subtree_fill_to_contents_fuel]. rewrite !shl_ok by lia. cbn [bind]. rewrite shl1. rewrite Nat2Z.id.
  pose proof (pow2_Z d) as Hp. pose proof (lenN_Z nodes) as Hl.
  destruct nodes as [|n0 rest]; [destruct d; reflexivity|].
  assert ((Z.of_nat (length (n0 :: rest)) =? 0) = false) as -> by (cbn [length]; lia).
  destruct d as [|d']; cbn [fill_to_contents].
  - change (pow2 0) with 1%N in *. change (2 ^ Z.of_nat 0) with 1.
    destruct (1 <? lenN (n0 :: rest))%N eqn:E1; [assert ((Z.of_nat (length (n0 :: rest)) >? 1) = true) as -> by lia; reflexivity|
                                                  assert ((Z.of_nat (length (n0 :: rest)) >? 1) = false) as -> by lia].
    change (Z.of_nat 0 =? 0) with true. cbv iota. destruct rest as [|n1 rest]; [reflexivity|]. exfalso. unfold lenN in E1. cbn [length] in E1. lia.
  - destruct (pow2 (S d') <? lenN (n0 :: rest))%N eqn:E1; [assert ((Z.of_nat (length (n0 :: rest)) >? 2 ^ Z.of_nat (S d')) = true) as -> by lia; reflexivity|
                                                           assert ((Z.of_nat (length (n0 :: rest)) >? 2 ^ Z.of_nat (S d')) = false) as -> by lia].
    assert ((Z.of_nat (S d') =? 0) = false) as -> by lia.
    destruct d' as [|d''].
    + change (Z.of_nat 1 =? 1) with true. cbv iota. destruct rest as [|n1 rest]; [reflexivity|].
      assert ((Z.of_nat (length (n0 :: n1 :: rest)) >? 1) = true) as -> by (cbn [length]; lia). reflexivity.
    + assert ((Z.of_nat (S (S d'')) =? 1) = false) as -> by lia.
      rewrite shr1_ok. cbn [bind]. rewrite half_pow. pose proof (pow2_Z (S d'')) as Hp'.
      replace (Z.sub (Z.of_nat (S (S d''))) 1) with (Z.of_nat (S d'')) by lia. rewrite Nat2Z.id.
      replace (Z.to_nat (2 ^ Z.of_nat (S d''))) with (N.to_nat (pow2 (S d''))) by lia.
      destruct (lenN (n0 :: rest) <=? pow2 (S d''))%N eqn:E4.
      * assert ((Z.of_nat (length (n0 :: rest)) <=? 2 ^ Z.of_nat (S d'')) = true) as -> by lia. rewrite (IH (S d'') (n0 :: rest)) by lia. reflexivity.
      * assert ((Z.of_nat (length (n0 :: rest)) <=? 2 ^ Z.of_nat (S d'')) = false) as -> by lia.
        rewrite (IH (S d'') (firstn _ (n0 :: rest))) by lia. rewrite (IH (S d'') (skipn _ (n0 :: rest))) by lia. reflexivity.
Qed.
Theorem eq_fill_to_contents nodes d : t_subtree_fill_to_contents H nodes (Z.of_nat d) = fill_to_contents H nodes d.
Proof. unfold t_subtree_fill_to_contents. apply eq_fill_to_contents_fuel. lia. Qed.
End WithHash.

Print Assumptions eq_fill_to_depth.
Print Assumptions eq_fill_to_length.
Print Assumptions eq_fill_to_contents.
