(* TreeEq.v — the generalized-index arithmetic GENERATED from remerkleable/tree.py (TreeGen.v) computes exactly what the
   hand-written model Gindex.v (on N) computes, for every argument. *)
Require Import RM.Base RM.Gindex RMT.PyInt RMG.TreeGen.
From Coq Require Import List Lia ZifyBool ZifyN ZifyNat.
Local Open Scope Z_scope.

Lemma of_N_lor a b : Z.of_N (N.lor a b) = Z.lor (Z.of_N a) (Z.of_N b).
Proof. destruct a, b; reflexivity. Qed.
Lemma of_N_lxor a b : Z.of_N (N.lxor a b) = Z.lxor (Z.of_N a) (Z.of_N b).
Proof. destruct a, b; reflexivity. Qed.
Lemma of_N_shiftl a n : Z.of_N (N.shiftl a n) = Z.shiftl (Z.of_N a) (Z.of_N n).
Proof. rewrite N.shiftl_mul_pow2, Z.shiftl_mul_pow2 by lia. now rewrite N2Z.inj_mul, N2Z.inj_pow. Qed.
Lemma bit_length_N n : PyInt.bit_length (Z.of_N n) = Z.of_N (N.size n).
Proof.
  destruct n as [|p]; [reflexivity|]. unfold PyInt.bit_length. cbn [Z.of_N Z.eqb Z.abs N.size].
  destruct p as [p|p|]; cbn [Z.log2 Pos.size]; lia.
Qed.
Lemma size_nat_size p : Z.of_nat (Pos.size_nat p) = Zpos (Pos.size p).
Proof. induction p as [p IH|p IH|]; cbn [Pos.size_nat Pos.size]; lia. Qed.
Lemma shl_ok a y : 0 <= y -> py_shl a y = Ok (Z.shiftl a y).
Proof. intros Hy. unfold py_shl, py_lshift. assert ((y <? 0) = false) as -> by lia. reflexivity. Qed.

Theorem eq_get_depth n : t_get_depth (Z.of_N n) = Ok (Z.of_nat (get_depth n)).
Proof.
  unfold t_get_depth, get_depth. destruct (n <=? 1)%N eqn:E.
  - assert ((Z.of_N n <=? 1) = true) as -> by lia. reflexivity.
  - assert ((Z.of_N n <=? 1) = false) as -> by lia. f_equal.
    replace (Z.sub (Z.of_N n) 1) with (Z.of_N (n - 1)) by lia. rewrite bit_length_N.
    destruct (n - 1)%N as [|p] eqn:Ep; [reflexivity|]. cbn [N.size_nat N.size Z.of_N]. now rewrite size_nat_size.
Qed.

Theorem eq_to_gindex i d : t_to_gindex (Z.of_N i) (Z.of_nat d) = rmap Z.of_N (to_gindex i d).
Proof.
  unfold t_to_gindex, to_gindex. rewrite shl_ok by lia. cbn [bind]. cbv zeta.
  replace (Z.shiftl 1 (Z.of_nat d)) with (Z.of_N (N.shiftl 1 (N.of_nat d))) by (rewrite of_N_shiftl; f_equal; lia).
  destruct (N.shiftl 1 (N.of_nat d) <=? i)%N eqn:E.
  - assert ((Z.of_N i >=? Z.of_N (N.shiftl 1 (N.of_nat d))) = true) as -> by lia. reflexivity.
  - assert ((Z.of_N i >=? Z.of_N (N.shiftl 1 (N.of_nat d))) = false) as -> by lia. cbn [rmap]. now rewrite of_N_lor.
Qed.

(* tree.py calls it with gindex >= 1 only (gindex 0 makes Python raise on a negative shift count) *)
Theorem eq_get_anchor_gindex g : (1 <= g)%N -> t_get_anchor_gindex (Z.of_N g) = Ok (Z.of_N (get_anchor_gindex g)).
Proof.
  intros Hg. unfold t_get_anchor_gindex, get_anchor_gindex, Gindex.bit_length. rewrite bit_length_N.
  assert (1 <= N.size g)%N as Hs by (destruct g as [|p]; [lia|cbn; lia]).
  rewrite shl_ok by lia. f_equal. rewrite of_N_shiftl. f_equal. lia.
Qed.

Definition stepZ (r : result Z) (step : Z) : result Z :=
  do out <- r; (let step_bit_len := (Z.sub (PyInt.bit_length step) 1) in (do out <- py_shl out step_bit_len; (do out <- (do x1 <- (do x2 <- py_shl 1 step_bit_len; Ok (Z.lxor step x2)); Ok (Z.lor out x1)); Ok out))).
Definition stepN (acc : result N) (step : N) : result N :=
  do out <- acc;
  if (step =? 0)%N then Err EValue else
  let sbl := (Gindex.bit_length step - 1)%N in
  Ok (N.lor (N.shiftl out sbl) (N.lxor step (N.shiftl 1 sbl))).

Lemma step_eq acc step : stepZ (rmap Z.of_N acc) (Z.of_N step) = rmap Z.of_N (stepN acc step).
Proof.
  destruct acc as [out|e]; [|reflexivity]. unfold stepZ, stepN. cbn [rmap bind]. cbv zeta. rewrite bit_length_N.
  destruct (step =? 0)%N eqn:E.
  - apply N.eqb_eq in E. subst. reflexivity.
  - assert (1 <= N.size step)%N as Hs by (destruct step as [|p]; [discriminate|cbn; lia]).
    unfold Gindex.bit_length. rewrite !shl_ok by lia. cbn [bind rmap]. f_equal.
    replace (Z.sub (Z.of_N (N.size step)) 1) with (Z.of_N (N.size step - 1)) by lia.
    now rewrite of_N_lor, of_N_lxor, !of_N_shiftl.
Qed.

Theorem eq_concat_gindices steps : t_concat_gindices (map Z.of_N steps) = rmap Z.of_N (concat_gindices steps).
Proof.
  unfold t_concat_gindices, concat_gindices. cbv zeta.
  match goal with |- bind (fold_left ?f _ _) _ = _ => change f with stepZ end.
  match goal with |- _ = rmap _ (fold_left ?f _ _) => change f with stepN end.
  assert (forall acc, fold_left stepZ (map Z.of_N steps) (rmap Z.of_N acc) = rmap Z.of_N (fold_left stepN steps acc)) as Hf.
  { induction steps as [|s steps IH]; intros acc; [reflexivity|]. cbn [map fold_left]. rewrite step_eq. apply IH. }
  change (Ok 1) with (rmap Z.of_N (Ok 1%N)). rewrite Hf. destruct (fold_left stepN steps (Ok 1%N)); reflexivity.
Qed.

Example premises_hold : (1 <= 5)%N.
Proof. lia. Qed.

Print Assumptions eq_get_depth.
Print Assumptions eq_to_gindex.
Print Assumptions eq_get_anchor_gindex.
Print Assumptions eq_concat_gindices.
