(* PyInt.v — the part of Python's `int` that class uint reaches through super(), over Z (hand-written, trusted):
   what each int method returns or raises for integer arguments, and the helper predicates the translated
   definitions (generated from remerkleable/basic.py on every run) refer to. *)
Require Import RM.Base RM.ModelBasic.
Local Open Scope Z_scope.

(* int.bit_length() *)
Definition bit_length (x : Z) : Z := if x =? 0 then 0 else Z.log2 (Z.abs x) + 1.
(* isinstance(other, uint) and other.__class__.type_byte_length() for the operand kinds of ModelBasic *)
Definition is_uint (k : okind) : bool := match k with KInt => false | _ => true end.
Definition kbytes (bl : Z) (k : okind) : Z := match k with KSame => bl | KOther w' => w' / 8 | KInt => 0 end.

Definition py_add (a y : Z) : result Z := Ok (a + y).
Definition py_sub (a y : Z) : result Z := Ok (a - y).
Definition py_mul (a y : Z) : result Z := Ok (a * y).
Definition py_and (a y : Z) : result Z := Ok (Z.land a y).
Definition py_or (a y : Z) : result Z := Ok (Z.lor a y).
Definition py_xor (a y : Z) : result Z := Ok (Z.lxor a y).
(* // and % are floor division and its remainder (sign of the divisor), ZeroDivisionError on 0: Z.div / Z.modulo *)
Definition py_floordiv (a y : Z) : result Z := if y =? 0 then Err EZeroDiv else Ok (a / y).
Definition py_mod (a y : Z) : result Z := if y =? 0 then Err EZeroDiv else Ok (a mod y).
(* int.__pow__(a, y, None): a negative exponent gives a float (or ZeroDivisionError), on which uint.__new__ raises
   (no bit_length) — recorded here as an error at once *)
Definition py_pow (a y : Z) : result Z := if y <? 0 then Err EOther else Ok (a ^ y).
(* int.__rpow__(a, y, None) = y ** a *)
Definition py_rpow (a y : Z) : result Z := if a <? 0 then Err EOther else Ok (y ^ a).
(* shifts by a negative count raise ValueError *)
Definition py_lshift (a y : Z) : result Z := if y <? 0 then Err EValue else Ok (Z.shiftl a y).
Definition py_rshift (a y : Z) : result Z := if y <? 0 then Err EValue else Ok (Z.shiftr a y).
(* plain-int shifts (tree.py) *)
Definition py_shl (a y : Z) : result Z := py_lshift a y.
Definition py_shr (a y : Z) : result Z := py_rshift a y.
(* list indexing with a non-negative index: IndexError when out of range (negative indices are not used by the
   translated code and are reported as an error) *)
Definition py_nth {A} (l : list A) (k : Z) : result A :=
  if k <? 0 then Err EOther else match nth_error l (Z.to_nat k) with Some x => Ok x | None => Err EIndex end.

(* ---- size facts of an SSZ type class, as the class methods report them (harness/translate_facts.py) ---- *)
Record facts := { fx : bool; mn : Z; mx : Z }.
(* min(...) / max(...) of a list of ints (Python raises on an empty list; a Union has at least one option) *)
Definition py_min (l : list Z) : Z := match l with nil => 0 | cons x r => fold_left Z.min r x end.
Definition py_max (l : list Z) : Z := match l with nil => 0 | cons x r => fold_left Z.max r x end.
