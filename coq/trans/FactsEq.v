(* FactsEq.v — the size facts GENERATED from the type classes' methods (FactsGen.v), composed along the class
   hierarchy (facts_of: which class's methods a type uses — hand-written glue, part of the trusted tie), are exactly
   the model's is_fixed_impl / min_impl / max_impl for every type: the C11 theorems about the model are theorems about
   what the translator reads off the source. *)
Require Import RM.Base RM.Types RM.ModelViews RMT.PyInt RMG.FactsGen.
From Coq Require Import List Lia ZifyBool ZifyN ZifyNat.
Local Open Scope Z_scope.
Ltac Zify.zify_post_hook ::= Z.to_euclidean_division_equations.

(* a type whose class mixes in FixedByteLengthViewHelper with type_byte_length() = k *)
Definition fixed_facts (k : Z) : facts :=
  {| fx := t_FixedByteLengthViewHelper_is_fixed_byte_length k;
     mn := t_FixedByteLengthViewHelper_min_byte_length k;
     mx := t_FixedByteLengthViewHelper_max_byte_length k |}.

Fixpoint facts_of (t : ty) : facts :=
  match t with
  | TUint k => fixed_facts (Z.of_N k)                       (* uintN.type_byte_length(): eq_basic_sizes *)
  | TBool => fixed_facts t_boolean_type_byte_length
  | TBitvector n => fixed_facts (t_Bitvector_type_byte_length (Z.of_N n))
  | TByteVector n => fixed_facts (Z.of_N n)                 (* byte_arrays.py: type_byte_length() returns the length parameter *)
  | TBitlist l => {| fx := t_Bitlist_is_fixed_byte_length (Z.of_N l); mn := t_Bitlist_min_byte_length (Z.of_N l);
                     mx := t_Bitlist_max_byte_length (Z.of_N l) |}
  | TByteList l => {| fx := t_ByteList_is_fixed_byte_length (Z.of_N l); mn := t_ByteList_min_byte_length (Z.of_N l);
                      mx := t_ByteList_max_byte_length (Z.of_N l) |}
  | TList e l => let fe := facts_of e in
      {| fx := t_List_is_fixed_byte_length fe (Z.of_N l); mn := t_List_min_byte_length fe (Z.of_N l);
         mx := t_List_max_byte_length fe (Z.of_N l) |}
  | TVector e n => let fe := facts_of e in
      (* Vector[...] of a fixed-size element type is the FixedSpecialVectorView subclass: sizes pre-computed from the
         element's type_byte_length(), which for a fixed-size type is its min_byte_length() *)
      if fx fe then fixed_facts (t_FixedVector_byte_length (mn fe) (Z.of_N n))
      else {| fx := t_Vector_is_fixed_byte_length fe (Z.of_N n); mn := t_Vector_min_byte_length fe (Z.of_N n);
              mx := t_Vector_max_byte_length fe (Z.of_N n) |}
  | TContainer fs => let ffs := map facts_of fs in
      {| fx := t_Container_is_fixed_byte_length ffs; mn := t_Container_min_byte_length ffs; mx := t_Container_max_byte_length ffs |}
  | TUnion b os => let opts := (if b then [None] else []) ++ map (fun o => Some (facts_of o)) os in
      {| fx := t_Union_is_fixed_byte_length opts; mn := t_Union_min_byte_length opts; mx := t_Union_max_byte_length opts |}
  end.

Definition facts_ok (t : ty) : Prop :=
  fx (facts_of t) = is_fixed_impl t /\ mn (facts_of t) = Z.of_N (min_impl t) /\ mx (facts_of t) = Z.of_N (max_impl t).

Theorem eq_basic_sizes :
  [t_uint8_type_byte_length; t_uint16_type_byte_length; t_uint32_type_byte_length; t_uint64_type_byte_length;
   t_uint128_type_byte_length; t_uint256_type_byte_length] = [1; 2; 4; 8; 16; 32] /\ t_boolean_type_byte_length = 1
  /\ t_OFFSET_BYTE_LENGTH = Z.of_N OFFSET.
Proof. repeat split. Qed.

Lemma fold_min r : forall x, fold_left Z.min (map Z.of_N r) (Z.of_N x) = Z.of_N (fold_left N.min r x).
Proof. induction r as [|y r IH]; intros x; [reflexivity|]. cbn [map fold_left]. rewrite <- N2Z.inj_min. apply IH. Qed.
Lemma fold_max r : forall x, fold_left Z.max (map Z.of_N r) (Z.of_N x) = Z.of_N (fold_left N.max r x).
Proof. induction r as [|y r IH]; intros x; [reflexivity|]. cbn [map fold_left]. rewrite <- N2Z.inj_max. apply IH. Qed.

Ltac ufacts := unfold fixed_facts, t_FixedByteLengthViewHelper_is_fixed_byte_length, t_FixedByteLengthViewHelper_min_byte_length,
  t_FixedByteLengthViewHelper_max_byte_length, t_Bitvector_type_byte_length, t_Bitlist_is_fixed_byte_length, t_Bitlist_min_byte_length,
  t_Bitlist_max_byte_length, t_ByteList_is_fixed_byte_length, t_ByteList_min_byte_length, t_ByteList_max_byte_length,
  t_List_is_fixed_byte_length, t_List_min_byte_length, t_List_max_byte_length, t_Vector_is_fixed_byte_length, t_Vector_min_byte_length,
  t_Vector_max_byte_length, t_FixedVector_byte_length, t_boolean_type_byte_length, t_Union_is_fixed_byte_length; cbn [fx mn mx]; cbv zeta.
Lemma divN a : (Z.of_N a + 7) / 8 = Z.of_N ((a + 7) / 8).
Proof. rewrite N2Z.inj_div, N2Z.inj_add. reflexivity. Qed.
Lemma divN1 a : (Z.of_N a + 7 + 1) / 8 = Z.of_N ((a + 7 + 1) / 8).
Proof. rewrite N2Z.inj_div, !N2Z.inj_add. reflexivity. Qed.

(* a fixed-size type has min = max *)
Lemma fixed_min_max : forall t, is_fixed_impl t = true -> min_impl t = max_impl t.
Proof.
  induction t as [k| |bn|bl|yn|yl|e n IHe|e l IHe|fs Hfs|b os Hos] using ty_ind'; cbn [is_fixed_impl min_impl max_impl]; intros Hf; try discriminate; try reflexivity.
  - rewrite Hf. now rewrite IHe.
  - assert (forall a, fold_left (fun total f => ((if is_fixed_impl f then total else (total + OFFSET)%N) + min_impl f)%N) fs a
                      = fold_left (fun total f => ((if is_fixed_impl f then total else (total + OFFSET)%N) + max_impl f)%N) fs a) as Hx; [|apply Hx].
    induction Hfs as [|f fs' Hf' Hfs' IH]; intros a; [reflexivity|]. cbn [forallb] in Hf. apply andb_true_iff in Hf as [Hf1 Hf2].
    cbn [fold_left]. rewrite (Hf' Hf1). now apply IH.
Qed.

Theorem eq_facts : forall t, facts_ok t.
Proof.
  induction t as [k| |bn|bl|yn|yl|e n IHe|e l IHe|fs Hfs|b os Hos] using ty_ind'; unfold facts_ok; cbn [facts_of is_fixed_impl min_impl max_impl].
  - ufacts. repeat split.
  - ufacts. repeat split.
  - ufacts. rewrite divN. repeat split.
  - ufacts. rewrite divN1. repeat split.
  - ufacts. repeat split.
  - ufacts. repeat split.
  - (* vector *) destruct IHe as (Hf & Hmn & Hmx). cbv zeta. rewrite <- Hf.
    destruct (fx (facts_of e)) eqn:Efx.
    { ufacts. rewrite Hmn. rewrite <- (fixed_min_max e (eq_sym Hf)). repeat split; lia. }
    { ufacts. rewrite Efx, Hmn, Hmx. cbn [negb]. unfold OFFSET. repeat split; lia. }
  - (* list *) destruct IHe as (Hf & Hmn & Hmx). ufacts. rewrite <- Hf, Hmx.
    destruct (fx (facts_of e)); cbn [negb]; unfold OFFSET; repeat split; lia.
  - (* container *)
    assert (forallb (fun f => fx f) (map facts_of fs) = forallb is_fixed_impl fs) as H1.
    { induction Hfs as [|f fs' Hf Hfs' IH]; [reflexivity|]. cbn [map forallb]. destruct Hf as (-> & _). now rewrite IH. }
    assert (forall a, fold_left (fun total ftyp => let total := (if negb (fx ftyp) then Z.add total 4 else total) in let total := Z.add total (mn ftyp) in total) (map facts_of fs) (Z.of_N a)
                      = Z.of_N (fold_left (fun total f => ((if is_fixed_impl f then total else (total + OFFSET)%N) + min_impl f)%N) fs a)) as H2.
    { clear -Hfs. induction Hfs as [|f fs' Hf Hfs' IH]; intros a; [reflexivity|]. cbn [map fold_left]. destruct Hf as (Hf1 & Hf2 & _). cbv zeta. rewrite Hf1, Hf2.
      rewrite <- IH. f_equal. destruct (is_fixed_impl f); cbn [negb]; unfold OFFSET; lia. }
    assert (forall a, fold_left (fun total ftyp => let total := (if negb (fx ftyp) then Z.add total 4 else total) in let total := Z.add total (mx ftyp) in total) (map facts_of fs) (Z.of_N a)
                      = Z.of_N (fold_left (fun total f => ((if is_fixed_impl f then total else (total + OFFSET)%N) + max_impl f)%N) fs a)) as H3.
    { clear -Hfs. induction Hfs as [|f fs' Hf Hfs' IH]; intros a; [reflexivity|]. cbn [map fold_left]. destruct Hf as (Hf1 & _ & Hf3). cbv zeta. rewrite Hf1, Hf3.
      rewrite <- IH. f_equal. destruct (is_fixed_impl f); cbn [negb]; unfold OFFSET; lia. }
    unfold t_Container_is_fixed_byte_length, t_Container_min_byte_length, t_Container_max_byte_length. cbn [fx mn mx]. cbv zeta.
    split; [exact H1|]. split; [exact (H2 0%N)|exact (H3 0%N)].
  - (* union *)
    ufacts. unfold t_Union_min_byte_length, t_Union_max_byte_length. split; [reflexivity|].
    assert (map (fun x : option facts => match x with None => 0 | Some y => mn y end) ((if b then [None] else []) ++ map (fun o => Some (facts_of o)) os)
            = map Z.of_N ((if b then [0%N] else []) ++ map min_impl os)) as E1.
    { clear -Hos. rewrite !map_app. f_equal; [destruct b; reflexivity|]. rewrite !map_map. induction Hos as [|o os' Ho Hos' IH]; [reflexivity|]. cbn [map]. destruct Ho as (_ & -> & _). now rewrite IH. }
    assert (map (fun x : option facts => match x with None => 0 | Some y => mx y end) ((if b then [None] else []) ++ map (fun o => Some (facts_of o)) os)
            = map Z.of_N ((if b then [0%N] else []) ++ map max_impl os)) as E2.
    { clear -Hos. rewrite !map_app. f_equal; [destruct b; reflexivity|]. rewrite !map_map. induction Hos as [|o os' Ho Hos' IH]; [reflexivity|]. cbn [map]. destruct Ho as (_ & _ & ->). now rewrite IH. }
    rewrite E1, E2. split.
    + destruct ((if b then [0%N] else []) ++ map min_impl os) as [|x r]; [reflexivity|]. cbn [map py_min]. rewrite fold_min. lia.
    + destruct ((if b then [0%N] else []) ++ map max_impl os) as [|x r]; [reflexivity|]. cbn [map py_max fold_left]. rewrite fold_max. rewrite N.max_0_l. lia.
Qed.

(* Container.type_byte_length(): the fixed size, or an exception for a container with a variable-size field *)
Theorem eq_container_type_byte_length fs :
  t_Container_type_byte_length (map facts_of fs) = rmap Z.of_N (type_byte_length_impl (TContainer fs)).
Proof.
  destruct (eq_facts (TContainer fs)) as (Hf & Hmn & _). cbn [facts_of fx mn] in Hf, Hmn.
  unfold t_Container_type_byte_length, type_byte_length_impl. rewrite Hf, Hmn. destruct (is_fixed_impl (TContainer fs)); reflexivity.
Qed.

Print Assumptions eq_basic_sizes.
Print Assumptions eq_container_type_byte_length.
Print Assumptions eq_facts.
